#!/bin/bash
# Re-run every kept seeded change against the checks recorded in its meta.json, each in its own scratch worktree (MZSA_ROOT may point at a
# snapshot of /verif).  A seed is fine when every recorded check reports a violation with (one of) the recorded rule(s).
ROOT=${MZSA_ROOT:-/verif}
fail=0
for d in /verif/seeded/*/; do
  n=$(basename $d)
  checks=$(python3 -c "import json;print(' '.join(sorted({c.split(':')[0] for c in json.load(open('$d/meta.json'))['verif']['caught_by']})))")
  [ -n "$checks" ] || { echo "$n: meta.json has no verif.caught_by"; fail=1; continue; }
  out=$(MZSA_ROOT=$ROOT /verif/selftest/seed_par.sh $n $checks)
  bad=""
  for cb in $(python3 -c "import json;print(' '.join(json.load(open('$d/meta.json'))['verif']['caught_by']))"); do
    q=${cb%%:*}; rule=${cb#*:}
    echo "$out" | grep -q "$q:[^ ]*$rule," || bad="$bad $cb"
  done
  if [ -z "$bad" ]; then echo "$n ok: $out"; else echo "$n MISSED$bad :: $out"; fail=1; fi
done
exit $fail
