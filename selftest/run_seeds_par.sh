#!/bin/bash
# Re-run every kept seeded change against the checks recorded in its meta.json, each in its own scratch worktree, ${JOBS:-3} seeds at a
# time (MZSA_ROOT may point at a snapshot of /verif).  Exit 0 iff every seed is reported by every recorded check with a recorded rule.
ls /verif/seeded | xargs -P ${JOBS:-3} -I{} /verif/selftest/check_seed.sh {} | tee /tmp/run_seeds_par.out
! grep -q "MISSED\|has no verif" /tmp/run_seeds_par.out
