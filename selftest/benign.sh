#!/bin/bash
# usage: benign.sh <wt-suffix> — for each behaviour-preserving patch in /tmp/wt-<suffix>/.seed/patch*.diff: apply it to /repo, run every check
# (quick tier, evidence to scratch), report the checks that raise an alarm, undo it.  Stores the patches under /verif/benign/<suffix>/.
set -u
N=$1; WT=/tmp/wt-$N; OUT=/verif/benign/$N
mkdir -p $OUT; cp $WT/.seed/* $OUT/ 2>/dev/null
cd /verif
export MZSA_EVIDENCE_DIR=$(mktemp -d /tmp/mzsa-evid.XXXXXX)
[ -z "$(git -C /repo status --short)" ] || { echo "/repo has uncommitted changes"; exit 2; }
for pf in $OUT/patch*.diff; do
  k=$(basename $pf .diff)
  git -C /repo apply $pf || { echo "$N/$k: patch does not apply"; continue; }
  alarms=""
  for p in C01 C02 C03 C04 C05 C06 C07 C08 C09 C10 C11 C12 C13 C14 C16 C17 C18 C19 C20; do
    ( ./check $p --tier quick > $OUT/$k.$p.log 2>&1; echo "$p $?" > $OUT/$k.$p.rc ) &
  done; wait
  for p in C01 C02 C03 C04 C05 C06 C07 C08 C09 C10 C11 C12 C13 C14 C16 C17 C18 C19 C20; do
    rc=$(cut -d' ' -f2 $OUT/$k.$p.rc)
    if [ "$rc" != "0" ]; then alarms="$alarms $p(rc=$rc:$(grep '^  rule' $OUT/$k.$p.log | awk '{print $2}' | sort -u | tr '\n' ','))"; else rm -f $OUT/$k.$p.log; fi
    rm -f $OUT/$k.$p.rc
  done
  git -C /repo checkout -- .
  if [ -z "$alarms" ]; then echo "$N/$k: silent (19 checks)"; else echo "$N/$k: ALARM$alarms"; fi
done
rm -rf "$MZSA_EVIDENCE_DIR"
