#!/bin/bash
# usage: seed_par.sh <seed-name> [checks...] — apply /verif/seeded/<name>/patch.diff in its own scratch worktree of /repo and run the given
# checks (default: all 19) against it in parallel; prints which checks report a violation.  /repo itself is not touched.
set -u
ROOT=${MZSA_ROOT:-/verif}
N=$1; shift
CHECKS=${*:-C01 C02 C03 C04 C05 C06 C07 C08 C09 C10 C11 C12 C13 C14 C16 C17 C18 C19 C20}
export MZSA_KEEP_CACHE=1
WT=/tmp/wt-sp-$N
git -C /repo worktree remove --force $WT >/dev/null 2>&1
git -C /repo worktree add --detach $WT HEAD >/dev/null 2>&1 || { echo "$N: cannot create worktree"; exit 2; }
git -C $WT apply /verif/seeded/$N/patch.diff || { echo "$N: patch does not apply"; git -C /repo worktree remove --force $WT; exit 2; }
E=$(mktemp -d /tmp/mzsa-evid.XXXXXX); T=$(mktemp -d)
for p in $CHECKS; do
  ( MZSA_REPO=$WT MZSA_EVIDENCE_DIR=$E $ROOT/check $p --tier quick > $T/$p.log 2>&1; echo $? > $T/$p.rc ) &
done; wait
res=""
for p in $CHECKS; do
  rc=$(cat $T/$p.rc)
  if [ "$rc" = "1" ]; then res="$res $p:$(grep '^  rule' $T/$p.log | awk '{print $2}' | sort -u | tr '\n' ',')"; cp $T/$p.log /tmp/sp-$N-$p.log
  elif [ "$rc" != "0" ]; then res="$res $p:ERROR(rc=$rc)"; cp $T/$p.log /tmp/sp-$N-$p.log; fi
done
echo "$N: ${res:- (no check reports it)}"
rm -rf $E $T; git -C /repo worktree remove --force $WT >/dev/null 2>&1
rm -rf $ROOT/.cache/$(python3 -c "import hashlib,os;print(hashlib.sha256(os.path.abspath('$WT').encode()).hexdigest()[:8])")
