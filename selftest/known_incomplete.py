#!/usr/bin/env python3
"""known_incomplete.py <variant> "<alarms>": exit 0 iff every alarm raised on this behaviour-preserving variant is listed for it in
benign/KNOWN_INCOMPLETE.json (alarms look like `C18(rc=1:R18.1,)`)."""
import json, re, sys
variant, alarms = sys.argv[1], sys.argv[2].split()
ent = [e for e in json.load(open("/verif/benign/KNOWN_INCOMPLETE.json"))["entries"] if e["variant"] == variant]
if not ent:
    sys.exit(1)
allowed = {}
for a in ent[0]["alarms"]:
    c, r = a.split(":")
    allowed.setdefault(c, set()).add(r)
for a in alarms:
    m = re.match(r"(C\d+)\(rc=(\d+):([^)]*)\)", a)
    if not m or m.group(2) != "1" or m.group(1) not in allowed:
        sys.exit(1)
    rules = {q for q in m.group(3).split(",") if q}
    if not rules or not rules <= allowed[m.group(1)]:
        sys.exit(1)
sys.exit(0)
