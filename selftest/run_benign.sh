#!/bin/bash
# Re-run every stored behaviour-preserving variant (/verif/benign/<set>/patch*.diff) against all 19 checks: each must stay silent.
cd /verif
[ -z "$(git -C /repo status --short)" ] || { echo "/repo has uncommitted changes"; exit 2; }
export MZSA_EVIDENCE_DIR=$(mktemp -d /tmp/mzsa-evid.XXXXXX)
fail=0
for pf in /verif/benign/*/patch*.diff; do
  n=$(basename $(dirname $pf))/$(basename $pf .diff)
  git -C /repo apply $pf || { echo "$n: patch does not apply"; fail=1; continue; }
  T=$(mktemp -d)
  for p in C01 C02 C03 C04 C05 C06 C07 C08 C09 C10 C11 C12 C13 C14 C16 C17 C18 C19 C20; do
    ( ./check $p --tier quick > $T/$p.log 2>&1; echo $? > $T/$p.rc ) &
  done; wait
  alarms=""
  for p in C01 C02 C03 C04 C05 C06 C07 C08 C09 C10 C11 C12 C13 C14 C16 C17 C18 C19 C20; do
    rc=$(cat $T/$p.rc); [ "$rc" = "0" ] || alarms="$alarms $p(rc=$rc:$(grep '^  rule' $T/$p.log | awk '{print $2}' | sort -u | tr '\n' ','))"
  done
  rm -rf $T
  git -C /repo checkout -- .
  if [ -z "$alarms" ]; then echo "$n: silent";
  elif python3 /verif/selftest/known_incomplete.py "$n" "$alarms"; then echo "$n: KNOWN-INCOMPLETE$alarms";
  else echo "$n: ALARM$alarms"; fail=1; fi
done
rm -rf "$MZSA_EVIDENCE_DIR"
exit $fail
