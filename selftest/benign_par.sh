#!/bin/bash
# usage: benign_par.sh <set> [checks...] — test the behaviour-preserving patches of /verif/benign/<set> in parallel, each in its own scratch
# worktree of /repo (MZSA_REPO), against the given checks (default: all 19).  /repo itself is not touched.
# BENIGN_SMART=1: run, per patch, only the checks whose rules analyse the files the patch touches (about half of the 19), for quick re-runs.
set -u
# MZSA_ROOT: run the checks of a snapshot copy of /verif (so that the checker can be edited while a round is running)
ROOT=${MZSA_ROOT:-/verif}
B=$1; shift
CHECKS=${*:-C01 C02 C03 C04 C05 C06 C07 C08 C09 C10 C11 C12 C13 C14 C16 C17 C18 C19 C20}
export MZSA_KEEP_CACHE=1
for pf in /verif/benign/$B/patch*.diff; do
  k=$(basename $pf .diff)
  (
    WT=/tmp/wt-bp-$B-$k
    git -C /repo worktree remove --force $WT >/dev/null 2>&1
    git -C /repo worktree add --detach $WT HEAD >/dev/null 2>&1 || { echo "$B/$k: cannot create worktree"; exit; }
    git -C $WT apply $pf || { echo "$B/$k: patch does not apply"; git -C /repo worktree remove --force $WT; exit; }
    E=$(mktemp -d /tmp/mzsa-evid.XXXXXX); T=$(mktemp -d)
    CHECKS_P="$CHECKS"
    if [ -n "${BENIGN_SMART:-}" ]; then
      # only the checks whose rules analyse the files this patch touches (C20 always: it is the build itself)
      CHECKS_P="C20"
      grep -q "^+++ b/miniz_oxide/src/inflate/\(core\|output_buffer\|mod\)" $pf && CHECKS_P="$CHECKS_P C03 C04 C05 C06 C07 C08 C09 C13 C16 C18 C19"
      grep -q "^+++ b/miniz_oxide/src/inflate/stream" $pf && CHECKS_P="$CHECKS_P C05 C06 C07 C08 C13 C16 C17 C18 C19"
      grep -q "^+++ b/miniz_oxide/src/deflate/" $pf && CHECKS_P="$CHECKS_P C01 C02 C09 C10 C11 C12 C14 C16 C17 C18"
      grep -q "^+++ b/miniz_oxide/src/shared" $pf && CHECKS_P="$CHECKS_P C09 C16"
      grep -q "^+++ b/src/" $pf && CHECKS_P="$CHECKS_P C13 C14 C16 C17 C18"
      CHECKS_P=$(echo $CHECKS_P | tr ' ' '\n' | sort -u | tr '\n' ' ')
    fi
    for p in $CHECKS_P; do
      ( MZSA_REPO=$WT MZSA_EVIDENCE_DIR=$E $ROOT/check $p --tier quick > $T/$p.log 2>&1; echo $? > $T/$p.rc ) &
    done; wait
    alarms=""
    for p in $CHECKS_P; do
      rc=$(cat $T/$p.rc); [ "$rc" = "0" ] || { alarms="$alarms $p(rc=$rc:$(grep '^  rule' $T/$p.log | awk '{print $2}' | sort -u | tr '\n' ','))"; cp $T/$p.log /tmp/bp-$B-$k-$p.log; }
    done
    if [ -z "$alarms" ]; then echo "$B/$k: silent";
    elif python3 /verif/selftest/known_incomplete.py "$B/$k" "$alarms"; then echo "$B/$k: KNOWN-INCOMPLETE$alarms";
    else echo "$B/$k: ALARM$alarms"; fi
    rm -rf $E $T; git -C /repo worktree remove --force $WT >/dev/null 2>&1
    rm -rf $ROOT/.cache/$(python3 -c "import hashlib,os;print(hashlib.sha256(os.path.abspath('$WT').encode()).hexdigest()[:8])")
  ) &
done
wait
