#!/bin/bash
# Re-run every kept seeded change against the checks recorded in its meta.json (applied to /repo, undone straight afterwards).
cd /verif
export MZSA_EVIDENCE_DIR=$(mktemp -d /tmp/mzsa-evid.XXXXXX)
[ -z "$(git -C /repo status --short)" ] || { echo "/repo has uncommitted changes"; exit 2; }
fail=0
for d in /verif/seeded/*/; do
  n=$(basename $d)
  checks=$(python3 -c "import json;print(' '.join(sorted({c.split(':')[0] for c in json.load(open('$d/meta.json'))['verif']['caught_by']})))")
  [ -n "$checks" ] || { echo "$n: meta.json has no verif.caught_by"; fail=1; continue; }
  git -C /repo apply $d/patch.diff || { echo "$n: patch does not apply"; fail=1; continue; }
  for q in $checks; do
    out=$(./check $q 2>&1); rc=$?
    rules=$(echo "$out" | grep '^  rule' | awk '{print $2}' | sort -u | tr '\n' ' ')
    if [ $rc -eq 1 ]; then echo "$n  $q  caught: $rules"; else echo "$n  $q  MISSED (rc=$rc)"; fail=1; fi
  done
  git -C /repo checkout -- .
done
rm -rf "$MZSA_EVIDENCE_DIR"
exit $fail
