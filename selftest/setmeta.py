#!/usr/bin/env python3
"""setmeta.py <seed-name> <Cxx:Rxx.y> [...] [--note text] — record in seeded/<name>/meta.json how the seed was confirmed and what catches it."""
import json, sys, os
name = sys.argv[1]
args = sys.argv[2:]
note = None
if "--note" in args:
    i = args.index("--note"); note = args[i + 1]; args = args[:i] + args[i + 2:]
d = os.path.join("/verif/seeded", name)
m = json.load(open(os.path.join(d, "meta.json")))
conf = open(os.path.join(d, "confirm.txt")).read().split()
m["verif"] = {
    "confirmed_by": "selftest/seed.sh (demo passes on the original tree, fails with the change; the repository suite passes with the change)",
    "confirm": conf,
    "checks_run": sorted({"./check %s --tier quick" % a.split(":")[0] for a in args}),
    "caught_by_rules": sorted({a.split(":")[1] for a in args}),
    "caught_by": args,
}
if note:
    m["verif"]["note"] = note
json.dump(m, open(os.path.join(d, "meta.json"), "w"), indent=1)
print(name, m["verif"]["caught_by"])
