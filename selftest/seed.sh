#!/bin/bash
# usage: seed.sh <Cxx> [name]   — confirm a sub-agent's seeded change in its scratch worktree /tmp/wt-<Cxx>,
# store it under /verif/seeded/<name>, then run the property's check against it (applied to /repo, undone afterwards).
set -u
P=$1; NAME=${2:-$1-1}; WT=/tmp/wt-$P; OUT=/verif/seeded/$NAME
[ -f $WT/.seed/patch.diff ] || { echo "no patch in $WT/.seed"; exit 2; }
mkdir -p $OUT
cp $WT/.seed/* $OUT/ 2>/dev/null
DEMO=$(python3 -c "import json,re;print(re.sub(r'\s+\([^()]*\)\s*$','',json.load(open('$WT/.seed/meta.json'))['demo_cmd']))")
export CARGO_TARGET_DIR=$WT/target CARGO_NET_OFFLINE=true
cd $WT
git checkout -q -- . ; 
echo "== demo WITHOUT change"; (eval "$DEMO") > $OUT/demo_without.log 2>&1; RC0=$?; tail -3 $OUT/demo_without.log
git apply .seed/patch.diff || { echo "patch does not apply"; exit 2; }
echo "== demo WITH change"; (eval "$DEMO") > $OUT/demo_with.log 2>&1; RC1=$?; tail -3 $OUT/demo_with.log
# suite with change, demo moved aside
mkdir -p /tmp/aside-$P; for f in $(git ls-files --others --exclude-standard | grep -v "^target\|^\.seed"); do mkdir -p /tmp/aside-$P/$(dirname $f); mv $f /tmp/aside-$P/$f; done
echo "== suite WITH change"; cargo test --workspace --offline --no-fail-fast > $OUT/suite_with.log 2>&1; RC2=$?; grep -E "^test result" $OUT/suite_with.log | awk '{p+=$4; f+=$6} END {print "passed",p,"failed",f}'
(cd /tmp/aside-$P && find . -type f | while read f; do mkdir -p $WT/$(dirname $f); mv $f $WT/$f; done); rm -rf /tmp/aside-$P
echo "demo_without_rc=$RC0 demo_with_rc=$RC1 suite_with_rc=$RC2" | tee $OUT/confirm.txt
if [ $RC0 -eq 0 ] && [ $RC1 -ne 0 ] && [ $RC2 -eq 0 ]; then echo CONFIRMED | tee -a $OUT/confirm.txt; else echo NOT-CONFIRMED | tee -a $OUT/confirm.txt; fi
[ -n "${NOCHECK:-}" ] && exit 0   # NOCHECK=1: confirm only; run the checks with selftest/seed_par.sh (scratch worktree, /repo untouched)
# run my checks against it
cd /verif
export MZSA_EVIDENCE_DIR=$(mktemp -d /tmp/mzsa-evid.XXXXXX)
git -C /repo apply $OUT/patch.diff || { echo "patch does not apply to /repo"; exit 2; }
for Q in ${CHECKS:-$P}; do ./check $Q > $OUT/check_$Q.log 2>&1; echo "check $Q rc=$? : $(grep -c '^VIOLATION' $OUT/check_$Q.log) violations; rules: $(grep '^  rule' $OUT/check_$Q.log | awk '{print $2}' | sort -u | tr '\n' ' ')"; done
git -C /repo checkout -- .
git -C /repo status --short | head -3
rm -rf "$MZSA_EVIDENCE_DIR"
