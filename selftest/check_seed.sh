#!/bin/bash
# usage: check_seed.sh <seed-name> — run the checks recorded in seeded/<name>/meta.json against the seed (own scratch worktree) and verify
# that every recorded check reports a violation with the recorded rule.
ROOT=${MZSA_ROOT:-/verif}
n=$1; d=/verif/seeded/$n
if python3 -c "import json,sys;sys.exit(0 if json.load(open('$d/meta.json')).get('verif',{}).get('missed') else 1)"; then echo "$n KNOWN-MISS (recorded in meta.json: no check reports it)"; exit 0; fi
checks=$(python3 -c "import json;print(' '.join(sorted({c.split(':')[0] for c in json.load(open('$d/meta.json'))['verif']['caught_by']})))")
[ -n "$checks" ] || { echo "$n: meta.json has no verif.caught_by"; exit 1; }
out=$(MZSA_ROOT=$ROOT /verif/selftest/seed_par.sh $n $checks)
bad=""
for cb in $(python3 -c "import json;print(' '.join(json.load(open('$d/meta.json'))['verif']['caught_by']))"); do
  q=${cb%%:*}; rule=${cb#*:}
  echo "$out" | grep -q "$q:[^ ]*$rule," || bad="$bad $cb"
done
if [ -z "$bad" ]; then echo "$n ok: $out"; else echo "$n MISSED$bad :: $out"; exit 1; fi
