#!/usr/bin/env python3
"""Checker self-test: apply one mutant (or benign variant) to a scratch copy of /repo and run checks on it.

usage: mutate.py [--tests] [--keep] <mutants.json> [id ...]
Each entry: {"id", "props": ["C13"], "file", "find", "replace", "expect": "R13.2" | null (benign: must stay silent), "count": 1}
The scratch copy lives under $TMPDIR and is removed afterwards, with its build output.
"""
import json
import os
import shutil
import subprocess
import sys
import tempfile

VERIF = os.path.dirname(os.path.dirname(os.path.abspath(__file__)))


def main():
    args = sys.argv[1:]
    tests = "--tests" in args
    args = [a for a in args if not a.startswith("--")]
    spec = json.load(open(args[0]))
    want = set(args[1:])
    results = []
    for m in spec:
        if want and m["id"] not in want:
            continue
        tmp = tempfile.mkdtemp(prefix="mzsa-mut-")
        try:
            dst = os.path.join(tmp, "repo")
            # the committed state of /repo (not its working tree, which a seeded change may be applied to at this moment)
            os.makedirs(dst, exist_ok=True)
            subprocess.check_call("git -C /repo archive HEAD | tar -x -C %s" % dst, shell=True)
            edits = m.get("edits") or [m]
            okm = True
            for e in edits:
                p = os.path.join(dst, e["file"])
                s = open(p).read()
                n = s.count(e["find"])
                if n != e.get("count", 1):
                    print("MUTANT %s: pattern occurs %d times in %s (expected %d)" % (m["id"], n, e["file"], e.get("count", 1)))
                    okm = False
                    break
                s = s.replace(e["find"], e["replace"])
                open(p, "w").write(s)
            if not okm:
                results.append((m["id"], "BAD-PATTERN"))
                continue
            if tests:
                r = subprocess.run("cargo test --workspace --offline 2>&1 | grep -E '^test result|FAILED|error' | head -20", shell=True, cwd=dst,
                                   stdout=subprocess.PIPE, text=True, env=dict(os.environ, CARGO_TARGET_DIR=os.path.join(tmp, "tt")))
                failed = "FAILED" in r.stdout or "error" in r.stdout
                print("  [tests] %s" % ("FAIL (mutant is caught by the suite)" if failed else "pass"))
            for prop in m["props"]:
                env = dict(os.environ, MZSA_REPO=dst, MZSA_KEEP_CACHE="1", MZSA_EVIDENCE_DIR=os.path.join(tmp, "evidence"))
                r = subprocess.run([os.path.join(VERIF, "check"), prop, "--tier", m.get("tier", "quick")], env=env,
                                   stdout=subprocess.PIPE, stderr=subprocess.STDOUT, text=True, cwd=VERIF)
                out = r.stdout
                fired = [l.split("rule ")[1].split()[0] for l in out.splitlines() if l.strip().startswith("rule ")]
                exp = m.get("expect")
                if "ANALYSIS-ERROR" in out:
                    verdict = "ANALYSIS-ERROR"
                elif exp is None:
                    verdict = "ok-silent" if r.returncode == 0 else "FALSE-ALARM " + ",".join(sorted(set(fired)))
                else:
                    exps = exp if isinstance(exp, list) else [exp]
                    hit = [f for f in fired if any(f.startswith(x) for x in exps)]
                    verdict = ("caught " + ",".join(sorted(set(fired)))) if (r.returncode == 1 and hit) else \
                        ("MISSED (rc=%d fired=%s)" % (r.returncode, sorted(set(fired))))
                print("%-28s %-4s %s" % (m["id"], prop, verdict))
                results.append((m["id"], verdict))
                if "-v" in sys.argv or verdict.startswith(("MISSED", "FALSE", "ANALYSIS")):
                    print("\n".join("      " + l[:400] for l in out.splitlines()[-25:]))
        finally:
            shutil.rmtree(tmp, ignore_errors=True)
            # drop the scratch copy's fact cache
            import hashlib
            h = hashlib.sha256(os.path.abspath(os.path.join(tmp, "repo")).encode()).hexdigest()[:8]
            shutil.rmtree(os.path.join(VERIF, ".cache", h), ignore_errors=True)
    bad = [r for r in results if r[1].startswith(("MISSED", "FALSE", "ANALYSIS", "BAD"))]
    print("%d mutants/variants, %d problems" % (len(results), len(bad)))
    return 1 if bad else 0


if __name__ == "__main__":
    sys.exit(main())
