"""RFC 1951 / RFC 1950 tables, written from the specifications (independently of the repository).

RFC 1951 §3.2.5: length codes 257..285 and distance codes 0..29 with extra bits;
§3.2.6: fixed Huffman code lengths; §3.2.7: code-length alphabet order and repeat codes; §3.2.4 stored blocks.
RFC 1950 §2.2: CMF/FLG rules."""

# ---- length codes (symbol 257 + i)
LENGTH_EXTRA = [0] * 8 + [1] * 4 + [2] * 4 + [3] * 4 + [4] * 4 + [5] * 4 + [0]
LENGTH_BASE = []
_b = 3
for _i, _e in enumerate(LENGTH_EXTRA[:-1]):
    LENGTH_BASE.append(_b)
    _b += 1 << _e
LENGTH_BASE.append(258)          # code 285: length 258, no extra bits
assert len(LENGTH_BASE) == 29 and LENGTH_BASE[-2] == 227 and LENGTH_BASE[8] == 11

# ---- distance codes 0..29
DIST_EXTRA = [0, 0, 0, 0] + [e for e in range(1, 14) for _ in (0, 1)]
DIST_BASE = []
_b = 1
for _e in DIST_EXTRA:
    DIST_BASE.append(_b)
    _b += 1 << _e
assert len(DIST_BASE) == 30 and DIST_BASE[-1] == 24577 and _b == 32769

MIN_MATCH, MAX_MATCH = 3, 258
MAX_DIST = 32768
NUM_LITLEN_CODES = 286      # HLIT max: 257..286
NUM_DIST_CODES = 30         # HDIST max: 1..30 (32 encodable, 30/31 never used)
NUM_CLEN_CODES = 19
MAX_CODE_LEN = 15
MAX_CLEN_CODE_LEN = 7
HLIT_BITS, HDIST_BITS, HCLEN_BITS, CLEN_BITS = 5, 5, 4, 3
HLIT_BASE, HDIST_BASE, HCLEN_BASE = 257, 1, 4

# ---- code length alphabet (§3.2.7)
CLEN_ORDER = [16, 17, 18, 0, 8, 7, 9, 6, 10, 5, 11, 4, 12, 3, 13, 2, 14, 1, 15]
REPEAT = {16: (2, 3), 17: (3, 3), 18: (7, 11)}   # symbol -> (extra bits, base repeat count)

# ---- fixed Huffman codes (§3.2.6)
FIXED_LITLEN_LENGTHS = [8] * 144 + [9] * 112 + [7] * 24 + [8] * 8
FIXED_DIST_LENGTHS = [5] * 32
assert len(FIXED_LITLEN_LENGTHS) == 288
EOB = 256
FIXED_EOB_LEN = FIXED_LITLEN_LENGTHS[EOB]       # 7 bits, code 0000000

# ---- block types
BTYPE_STORED, BTYPE_FIXED, BTYPE_DYNAMIC, BTYPE_RESERVED = 0, 1, 2, 3
STORED_MAX_LEN = 65535


def length_symbol(length):
    """(symbol index 0..28, extra bits, extra value) for a match length 3..258"""
    for i in range(28, -1, -1):
        if length >= LENGTH_BASE[i]:
            if i == 28 and length != 258:
                continue
            return i, LENGTH_EXTRA[i], length - LENGTH_BASE[i]
    raise ValueError(length)


def dist_symbol(dist):
    for i in range(29, -1, -1):
        if dist >= DIST_BASE[i]:
            return i, DIST_EXTRA[i], dist - DIST_BASE[i]
    raise ValueError(dist)


# ---- RFC 1950
def zlib_header_ok(cmf, flg):
    """CM = 8, CINFO <= 7, FDICT clear, (CMF*256 + FLG) % 31 == 0"""
    return (cmf & 15) == 8 and (cmf >> 4) <= 7 and (flg & 0x20) == 0 and ((cmf << 8) | flg) % 31 == 0


def zlib_window(cmf):
    return 1 << ((cmf >> 4) + 8)


ADLER_INIT = 1
