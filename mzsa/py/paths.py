"""Path-sensitive abstract evaluation of (loop-free regions of) MIR bodies: decision tables.

For a function (optionally inlining crate-local callees) every feasible acyclic path from the entry
is walked while keeping: the value term of every place written on the path, the branch facts taken
(with a small interval/enum-set theory used only to prune contradictory paths and to follow branches
whose outcome is already determined), the ordered list of persistent effects (stores through
references, calls with their argument terms) and the outcome.  No solver, no execution of compiled
code; the walk is bounded by MAX_PATHS (fail closed).
"""
import re

from mir import Place, callee_name, callee_id
from terms import (ISet, Facts, is_const, const_val, fold_bin, ty_range, ty_bits, wrap, key_of, tstr, pstr,
                   CMP_NEG)


class PathLimit(Exception):
    pass


MAX_PATHS = 20000

PURE_MODELS = {
    # callee path suffix -> model name
    "core::cmp::min": "min", "core::cmp::max": "max",
    "core::cmp::Ord::min": "min", "core::cmp::Ord::max": "max",
    "core::cmp::impls::{impl#": None,
}


class Row:
    """One evaluated path."""
    __slots__ = ("facts", "atoms", "effects", "outcome", "ret", "store", "trace", "epochs", "kind", "target", "hav")

    def __init__(self):
        self.facts = None
        self.atoms = []      # (term, ISet) in order taken
        self.effects = []    # ('store', placeterm, value, span) | ('call', callee, args, span, seq, closures)
        self.outcome = None  # ('return',) | ('backedge', bb) | ('stop', bb) | ('diverge', what)
        self.ret = None
        self.store = None
        self.trace = []

    def calls(self, pred=None):
        out = [e for e in self.effects if e[0] == "call"]
        if pred:
            out = [e for e in out if pred(e[1])]
        return out

    def stores(self):
        return [e for e in self.effects if e[0] == "store"]

    def called(self, suffix):
        return [e for e in self.effects if e[0] == "call" and _sfx(e[1], suffix)]

    def describe(self, maxatoms=12):
        a = " ∧ ".join("%s∈%r" % (tstr(t), s) for t, s in self.atoms[:maxatoms])
        return "[%s] => %s %s" % (a, self.outcome, tstr(self.ret) if self.ret else "")


def _sfx(name, suffix):
    return name == suffix or name.endswith("::" + suffix)


class State:
    __slots__ = ("store", "facts", "atoms", "effects", "frames", "epochs", "seq", "visited", "trace", "hav")

    def __init__(self):
        self.store = {}
        self.facts = Facts()
        self.atoms = []
        self.effects = []
        self.frames = []   # list of (fn, frame_id, ret_dest_placeterm, ret_target_bb)
        self.epochs = {}
        self.seq = 0
        self.visited = set()
        self.trace = []
        self.hav = []

    def copy(self):
        s = State()
        s.store = dict(self.store)
        s.facts = self.facts.copy()
        s.atoms = list(self.atoms)
        s.effects = list(self.effects)
        s.frames = list(self.frames)
        s.epochs = dict(self.epochs)
        s.hav = list(self.hav)
        s.seq = self.seq
        s.visited = set(self.visited)
        s.trace = list(self.trace)
        return s


def root_of(pt):
    while pt[0] in ("fld", "idx", "cidx", "sub", "dc"):
        pt = pt[1]
    return pt


def is_prefix(a, b):
    """placeterm a is b or an ancestor of b."""
    while True:
        if a == b:
            return True
        if b[0] in ("fld", "idx", "cidx", "sub", "dc"):
            b = b[1]
        else:
            return False


def fields_beyond(pt, anc):
    """(of, name) pairs of the field projections of `pt` below its ancestor `anc`."""
    out = []
    while pt != anc and pt[0] in ("fld", "idx", "cidx", "sub", "dc"):
        if pt[0] == "fld":
            out.append((pt[3], pt[2]))
        pt = pt[1]
    return out


def affects(pt, ev_pt, locs):
    if is_prefix(pt, ev_pt):
        return True
    if not is_prefix(ev_pt, pt):
        return False
    if locs is None:
        return True
    fb = fields_beyond(pt, ev_pt)          # innermost first
    named = [x for x in fb if x[0] and not x[0].startswith(("core::", "alloc::"))]
    if not named:
        return True
    W, whole = locs
    if named[0] in W:
        return True
    return any(x in whole for x in named[1:])


_KNOWN_FNS = None


def known_fns():
    """names of the functions of the reference tree (mzsa/tables/known_fns.json); a crate-local callee outside this set is a
    helper introduced later and is evaluated transparently (see mkknown.py)"""
    global _KNOWN_FNS
    if _KNOWN_FNS is None:
        import json
        import os
        p = os.path.join(os.path.dirname(os.path.dirname(os.path.abspath(__file__))), "tables", "known_fns.json")
        _KNOWN_FNS = frozenset(json.load(open(p))) if os.path.exists(p) else frozenset()
    return _KNOWN_FNS


def is_new_helper(cf):
    """a loop-free function item that the reference tree does not have"""
    if cf is None or cf.kind in ("closure", "promoted") or not known_fns() or cf.name in known_fns():
        return False
    if "{closure" in cf.name or "{promoted" in cf.name:
        return False
    return not any(cf.dominates(b, p) for b in range(len(cf.blocks)) for p in cf.preds(b))


class Evaluator:
    def __init__(self, crate, inline=(), inline_depth=3, stop_blocks=(), ptr=64, pure_calls=(),
                 max_paths=MAX_PATHS, record_trace=False, extra_crates=(), effects=None, max_blocks=None,
                 summaries=(), sumcache=None, unroll=1, concrete_ranges=False):
        self.unroll = unroll
        # opt-in: `for _ in a..b` with constant bounds is executed concretely (the iterator value lives in the store), so that with a
        # sufficient `unroll` the rows enumerate exactly the feasible iteration counts.  Off by default: rows that stand for "any
        # iteration" need the payload symbolic in [a, b).
        self.concrete_ranges = concrete_ranges
        self.unroll_heads = None      # when set: only these blocks may be revisited `unroll` times, every other block once
        self.effects = effects
        self.max_blocks = max_blocks
        self.summaries = tuple(summaries)
        self._sumcache = sumcache if sumcache is not None else {}
        self._fresh = 0
        self.crate = crate
        self.crates = [crate] + list(extra_crates)
        self.inline = tuple(inline)
        self.inline_depth = inline_depth
        self.stop = set(stop_blocks)
        self.ptr = ptr
        self.pure_calls = tuple(pure_calls)
        self.arrlen = {}
        self.hoisted = True
        self.max_paths = max_paths
        self.rows = []
        self.frame_counter = 0
        self.record_trace = record_trace
        self._derived_eq = None

    # ------------------------------------------------------------------ helpers
    def lookup_fn(self, name):
        for c in self.crates:
            f = c.fns.get(name)
            if f is not None:
                return f
        return None

    def derived_eq_impls(self):
        if self._derived_eq is None:
            s = {}
            for c in self.crates:
                for im in c.impls:
                    if im["trait"] and im["trait"].endswith("cmp::PartialEq") and im["derived"]:
                        s[im["path"]] = im.get("self_path")
            self._derived_eq = s
        return self._derived_eq

    def enum_const(self, adt_path, variant):
        for c in self.crates:
            a = c.adts.get(adt_path)
            if a:
                for v in a["variants"]:
                    if v["name"] == variant:
                        return ("enum", adt_path, variant, int(v["discr"]) if v["discr"] is not None else 0)
        # foreign enums (Option / Result): discriminant = variant index, filled by caller
        return None

    def variant_discrs(self, adt_path):
        for c in self.crates:
            a = c.adts.get(adt_path)
            if a and a["kind"] == "enum":
                return [int(v["discr"]) for v in a["variants"]]
        if adt_path.endswith("option::Option") or adt_path.endswith("result::Result"):
            return [0, 1]
        return None

    def is_fieldless_enum(self, adt_path):
        for c in self.crates:
            a = c.adts.get(adt_path)
            if a:
                return a["kind"] == "enum" and all(not v["fields"] for v in a["variants"])
        return False

    # ------------------------------------------------------------------ places
    def resolve(self, st, frame, fn, pl):
        """MIR place -> canonical placeterm under the current store."""
        cur = ("local", frame, pl.local)
        for p in pl.proj:
            k = p[0]
            if k == "deref":
                v = self.read(st, cur)
                if v[0] == "ref":
                    cur = v[1]
                else:
                    cur = ("deref", v)
            elif k == "f":
                cur = ("fld", cur, p[2] or str(p[1]), p[3])
            elif k == "i":
                iv = self.read(st, ("local", frame, p[1]))
                cur = ("idx", cur, iv)
            elif k == "ci":
                cur = ("cidx", cur, p[1], p[2])
            elif k == "sub":
                cur = ("sub", cur, p[1], p[2], p[3])
            elif k == "dc":
                cur = ("dc", cur, p[2] or str(p[1]))
            else:
                cur = ("fld", cur, "?", "")
        return cur

    def read(self, st, pt):
        v = st.store.get(pt)
        if v is not None:
            return v
        sh = st.store.get(("$shape", pt))
        if sh is not None:
            if sh[0] == "agg":
                return ("agg", sh[1], sh[2], sh[3], tuple(self.read(st, ("fld", pt, n, sh[1])) for n in sh[3]))
            if sh[0] == "tuple":
                return ("tuple", tuple(self.read(st, ("fld", pt, str(i), "")) for i in range(sh[1])))
            if sh[0] == "closure":
                return ("closure", sh[1], tuple(self.read(st, ("fld", pt, str(i), sh[1])) for i in range(sh[2])))
            if sh[0] == "array":
                return ("array", tuple(self.read(st, ("cidx", pt, i, False)) for i in range(sh[1])))
        k = pt[0]
        if k in ("fld", "dc", "idx", "cidx"):
            base = self.read_opt(st, pt[1])
            if base is not None:
                if k == "fld":
                    if base[0] == "agg":
                        names = base[3]
                        if pt[2] in names:
                            return base[4][names.index(pt[2])]
                        if pt[2].isdigit() and int(pt[2]) < len(base[4]):
                            return base[4][int(pt[2])]
                    if base[0] == "tuple" and pt[2].isdigit() and int(pt[2]) < len(base[1]):
                        return base[1][int(pt[2])]
                    if base[0] == "closure" and pt[2].isdigit() and int(pt[2]) < len(base[2]):
                        return base[2][int(pt[2])]
                    if base[0] in ("call", "pure", "field", "param", "unknown"):
                        return ("field", base, pt[2])
                    if base[0] == "load":
                        return ("load", ("fld", base[1], pt[2], pt[3]), base[2])
                elif k == "dc":
                    if base[0] == "agg":
                        return base
                    if base[0] in ("call", "pure", "field", "param", "unknown"):
                        return ("field", base, "as " + pt[2])
                    if base[0] == "load":
                        return ("load", ("dc", base[1], pt[2]), base[2])
                elif k == "idx":
                    if base[0] == "array" and is_const(pt[2]) and 0 <= const_val(pt[2]) < len(base[1]):
                        return base[1][const_val(pt[2])]
                    if base[0] == "constarr" and is_const(pt[2]) and 0 <= const_val(pt[2]) < len(base[2]):
                        return ("int", base[2][const_val(pt[2])])
                    if base[0] == "constarr":
                        return ("pure", "index", (base, pt[2]))
                    if base[0] == "array" and base[1] and all(is_const(q) for q in base[1]):
                        return ("pure", "index", (("constarr", "<inline>", tuple(const_val(q) for q in base[1])), pt[2]))
                    if base[0] in ("call", "pure", "field", "param", "unknown") and is_const(pt[2]):
                        return ("field", base, "[%d]" % const_val(pt[2]))
                elif k == "cidx":
                    if base[0] == "array" and not pt[3] and pt[2] < len(base[1]):
                        return base[1][pt[2]]
                    if base[0] in ("call", "pure", "field", "param", "unknown") and not pt[3]:
                        # pattern destructuring `let [a, b] = f(..)` reads the same element as `f(..)[0]`
                        return ("field", base, "[%d]" % pt[2])
                    if base[0] == "constarr" and not pt[3] and pt[2] < len(base[2]):
                        return ("int", base[2][pt[2]])
        r = root_of(pt)
        if r[0] == "local":
            # reading an unwritten local: argument or uninitialised
            frame, l = r[1], r[2]
            if pt == r and not self._epoch(st, pt):
                return ("unknown", "local%d.%d" % (frame, l))
        return ("load", pt, self._epoch(st, pt))

    def read_opt(self, st, pt):
        v = st.store.get(pt)
        if v is not None:
            return v
        if pt[0] in ("fld", "dc", "idx", "cidx"):
            b = self.read_opt(st, pt[1])
            if b is not None and b[0] in ("agg", "tuple", "closure", "call", "pure", "field", "param", "load",
                                          "array", "constarr", "unknown"):
                v = self.read(st, pt)
                return v
        return None

    def _epoch(self, st, pt):
        for i in range(len(st.hav) - 1, -1, -1):
            ev_pt, locs = st.hav[i]
            if affects(pt, ev_pt, locs):
                return i + 1
        return 0

    def write(self, st, pt, v):
        # drop more specific entries and partially overwritten aggregates
        for k in [k for k in st.store if k != pt and (is_prefix(pt, k) or
                                                      (k[0] in ("$shape", "$variant") and is_prefix(pt, k[1])))]:
            del st.store[k]
        # a write into a sub-place of a stored aggregate: rewrite the aggregate when simple, else split
        parent = pt
        while parent[0] in ("fld", "dc", "idx", "cidx", "sub"):
            parent = parent[1]
            pv = st.store.get(parent)
            if pv is not None:
                if pv[0] in ("agg", "tuple", "closure", "array"):
                    self._explode(st, parent, pv)
                else:
                    # keep parent (e.g. a call result) – children entries take precedence on read
                    pass
                break
        st.store[pt] = v

    def _explode(self, st, parent, pv):
        """Replace a stored aggregate by entries for its fields so one field can be overwritten."""
        del st.store[parent]
        if pv[0] == "agg":
            base = parent
            # enum variants are addressed through a downcast
            for n, o in zip(pv[3], pv[4]):
                st.store[("fld", base, n, pv[1])] = o
                st.store[("fld", ("dc", base, pv[2]), n, pv[1])] = o
            st.store[("$variant", parent)] = ("str", pv[1], pv[2])
            st.store[("$shape", parent)] = ("agg", pv[1], pv[2], pv[3])
        elif pv[0] == "tuple":
            for i, o in enumerate(pv[1]):
                st.store[("fld", parent, str(i), "")] = o
            st.store[("$shape", parent)] = ("tuple", len(pv[1]))
        elif pv[0] == "closure":
            for i, o in enumerate(pv[2]):
                st.store[("fld", parent, str(i), pv[1])] = o
            st.store[("$shape", parent)] = ("closure", pv[1], len(pv[2]))
        elif pv[0] == "array":
            for i, o in enumerate(pv[1]):
                st.store[("cidx", parent, i, False)] = o
            st.store[("$shape", parent)] = ("array", len(pv[1]))

    def havoc(self, st, pt, locs=None):
        for k in [k for k in st.store if isinstance(k, tuple) and k and k[0] not in ("$variant", "$shape") and affects(k, pt, locs)]:
            # keep entries that are strict ancestors holding references (the reference itself is unchanged)
            if is_prefix(k, pt) and k != pt:
                v = st.store[k]
                if v[0] == "ref":
                    continue
            del st.store[k]
        st.hav.append((pt, locs))

    # ------------------------------------------------------------------ operands / rvalues
    def const_term(self, k):
        if "fn" in k:
            return ("fn", k["fn"])
        if "promoted" in k:
            pf = self.lookup_fn(k["promoted"])
            if pf is not None:
                v = self.eval_promoted(pf)
                if v is not None:
                    return v
            return ("promoted", k["promoted"])
        if "int" in k:
            if "variant" in k:
                tyname = k["ty"]
                # resolve the ADT path by name suffix
                for c in self.crates:
                    for p, a in c.adts.items():
                        if p.endswith("::" + tyname.split("::")[-1]) or p == tyname:
                            if a["kind"] == "enum" and any(v["name"] == k["variant"] for v in a["variants"]):
                                return ("enum", p, k["variant"], int(k["int"]))
            return ("int", int(k["int"]))
        if k.get("zst"):
            return ("unit",)
        if "item" in k:
            c = None
            for cr in self.crates:
                c = cr.consts.get(k["item"])
                if c:
                    break
            if c and "ints" in c:
                return ("constarr", k["item"], tuple(int(x) for x in c["ints"]))
            return ("constitem", k["item"])
        if k.get("ty") == "()":
            return ("unit",)
        return ("unknown", "const:" + str(k.get("dbg", k.get("ty")))[:80])

    def eval_promoted(self, pf):
        """promoted bodies are `_1 = <const>; _0 = &_1` (possibly through a const-fn call such as RangeInclusive::new):
        return a ref to a pseudo place holding the value."""
        st = State()
        fid = -abs(hash(pf.id)) % (1 << 30) - 1
        bb = 0
        for _ in range(4):
            blk = pf.blocks[bb]
            for s in blk["s"]:
                if "a" in s:
                    pl = Place(s["a"][0])
                    v = self.rvalue(st, fid, pf, s["a"][1])
                    self.write(st, self.resolve(st, fid, pf, pl), v)
            t = blk["t"]
            if "call" in t and t["target"] is not None:
                name = callee_name(t["call"])
                args = [self.operand(st, fid, pf, a) for a in t["args"]]
                if name.endswith("RangeInclusive::<Idx>::new") and len(args) == 2:
                    v = ("agg", "core::ops::range::RangeInclusive", "RangeInclusive", ("start", "end", "exhausted"), (args[0], args[1], ("int", 0)))
                else:
                    v = ("call", name, tuple(args), 0)
                self.write(st, self.resolve(st, fid, pf, Place(t["dest"])), v)
                bb = t["target"]
                continue
            if "goto" in t:
                bb = t["goto"]
                continue
            break
        r = st.store.get(("local", fid, 0))
        if r is not None and r[0] == "ref":
            inner = self.read(st, r[1])
            return ("ref", ("promoted", pf.id, inner), False)
        return r

    def operand(self, st, frame, fn, o):
        if "c" in o or "m" in o:
            pl = Place(o.get("c") or o.get("m"))
            pt = self.resolve(st, frame, fn, pl)
            if pt[0] == "promoted":
                return pt[2]
            return self.read(st, pt)
        if "k" in o:
            return self.const_term(o["k"])
        return ("unknown", "operand")

    def operand_ty(self, fn, o):
        if "c" in o or "m" in o:
            pl = o.get("c") or o.get("m")
            if not pl["p"]:
                return fn.locals[pl["l"]]["ty"]
            return None
        if "k" in o:
            return o["k"].get("ty")
        return None

    def rvalue(self, st, frame, fn, rv, dest_ty=None):
        if "use" in rv:
            return self.operand(st, frame, fn, rv["use"])
        if "ref" in rv or "ptr" in rv:
            pl = Place(rv.get("ref") or rv.get("ptr"))
            pt = self.resolve(st, frame, fn, pl)
            return ("ref", pt, bool(rv["mut"]))
        if "bin" in rv:
            op, a, b = rv["bin"]
            ta, tb = self.operand(st, frame, fn, a), self.operand(st, frame, fn, b)
            ty = self.operand_ty(fn, a) or dest_ty
            if op in CMP_NEG:
                ty_res = "bool"
            else:
                ty_res = dest_ty or ty
            return self.mk_bin(st, op, ta, tb, ty_res)
        if "un" in rv:
            op, a = rv["un"]
            ta = self.operand(st, frame, fn, a)
            ty = dest_ty or self.operand_ty(fn, a)
            if op == "PtrMetadata":
                # a reference / pointer to an array of statically known size (before unsizing)
                import re as _re
                m = _re.search(r"\[[^\[\]]*; (\d+)(?:_usize)?\]$", (self.operand_ty(fn, a) or "").strip())
                if m:
                    return ("int", int(m.group(1)))
                if ta[0] == "ref":
                    return self._mk_len(self._place_val(st, ta[1]))
                return self._mk_len(ta)
            if is_const(ta):
                v = const_val(ta)
                if op == "Not":
                    if ty == "bool":
                        return ("int", 1 - v)
                    b = ty_bits(ty, self.ptr)
                    if b:
                        return ("int", wrap(~v, ty, self.ptr))
                if op == "Neg":
                    return ("int", wrap(-v, ty, self.ptr) if ty else -v)
            if op == "Not" and ty == "bool":
                d = st.facts.get(ta).single()
                if d is not None:
                    return ("int", 1 - d)
                if ta[0] == "bin" and ta[1] in CMP_NEG:
                    return ("bin", CMP_NEG[ta[1]], ta[2], ta[3], "bool")
            if op == "Not" and ty and ty != "bool" and ta[0] == "bin" and ta[1] == "Shl" and is_const(ta[2]):
                # !(MAX << n)  ==  (1 << n) - 1
                b = ty_bits(ty, self.ptr)
                if b and const_val(ta[2]) == (1 << b) - 1:
                    return self.mk_bin(st, "Sub", self.mk_bin(st, "Shl", ("int", 1), ta[3], ty), ("int", 1), ty)
            return ("un", op, ta, ty)
        if "cast" in rv:
            kind, a, ty = rv["cast"]
            ta = self.operand(st, frame, fn, a)
            sty = self.operand_ty(fn, a)
            if kind == "IntToInt":
                if is_const(ta):
                    return ("int", wrap(const_val(ta), ty, self.ptr))
                ck = "int"
                sb, db = ty_bits(sty, self.ptr) if sty else None, ty_bits(ty, self.ptr)
                if sb and db:
                    s_signed = sty[0] == "i"
                    d_signed = ty[0] == "i"
                    if db > sb and (not s_signed or d_signed):
                        ck = "widen"
                    elif db == sb and s_signed == d_signed:
                        ck = "widen"
                elif sty and not sb and db:
                    # enum discriminant cast
                    ck = "widen"
                return ("cast", ta, ty, ck)
            if kind in ("PtrToPtr", "Transmute") or kind.startswith("PointerCoercion"):
                if kind.startswith("PointerCoercion") and sty:
                    # unsizing a reference to an array of statically known length: remember the length of the resulting slice
                    import re as _re
                    m = _re.search(r"\[[^\[\]]*; (\d+)(?:_usize)?\]$", sty.strip())
                    if m and isinstance(ta, tuple):
                        self.arrlen[ta] = int(m.group(1))
                return ta if kind != "Transmute" else ("cast", ta, ty, "transmute")
            return ("cast", ta, ty, kind)
        if "agg" in rv:
            a = rv["agg"]
            ops = tuple(self.operand(st, frame, fn, o) for o in a["ops"])
            if a["kind"] == "adt":
                if not ops and self.is_fieldless_enum(a["def"]):
                    e = self.enum_const(a["def"], a["variant"])
                    if e:
                        return e
                return ("agg", a["def"], a["variant"], tuple(a["fields"]), ops)
            if a["kind"] == "tuple":
                if not ops:
                    return ("unit",)
                return ("tuple", ops)
            if a["kind"] == "array":
                return ("array", ops)
            if a["kind"] == "closure":
                return ("closure", a["def"], ops)
            return ("unknown", "agg")
        if "discr" in rv:
            pt = self.resolve(st, frame, fn, Place(rv["discr"]))
            v = self.read(st, pt)
            d = self.mk_discr(st, v, pt)
            if d[0] == "discr" and rv.get("adt"):
                vals = self.variant_discrs(rv["adt"])
                if vals:
                    st.facts.constrain(d, ISet._norm([(x, x) for x in vals]))
            return d
        if "repeat" in rv:
            o, n = rv["repeat"]
            return ("pure", "repeat", (self.operand(st, frame, fn, o), ("int", n if n is not None else -1)))
        return ("unknown", "rv:" + str(rv.get("other"))[:60])

    def _place_val(self, st, pt):
        return self.read(st, pt)

    def mk_discr(self, st, v, pt=None):
        if v[0] == "enum":
            return ("int", v[3])
        if v[0] == "agg":
            # Option/Result or local enums with payloads
            e = self.enum_const(v[1], v[2])
            if e:
                return ("int", e[3])
            idx = {"None": 0, "Some": 1, "Ok": 0, "Err": 1}.get(v[2])
            if idx is not None:
                return ("int", idx)
        if pt is not None:
            tag = st.store.get(("$variant", pt))
            if tag:
                e = self.enum_const(tag[1], tag[2])
                if e:
                    return ("int", e[3])
        d = st.facts.get(("discr", v)).single()
        if d is not None:
            return ("int", d)
        return ("discr", v)

    def mk_bin(self, st, op, a, b, ty):
        if a[0] == "enum" and b[0] == "enum" and op in ("Eq", "Ne"):
            return ("int", int((a[3] == b[3]) == (op == "Eq")))
        if is_const(a) and is_const(b):
            r = fold_bin(op, const_val(a), const_val(b), ty if op not in CMP_NEG else None, self.ptr)
            if r is not None:
                if op in ("AddO", "SubO", "MulO"):
                    return ("tuple", (("int", r), ("int", 0)))
                return ("int", r)
        if op in CMP_NEG:
            d = st.facts.decide_cmp(op, a, b)
            if d is not None:
                return ("int", d)
        # algebraic identities that keep terms canonical
        if op in ("BitOr", "Add", "BitXor") and is_const(b) and const_val(b) == 0:
            return a
        if op in ("BitOr", "Add", "BitXor") and is_const(a) and const_val(a) == 0:
            return b
        if op == "BitAnd" and ((is_const(b) and const_val(b) == 0) or (is_const(a) and const_val(a) == 0)):
            return ("int", 0)
        if ty == "bool" and op == "BitOr":
            for x, y in ((a, b), (b, a)):
                if is_const(x):
                    return ("int", 1) if const_val(x) else y
        if ty == "bool" and op == "BitAnd":
            for x, y in ((a, b), (b, a)):
                if is_const(x):
                    return y if const_val(x) else ("int", 0)
        if op in ("Sub", "SubO") and is_const(b) and const_val(b) == 0:
            return a
        # constants to the right for commutative operations
        if op in ("Add", "Mul", "BitAnd", "BitOr", "BitXor", "Eq", "Ne") and is_const(a) and not is_const(b):
            a, b = b, a
        # equivalent spellings are mapped to one form, so that rules do not depend on which one the source uses
        if op in ("Eq", "Ne") and is_const(b) and a[0] == "bin" and a[1] == "BitXor" and len(a) > 4 and a[4]:
            xb = ty_bits(a[4], self.ptr)
            if xb and a[4][0] == "u" and const_val(b) == (1 << xb) - 1:
                # (x ^ y) == !0   <=>   x == !y
                return self.mk_bin(st, op, a[2], ("un", "Not", a[3], a[4]), ty)
        bits = ty_bits(ty, self.ptr) if ty and ty != "bool" else None
        if bits and ty[0] == "u" and is_const(b):
            cb = const_val(b)
            if op == "Rem" and cb > 0 and cb & (cb - 1) == 0:
                # x % 2^k  ==  x & (2^k - 1)   (unsigned)
                return self.mk_bin(st, "BitAnd", a, ("int", cb - 1), ty)
            if op == "Mul" and cb > 1 and cb & (cb - 1) == 0 and a[0] == "bin" and a[1] == "Shr" and is_const(a[3]) and \
                    (1 << const_val(a[3])) == cb:
                # (x >> k) * 2^k  ==  x & !(2^k - 1)
                return self.mk_bin(st, "BitAnd", a[2], ("int", ((1 << bits) - 1) & ~(cb - 1)), ty)
            if op == "Shl" and cb >= 1 and a[0] == "bin" and a[1] == "Shr" and is_const(a[3]) and const_val(a[3]) == cb:
                # (x >> k) << k  ==  x & !(2^k - 1)
                return self.mk_bin(st, "BitAnd", a[2], ("int", ((1 << bits) - 1) & ~((1 << cb) - 1)), ty)
        # interval evaluation of the result when both operand ranges are known (bit tests)
        t = ("bin", op, a, b, ty)
        if op == "BitAnd" and is_const(b) and a[0] == "bin" and a[1] == "BitOr" and is_const(a[3]):
            # (x | c1) & c2  with c1 covering c2
            if const_val(a[3]) & const_val(b) == const_val(b):
                return ("int", const_val(b))
        if op in ("AddO", "SubO", "MulO"):
            return ("tuple", (("bin", op[:-1], a, b, ty), ("pure", "overflow", (t,))))
        return t

    # ------------------------------------------------------------------ driving
    def run(self, fn, args=None, facts=None, start_bb=0, init_store=None):
        """Evaluate all paths of `fn`; args: optional list of terms for the parameters."""
        self.rows = []
        st = State()
        if facts is not None:
            st.facts = facts.copy()
        self.frame_counter = 0
        frame = 0
        for i in range(1, fn.argc + 1):
            v = args[i - 1] if args and i - 1 < len(args) and args[i - 1] is not None else ("param", i)
            st.store[("local", frame, i)] = v
        if init_store is None and start_bb != 0 and self.hoisted:
            init_store = self._hoisted_values(fn, start_bb)
            self.rows = []
        if init_store:
            st.store.update(init_store)
        st.frames.append((fn, frame, None, None))
        self._walk(st, fn, frame, start_bb)
        return self.rows

    _hoist_cache = {}

    def _hoisted_values(self, fn, head):
        """When an evaluation starts at a loop head, the locals that are assigned nowhere at or after the head keep the value they
        got before the loop.  Those values are computed by evaluating the function from its entry up to the head (same settings) and
        are kept when they are identical on every path reaching the head and mention only parameters, constants and pure operations
        on them — so `let k = f(arg); loop { use(k) }` yields the same terms as `loop { use(f(arg)) }`."""
        key = (id(self.crates[0]) if hasattr(self, "crates") else 0, fn.id, head, self.inline if hasattr(self, "inline") else ())
        try:
            hash(key)
        except TypeError:
            key = (fn.id, head)
        if key in Evaluator._hoist_cache:
            return Evaluator._hoist_cache[key]
        out = {}
        try:
            reach = fn.reachable(head)
            assigned = set()
            for b in reach:
                blk = fn.blocks[b]
                for s_ in blk["s"]:
                    if "a" in s_:
                        assigned.add(s_["a"][0]["l"])
                    if "a" in s_ and "ref" in s_["a"][1] and s_["a"][1].get("mut"):
                        assigned.add(s_["a"][1]["ref"]["l"])          # mutably borrowed: may change behind the borrow
                    if "a" in s_ and "ptr" in s_["a"][1]:
                        assigned.add(s_["a"][1]["ptr"]["l"])
                t = blk["t"]
                if "call" in t and t.get("dest") is not None:
                    assigned.add(t["dest"]["l"])
            saved = (self.stop, self.rows, self.max_paths, self.hoisted)
            self.stop = {head}          # other loop heads on the way are passed through (first arrival) like any block
            self.hoisted = False
            self.max_paths = min(self.max_paths, 4000)
            try:
                pre = [x for x in self.run(fn) if x.outcome[0] == "stop" and x.outcome[1] == head]
            finally:
                self.stop, self.rows, self.max_paths, self.hoisted = saved
            if pre:
                for k, v in pre[0].store.items():
                    if not (isinstance(k, tuple) and len(k) == 3 and k[0] == "local" and k[1] == 0):
                        continue
                    if k[2] in assigned or k[2] <= fn.argc or not isinstance(v, tuple):
                        continue
                    if all(x.store.get(k) == v for x in pre) and \
                            not term_contains(v, lambda y: y and y[0] in ("unknown", "call") or (y and y[0] == "load" and y[2] != 0)):
                        out[k] = v
        except PathLimit:
            out = {}
        except Exception:
            out = {}
        Evaluator._hoist_cache[key] = out
        return out

    def _finish(self, st, outcome, ret=None):
        if len(self.rows) >= self.max_paths:
            raise PathLimit("more than %d paths" % self.max_paths)
        r = Row()
        r.facts = st.facts
        r.atoms = st.atoms
        r.effects = st.effects
        r.outcome = outcome
        r.ret = ret
        r.store = st.store
        r.trace = st.trace
        r.epochs = st.epochs
        r.hav = st.hav
        self.rows.append(r)

    def _walk(self, st, fn, frame, bb):
        while True:
            key = (frame, bb)
            if len(st.frames) == 1 and bb in self.stop:
                self._finish(st, ("stop", bb))
                return
            if self.unroll <= 1:
                if key in st.visited:
                    self._finish(st, ("backedge", bb))
                    return
                if self.max_blocks is not None and len(st.visited) >= self.max_blocks:
                    self._finish(st, ("stop", bb))
                    return
                st.visited.add(key)
            else:
                n = sum(1 for k in st.visited if k[0] == frame and k[1] == bb)
                if n >= (self.unroll if (self.unroll_heads is None or bb in self.unroll_heads) else 1):
                    self._finish(st, ("backedge", bb))
                    return
                if self.max_blocks is not None and len(st.visited) >= self.max_blocks:
                    self._finish(st, ("stop", bb))
                    return
                st.visited.add((frame, bb, n))
            if self.record_trace:
                st.trace.append((fn.id, bb))
            blk = fn.blocks[bb]
            for s in blk["s"]:
                if "a" in s:
                    pl = Place(s["a"][0])
                    dty = fn.locals[pl.local]["ty"] if pl.is_local() else None
                    v = self.rvalue(st, frame, fn, s["a"][1], dty)
                    pt = self.resolve(st, frame, fn, pl)
                    self.write(st, pt, v)
                    if root_of(pt)[0] != "local" or root_of(pt)[1] != frame or self._escaped_local(st, pt):
                        st.effects.append(("store", pt, v, s.get("sp", ""), len(st.atoms)))
                elif "setdiscr" in s:
                    pass
            t = blk["t"]
            if "goto" in t:
                bb = t["goto"]
                continue
            if "return" in t:
                ret = self.read(st, ("local", frame, 0))
                if len(st.frames) > 1:
                    fnc, fr, dest, target = st.frames[-1][:4]
                    post = st.frames[-1][4] if len(st.frames[-1]) > 4 else None
                    st.frames = st.frames[:-1]
                    cfn, cframe = st.frames[-1][0], st.frames[-1][1]
                    if post is not None and post[0] == "assume":
                        # a predicate closure evaluated for the element an adaptor handed out: only the paths on which it holds
                        # continue, and the caller receives `post[1]` (e.g. Some(element))
                        if is_const(ret):
                            if const_val(ret) != 1:
                                return
                        else:
                            if not st.facts.constrain(ret, ISet.of(1)):
                                return
                            st.atoms.append((ret, ISet.of(1)))
                        ret = post[1]
                    elif post is not None and post[0] == "assume_false":
                        if is_const(ret):
                            if const_val(ret) != 0:
                                return
                        else:
                            if not st.facts.constrain(ret, ISet.of(0)):
                                return
                            st.atoms.append((ret, ISet.of(0)))
                        ret = post[1]
                    elif post is not None and post[0] == "wrap":
                        ret = ("agg", post[1], post[2], ("0",), (ret,))
                    self.write(st, dest, ret)
                    if root_of(dest)[0] != "local":
                        st.effects.append(("store", dest, ret, ""))
                    fn, frame, bb = cfn, cframe, target
                    # the callee's blocks may be visited again by a later call
                    st.visited = {k for k in st.visited if k[0] != fr}
                    continue
                self._finish(st, ("return",), ret)
                return
            if "unreachable" in t:
                self._finish(st, ("diverge", "unreachable"))
                return
            if "drop" in t:
                bb = t["target"]
                continue
            if "assert" in t:
                c = self.operand(st, frame, fn, t["assert"])
                exp = 1 if t["expected"] else 0
                if is_const(c):
                    if const_val(c) != exp:
                        self._finish(st, ("diverge", "assert:" + t["kind"]))
                        return
                else:
                    # fork: failing assertion diverges
                    s2 = st.copy()
                    if s2.facts.constrain(c, ISet.of(1 - exp)):
                        s2.atoms.append((c, ISet.of(1 - exp)))
                        self._finish(s2, ("diverge", "assert:" + t["kind"]))
                    if not st.facts.constrain(c, ISet.of(exp)):
                        return
                bb = t["target"]
                continue
            if "switch" in t:
                v = self.operand(st, frame, fn, t["switch"])
                if not is_const(v):
                    d = st.facts.get(v).single()
                    if d is not None:
                        v = ("int", d)
                sty = self.operand_ty(fn, t["switch"])
                targets = [(wrap(int(x), sty, self.ptr) if sty else int(x), b) for x, b in t["targets"]]
                if is_const(v):
                    cv = const_val(v)
                    nb = t["otherwise"]
                    for x, b in targets:
                        if x == cv:
                            nb = b
                    bb = nb
                    continue
                # fork
                allowed = st.facts.get(v)
                ty = self.operand_ty(fn, t["switch"])
                if ty:
                    allowed = allowed.inter(ty_range(ty))
                branches = []
                taken = ISet()
                for x, b in targets:
                    s = ISet.of(x)
                    taken = taken.union(s)
                    if not allowed.inter(s).empty():
                        branches.append((s, b))
                rest = allowed.inter(taken.compl())
                if not rest.empty():
                    branches.append((rest, t["otherwise"]))
                if not branches:
                    return
                for i, (s, b) in enumerate(branches):
                    s2 = st.copy() if i < len(branches) - 1 else st
                    if s2.facts.constrain(v, s):
                        s2.atoms.append((v, s))
                        self._walk(s2, fn, frame, b)
                return
            if "call" in t:
                conts = self._call(st, fn, frame, bb, t)
                if not conts:
                    return
                for (s2, f2, fr2, b2) in conts[:-1]:
                    self._walk(s2, f2, fr2, b2)
                st, fn, frame, bb = conts[-1]
                continue
            # resume / abort / other
            self._finish(st, ("diverge", "term"))
            return

    def _escaped_local(self, st, pt):
        return False

    def fresh(self, tag):
        self._fresh += 1
        return ("unknown", "%s#%d" % (tag, self._fresh))

    def _call(self, st, fn, frame, bb, t):
        """-> list of continuations (state, fn, frame, bb)"""
        c = t["call"]
        args = [self.operand(st, frame, fn, a) for a in t["args"]]
        dest = self.resolve(st, frame, fn, Place(t["dest"]))
        target = t["target"]
        callee = callee_name(c)
        cid = callee_id(c)
        sp = t.get("sp", "")

        def finish_value(st, val):
            self.write(st, dest, val)
            if root_of(dest)[0] != "local":
                st.effects.append(("store", dest, val, sp))
            if target is None:
                self._finish(st, ("diverge", "call:" + callee))
                return []
            return [(st, fn, frame, target)]

        # ---- modelled callees
        m = self.model_call(st, callee, c, args)
        if m is not None:
            return finish_value(st, m)
        # ---- core::mem::replace(&mut place, v): returns the old value and stores v (so `let old = replace(&mut x, v)` is `let old = x; x = v`)
        if callee in ("core::mem::replace", "std::mem::replace") and len(args) == 2 and args[0][0] == "ref":
            pl_ = args[0][1]
            old_ = self.read(st, pl_)
            self.write(st, pl_, args[1])
            if root_of(pl_)[0] != "local":
                st.effects.append(("store", pl_, args[1], sp))
            return finish_value(st, old_)
        # ---- `table.get(i)` on an array of statically known length: Some(&table[i]) iff i < len (two continuations)
        if callee == "core::slice::<impl [T]>::get" and len(args) == 2 and args[0][0] == "ref" and \
                args[1][0] not in ("agg", "tuple", "call") and not (args[1][0] == "ref"):
            base_pl = args[0][1]
            arrv = args[0][1][2] if base_pl[0] == "promoted" else self.read(st, base_pl)
            n = self.arrlen.get(args[0])
            if n is None and arrv and arrv[0] == "constarr":
                n = len(arrv[2])
            if n is None and arrv and arrv[0] == "array":
                n = len(arrv[1])
            if n is not None:
                cond = self.mk_bin(st, "Lt", args[1], ("int", n), "bool")
                conts = []
                for val in (0, 1):
                    s2 = st.copy() if val == 0 else st
                    if is_const(cond):
                        if const_val(cond) != val:
                            continue
                    else:
                        if not s2.facts.constrain(cond, ISet.of(val)):
                            continue
                        s2.atoms.append((cond, ISet.of(val)))
                    if val:
                        if arrv and arrv[0] == "constarr":
                            # element value: the table entry (same term as `TABLE[i]`)
                            elem_pl = ("idx", base_pl, args[1])
                            s2.store[elem_pl] = ("pure", "index", (arrv, args[1]))
                        value = ("agg", "core::option::Option", "Some", ("0",), (("ref", ("idx", base_pl, args[1]), False),))
                    else:
                        value = ("agg", "core::option::Option", "None", (), ())
                    conts += finish_value(s2, value)
                return conts
        # ---- Option / Result / bool combinators with closure arguments: evaluated as the control flow they stand for
        comb = self._combinator(callee)
        if comb is not None:
            conts = self._eval_combinator(st, comb, args, dest, target, callee, sp, finish_value)
            if conts is not None:
                return conts
        # ---- constant ranges executed concretely (opt-in)
        if self.concrete_ranges and args:
            if callee.endswith("::into_iter") and args[0][0] == "agg" and args[0][1].endswith("::Range"):
                return finish_value(st, args[0])
            if callee.endswith("::next") and "ops::Range<" in callee and args[0][0] == "ref":
                pl_ = args[0][1]
                for _ in range(4):
                    v_ = self.read(st, pl_)
                    if isinstance(v_, tuple) and v_ and v_[0] == "ref":
                        pl_ = v_[1]
                    else:
                        break
                if isinstance(v_, tuple) and v_ and v_[0] == "agg" and v_[1].endswith("::Range") and len(v_[4]) == 2 and \
                        is_const(v_[4][0]) and is_const(v_[4][1]):
                    a_, b_ = const_val(v_[4][0]), const_val(v_[4][1])
                    if a_ < b_:
                        self.write(st, pl_, v_[:4] + ((("int", a_ + 1), v_[4][1]),))
                        return finish_value(st, ("agg", "core::option::Option", "Some", ("0",), (("int", a_),)))
                    return finish_value(st, ("agg", "core::option::Option", "None", (), ()))
        # ---- `iter.find(pred)`: None, or Some(x) for an element x on which the predicate holds
        if callee.endswith("Iterator>::find") or callee.endswith("Iterator::find"):
            clo = args[1] if len(args) > 1 else None
            if clo is not None and clo[0] == "ref":
                clo = self.read(st, clo[1])
            pcf = self.lookup_fn(clo[1]) if (clo is not None and clo[0] == "closure") else None
            if pcf is not None and len(st.frames) <= self.inline_depth + 4:
                st.seq += 1
                seq = st.seq
                st.effects.append(("call", callee, tuple(args), sp, seq, tuple(c.get("closures", [])), len(st.atoms)))
                self._havoc_arg(st, args[0])
                s_none = st.copy()
                conts = finish_value(s_none, ("agg", "core::option::Option", "None", (), ()))
                elem = ("field", ("field", ("call", callee, tuple(args), seq), "as Some"), "0")
                dl = t["dest"]
                m_ = re.search(r"Option<([a-z0-9]+)>", fn.locals[dl["l"]]["ty"]) if not dl["p"] else None
                if m_ and not ty_range(m_.group(1)).is_all():
                    st.facts.constrain(elem, ty_range(m_.group(1)))
                if "ops::Range<" in callee or "Rev<" in callee or "StepBy<" in callee:
                    rb = self._const_range_of(fn, args[0], direct=True)
                    if rb is not None and rb[0] < rb[1]:
                        st.facts.constrain(elem, ISet._norm([(rb[0], rb[1] - 1)]))
                holder = ("local", self.frame_counter + 1, 100001)
                st.store[holder] = elem
                some = ("agg", "core::option::Option", "Some", ("0",), (elem,))
                conts += self._enter(st, pcf, clo, [("ref", holder, False)], dest, target, callee, sp, post=("assume", some))
                return conts
        # ---- closure invocation with a known closure value
        if callee.endswith(("FnOnce::call_once", "FnMut::call_mut", "Fn::call")) and args:
            clo = args[0]
            if clo[0] == "ref":
                clo = self.read(st, clo[1])
            if clo[0] == "closure" and len(st.frames) <= self.inline_depth + 4:
                cf = self.lookup_fn(clo[1])
                if cf is not None:
                    targs = args[1][1] if (len(args) > 1 and args[1][0] == "tuple") else (() if len(args) < 2 or args[1][0] == "unit" else (args[1],))
                    return self._enter(st, cf, clo, list(targs), dest, target, callee, sp)
        # ---- inlined callees
        cf = self.lookup_fn(cid) if cid else None
        if cf is None and args and self.inline and not callee.startswith("<") and "::" in callee:
            # trait method called through a type parameter: dispatch on the receiver's known aggregate type
            recv = args[0]
            if recv[0] == "ref":
                recv = self.read(st, recv[1])
            if recv is not None and recv[0] == "agg":
                tr, meth = callee.rsplit("::", 1)
                ty = recv[1].split("::", 1)[1] if "::" in recv[1] else recv[1]
                want = "<%s as %s>::%s" % (ty, tr, meth)
                for cr in self.crates:
                    hit = [f for f in cr.fns.values() if f.name == want]
                    if len(hit) == 1:
                        cf, callee = hit[0], want
                        break
        if cf is not None and ((len(st.frames) <= self.inline_depth and any(_sfx(callee, s) or s == "*" for s in self.inline)) or
                               (len(st.frames) <= self.inline_depth + 2 and is_new_helper(cf))):
            self.frame_counter += 1
            nf = self.frame_counter
            for i, a in enumerate(args):
                st.store[("local", nf, i + 1)] = a
            st.frames.append((cf, nf, dest, target))
            st.effects.append(("enter", callee, tuple(args), sp))
            return [(st, cf, nf, 0)]
        # ---- summarised callees: fork over the abstract return alternatives
        if cf is not None and any(_sfx(callee, s) for s in self.summaries) and len(st.frames) <= self.inline_depth + 2:
            alts = self._summary_alts(cf)
            if alts:
                st.seq += 1
                seq = st.seq
                st.effects.append(("call", callee, tuple(args), sp, seq, tuple(c.get("closures", [])), len(st.atoms)))
                self._havoc_call(st, cid, args, cf_for_adt=cf if any(a[0] == "closure_call" for a in alts) else None)
                conts = []
                for i, alt in enumerate(alts):
                    s2 = st.copy() if i < len(alts) - 1 else st
                    if alt[0] == "closure_call":
                        clo = args[alt[1] - 1] if alt[1] - 1 < len(args) else None
                        if clo is not None and clo[0] == "ref":
                            clo = self.read(s2, clo[1])
                        ccf = self.lookup_fn(clo[1]) if (clo is not None and clo[0] == "closure") else None
                        if ccf is None:
                            conts += finish_value(s2, self.fresh("sumret:" + callee))
                            continue
                        targs = [args[j - 1] if (j and j - 1 < len(args)) else self.fresh("arg:%s" % callee.split("::")[-1])
                                 for j in alt[2]]
                        conts += self._enter(s2, ccf, clo, targs, dest, target, callee, sp)
                    else:
                        conts += finish_value(s2, self._instantiate(alt, callee))
                return conts
        # ---- opaque call
        st.seq += 1
        seq = st.seq
        res = ("call", callee, tuple(args), seq)
        st.effects.append(("call", callee, tuple(args), sp, seq, tuple(c.get("closures", [])), len(st.atoms)))
        self._havoc_call(st, cid, args)
        dl = t["dest"]
        if not dl["p"]:
            dty = fn.locals[dl["l"]]["ty"]
            tr = ty_range(dty)
            if not tr.is_all():
                st.facts.constrain(res, tr)
        if callee.endswith("::next") and ("ops::Range<" in callee or "StepBy<" in callee) and t.get("args"):
            # `for i in a..b` with constant bounds: the value handed out by Range::next lies in [a, b)
            rb = self._const_range_of(fn, t["args"][0])
            if rb is not None and rb[0] < rb[1]:
                payload = ("field", ("field", res, "as Some"), "0")
                st.facts.constrain(payload, ISet.of(*range(rb[0], rb[1])) if rb[1] - rb[0] <= 64 else ISet._norm([(rb[0], rb[1] - 1)]))
        return finish_value(st, res)

    # ------------------------------------------------------------------ combinators
    _COMB = {
        "option": ("map_or", "map_or_else", "map", "and_then", "unwrap_or", "unwrap_or_else", "or_else", "ok_or", "ok_or_else", "filter", "unwrap_or_default", "zip"),
        "result": ("map_or_else", "map_or", "unwrap_or_else", "unwrap_or", "map", "map_err", "ok"),
        "bool": ("then", "then_some"),
    }

    def _combinator(self, callee):
        if not callee.startswith("core::"):
            return None      # in crates built against std (the C API shim) these calls stay opaque: its rules read them as calls
        meth = callee.rsplit("::", 1)[-1]
        if "option::Option" in callee and meth in self._COMB["option"]:
            return ("option", meth)
        if "result::Result" in callee and meth in self._COMB["result"]:
            return ("result", meth)
        if ("<impl bool>" in callee or "core::bool::" in callee or "std::bool::" in callee) and meth in self._COMB["bool"]:
            return ("bool", meth)
        return None

    def _split_variant(self, st, v, kind):
        """continuations [(state, variant index, payload)] of an Option (None=0, Some=1) / Result (Ok=0, Err=1) value"""
        names = ("None", "Some") if kind == "option" else ("Ok", "Err")
        if v[0] == "agg" and v[2] in names:
            i = names.index(v[2])
            return [(st, i, v[4][0] if v[4] else None)]
        d = self.mk_discr(st, v)
        out = []
        for val in (0, 1):
            s2 = st.copy() if val == 0 else st
            if is_const(d):
                if const_val(d) != val:
                    continue
            else:
                if not s2.facts.constrain(d, ISet.of(val)):
                    continue
                s2.atoms.append((d, ISet.of(val)))
            pay = None
            if not (kind == "option" and val == 0):
                pay = ("field", ("field", v, "as " + names[val]), "0")
            out.append((s2, val, pay))
        return out

    def _closure_of(self, st, a):
        clo = a
        if clo is not None and clo[0] == "ref":
            clo = self.read(st, clo[1])
        cf = self.lookup_fn(clo[1]) if (clo is not None and clo[0] == "closure") else None
        return clo, cf

    def _eval_combinator(self, st, comb, args, dest, target, callee, sp, finish_value):
        kind, meth = comb
        OPT = "core::option::Option"
        RES = "core::result::Result"
        if len(st.frames) > self.inline_depth + 4:
            return None

        def call(s2, a, targs, post=None):
            clo, cf = self._closure_of(s2, a)
            if cf is None:
                # a closure this function merely received (generic parameter): its result is unknown, the branch structure is not
                s2.seq += 1
                res = ("call", "<closure argument of %s>" % callee.rsplit("::", 1)[-1], tuple(targs), s2.seq)
                s2.effects.append(("call", res[1], tuple(targs), sp, s2.seq, (), len(s2.atoms)))
                for a_ in targs:
                    self._havoc_arg(s2, a_)
                if post is not None and post[0] == "wrap":
                    res = ("agg", post[1], post[2], ("0",), (res,))
                elif post is not None:
                    return finish_value(s2, post[1])      # unknown predicate: both outcomes stay possible, nothing is assumed
                return finish_value(s2, res)
            return self._enter(s2, cf, clo, targs, dest, target, callee, sp, post=post)
        none = ("agg", OPT, "None", (), ())

        def some(x):
            return ("agg", OPT, "Some", ("0",), (x,))
        # closures that would be needed must be known before any state is forked
        need = {"map_or": [2], "map_or_else": [1, 2], "map": [1], "and_then": [1], "unwrap_or_else": [1], "or_else": [1], "ok_or_else": [1],
                "filter": [1], "map_err": [1], "then": [1]}.get(meth, [])
        if not any(i < len(args) and self._closure_of(st, args[i])[1] is not None for i in need) and need:
            return None         # no closure of this call is known: leave it opaque
        conts = []
        if kind == "bool":
            b = args[0]
            for val in (0, 1):
                s2 = st.copy() if val == 0 else st
                if is_const(b):
                    if const_val(b) != val:
                        continue
                else:
                    if not s2.facts.constrain(b, ISet.of(val)):
                        continue
                    s2.atoms.append((b, ISet.of(val)))
                if val == 0:
                    conts += finish_value(s2, none)
                elif meth == "then":
                    conts += call(s2, args[1], [], post=("wrap", OPT, "Some"))
                else:
                    conts += finish_value(s2, some(args[1]))
            return conts
        recv = args[0]
        if kind == "option" and meth == "zip":
            if len(args) != 2:
                return None
            for s2, i1, p1 in self._split_variant(st, recv, "option"):
                if i1 == 0:
                    conts += finish_value(s2, none)
                    continue
                for s3, i2, p2 in self._split_variant(s2, args[1], "option"):
                    conts += finish_value(s3, none if i2 == 0 else some(("tuple", (p1, p2))))
            return conts
        for s2, idx, pay in self._split_variant(st, recv, kind):
            if kind == "option":
                if idx == 0:        # None
                    if meth in ("map_or", "unwrap_or"):
                        conts += finish_value(s2, args[1])
                    elif meth in ("map_or_else", "unwrap_or_else", "or_else"):
                        conts += call(s2, args[1], [])
                    elif meth in ("map", "and_then", "filter"):
                        conts += finish_value(s2, none)
                    elif meth == "ok_or":
                        conts += finish_value(s2, ("agg", RES, "Err", ("0",), (args[1],)))
                    elif meth == "ok_or_else":
                        conts += call(s2, args[1], [], post=("wrap", RES, "Err"))
                    else:
                        return None
                else:               # Some(pay)
                    if meth == "map_or":
                        conts += call(s2, args[2], [pay])
                    elif meth == "map_or_else":
                        conts += call(s2, args[2], [pay])
                    elif meth == "map":
                        conts += call(s2, args[1], [pay], post=("wrap", OPT, "Some"))
                    elif meth == "and_then":
                        conts += call(s2, args[1], [pay])
                    elif meth in ("unwrap_or", "unwrap_or_else"):
                        conts += finish_value(s2, pay)
                    elif meth == "or_else":
                        conts += finish_value(s2, some(pay))
                    elif meth in ("ok_or", "ok_or_else"):
                        conts += finish_value(s2, ("agg", RES, "Ok", ("0",), (pay,)))
                    elif meth == "filter":
                        s3 = s2.copy()
                        for sx, post in ((s2, ("assume", some(pay))), (s3, ("assume_false", none))):
                            holder = ("local", self.frame_counter + 1, 100002)
                            sx.store[holder] = pay
                            conts += call(sx, args[1], [("ref", holder, False)], post=post)
                    else:
                        return None
            else:                   # Result: idx 0 = Ok(pay), 1 = Err(pay)
                if meth == "map_or_else":
                    conts += call(s2, args[2] if idx == 0 else args[1], [pay])
                elif meth == "map_or":
                    conts += (call(s2, args[2], [pay]) if idx == 0 else finish_value(s2, args[1]))
                elif meth == "unwrap_or_else":
                    conts += (finish_value(s2, pay) if idx == 0 else call(s2, args[1], [pay]))
                elif meth == "unwrap_or":
                    conts += finish_value(s2, pay if idx == 0 else args[1])
                elif meth == "map":
                    conts += (call(s2, args[1], [pay], post=("wrap", RES, "Ok")) if idx == 0 else finish_value(s2, ("agg", RES, "Err", ("0",), (pay,))))
                elif meth == "map_err":
                    conts += (finish_value(s2, ("agg", RES, "Ok", ("0",), (pay,))) if idx == 0 else call(s2, args[1], [pay], post=("wrap", RES, "Err")))
                elif meth == "ok":
                    conts += finish_value(s2, some(pay) if idx == 0 else none)
                else:
                    return None
        return conts

    def _const_range_of(self, fn, operand, direct=False):
        """(a, b) if `operand` is `&mut R` (possibly reborrowed / moved) where local R is initialised once by
        `into_iter(Range { start: const a, end: const b })` — looked up in the MIR definitions; Range::next changes only `start`,
        so the bounds hold on every iteration"""
        def single_def(l):
            ds = fn.defs().get(l, [])
            return ds[0] if len(ds) == 1 else None

        def rvalue_of(l):
            d = single_def(l)
            if d is None:
                return None, None
            if d[1] == "t":
                return "call", fn.blocks[d[0]]["t"]
            return "rv", fn.blocks[d[0]]["s"][d[1]]["a"][1]

        def plain_local(o):
            pl = (o.get("c") or o.get("m")) if isinstance(o, dict) else None
            return pl["l"] if pl is not None and not pl["p"] else None
        l = plain_local(operand)
        # 1. down to the iterator local: follow moves and (re)borrows
        for _ in range(8):
            if l is None:
                return None
            k, v = rvalue_of(l)
            if k == "rv" and "use" in v:
                l = plain_local(v["use"])
            elif k == "rv" and "ref" in v:
                pr = v["ref"]
                if not pr["p"]:
                    l = pr["l"]
                    k2, v2 = rvalue_of(l)
                    if k2 == "call" or (k2 == "rv" and "agg" in v2) or (k2 == "rv" and "use" in v2):
                        pass
                    continue
                if len(pr["p"]) == 1 and pr["p"][0] in ("deref", {"deref": True}) or str(pr["p"]) in ("['deref']",):
                    l = pr["l"]
                else:
                    return None
            else:
                break
        # 2. the iterator local: = into_iter(x) / x.rev() / x.step_by(n) (through moves): all hand out a subset of x's items
        for _ in range(8):
            k, v = rvalue_of(l) if l is not None else (None, None)
            if k == "call":
                nm = callee_name(v["call"])
                if not (nm.endswith("into_iter") or nm.endswith("Iterator::rev") or nm.endswith("::step_by")) or not v.get("args"):
                    return None
                l = plain_local(v["args"][0])
                continue
            if k == "rv" and "use" in v:
                l = plain_local(v["use"])
                if l is None:
                    return None
                continue
            break
        # 3. the range aggregate
        for _ in range(6):
            if l is None:
                return None
            k, v = rvalue_of(l)
            if k == "rv" and "use" in v:
                l = plain_local(v["use"])
                continue
            if k == "rv" and "agg" in v and str(v["agg"].get("def", "")).split("::")[-1] == "Range":
                ops = v["agg"]["ops"]

                def cval(o, depth=0):
                    if "k" in o and "int" in o["k"]:
                        return int(o["k"]["int"])
                    ll = plain_local(o)
                    if ll is None or depth > 4:
                        return None
                    kk, vv = rvalue_of(ll)
                    if kk == "rv" and "use" in vv:
                        return cval(vv["use"], depth + 1)
                    if kk == "call" and callee_name(vv["call"]).endswith("slice::<impl [T]>::len") and vv.get("args"):
                        # `array.len()`: the slice reference comes from unsizing `&[T; N]`
                        al = plain_local(vv["args"][0])
                        k3, v3 = rvalue_of(al) if al is not None else (None, None)
                        if k3 == "rv" and "cast" in v3:
                            src = plain_local(v3["cast"][1])
                            import re as _re
                            m = _re.search(r"\[[^\[\]]*; (\d+)(?:_usize)?\]$", (fn.locals[src]["ty"] if src is not None else "").strip())
                            if m:
                                return int(m.group(1))
                    return None
                a, b = cval(ops[0]), cval(ops[1])
                if a is None and b is not None:
                    # a start that is not a constant: at least the element type's minimum
                    import re as _re
                    m = _re.search(r"Range<([a-z0-9]+)>", fn.locals[l]["ty"])
                    tr = ty_range(m.group(1)) if m else None
                    if tr is not None and not tr.is_all() and tr.lo() is not None:
                        a = tr.lo()
                return (a, b) if a is not None and b is not None else None
            return None
        return None

    def _havoc_call(self, st, cid, args, cf_for_adt=None):
        summ = self.effects.lookup(cid) if (self.effects is not None and cid) else None
        for j, a in enumerate(args):
            if summ is not None and a[0] == "ref" and a[2]:
                adt_pointee = False
                if cf_for_adt is not None and j + 1 < len(cf_for_adt.locals):
                    tk = cf_for_adt.locals[j + 1]["tk"]
                    adt_pointee = tk.get("k") == "ref" and (tk.get("tok") or {}).get("k") == "adt"
                if (j + 1) in summ["WP"] and not adt_pointee:
                    self.havoc(st, a[1], None)
                else:
                    self.havoc(st, a[1], (summ["W"], summ["W"] - summ["Wel"]))
            else:
                self._havoc_arg(st, a)

    def _enter(self, st, cf, clo, targs, dest, target, callee, sp, post=None):
        """inline closure body `cf` with environment `clo` and explicit arguments `targs`"""
        self.frame_counter += 1
        nf = self.frame_counter
        envty = cf.locals[1]["tk"].get("k") if len(cf.locals) > 1 else None
        if envty == "ref":
            holder = ("local", nf, 100000)
            st.store[holder] = clo
            st.store[("local", nf, 1)] = ("ref", holder, True)
        else:
            st.store[("local", nf, 1)] = clo
        for i, a in enumerate(targs):
            st.store[("local", nf, i + 2)] = a
        st.frames.append((cf, nf, dest, target) if post is None else (cf, nf, dest, target, post))
        st.effects.append(("enter", cf.name, tuple(targs), sp))
        return [(st, cf, nf, 0)]

    def _summary_alts(self, cf):
        if cf.id not in self._sumcache:
            self._sumcache[cf.id] = None      # recursion guard
            sub = Evaluator(self.crate, inline=self.inline, inline_depth=self.inline_depth, ptr=self.ptr,
                            pure_calls=self.pure_calls, max_paths=self.max_paths, extra_crates=self.crates[1:],
                            effects=self.effects, summaries=self.summaries, sumcache=self._sumcache)
            rows = sub.run(cf)
            alts = {}
            for r in rows:
                if r.outcome[0] != "return" or r.ret is None:
                    continue
                a = self._abstract(r.ret)
                alts[repr(a)] = a
            self._sumcache[cf.id] = list(alts.values())
        return self._sumcache[cf.id]

    def _abstract(self, t):
        k = t[0]
        if k == "call" and t[1].endswith(("FnOnce::call_once", "FnMut::call_mut", "Fn::call")) and t[2] and t[2][0][0] == "param":
            targs = t[2][1][1] if (len(t[2]) > 1 and t[2][1][0] == "tuple") else (() if len(t[2]) < 2 or t[2][1][0] == "unit" else (t[2][1],))
            spec = []
            for a in targs:
                if a[0] == "param":
                    spec.append(a[1])
                elif a[0] == "ref" and a[1][0] == "deref" and a[1][1][0] == "param":
                    spec.append(a[1][1][1])
                else:
                    spec.append(0)
            return ("closure_call", t[2][0][1], tuple(spec))
        if k in ("int", "enum", "unit"):
            return t
        if k == "agg":
            return ("agg", t[1], t[2], t[3], tuple(self._abstract(x) for x in t[4]))
        if k == "tuple":
            return ("tuple", tuple(self._abstract(x) for x in t[1]))
        return ("hole",)

    def _instantiate(self, a, callee):
        k = a[0]
        if k == "hole" or k == "closure_call":
            return self.fresh("sum:" + callee.split("::")[-1])
        if k == "agg":
            return ("agg", a[1], a[2], a[3], tuple(self._instantiate(x, callee) for x in a[4]))
        if k == "tuple":
            return ("tuple", tuple(self._instantiate(x, callee) for x in a[1]))
        return a

    def _havoc_arg(self, st, a):
        if a[0] == "ref" and a[2]:
            self.havoc(st, a[1])
        elif a[0] == "closure":
            for o in a[2]:
                self._havoc_arg(st, o)
        elif a[0] in ("agg", "tuple"):
            for o in (a[4] if a[0] == "agg" else a[1]):
                self._havoc_arg(st, o)

    def model_call(self, st, callee, c, args):
        # derived PartialEq on field-less enums
        if callee.endswith("::eq") or callee.endswith("::ne"):
            impl = (callee_id(c) or "").rsplit("::", 1)[0]
            de = self.derived_eq_impls()
            is_derived = bool(impl in de and de[impl] and self.is_fieldless_enum(de[impl]))
            if not is_derived and callee.startswith("core::cmp::PartialEq::"):
                # `ne` default method: resolved generic arg names the type
                ga = c.get("generic_args", [])
                if ga:
                    tyname = ga[0]
                    for cr in self.crates:
                        for p in cr.adts:
                            if (p == tyname or p.endswith("::" + tyname.split("::")[-1])) and self.is_fieldless_enum(p):
                                is_derived = any(im["derived"] and im.get("self_path") == p and im["trait"] and
                                                 im["trait"].endswith("cmp::PartialEq") for im in cr.impls)
            if is_derived and len(args) == 2:
                va, vb = self._deref_val(st, args[0]), self._deref_val(st, args[1])
                op = "Eq" if callee.endswith("::eq") else "Ne"
                return self.mk_bin(st, op, va, vb, "bool")
        if callee.endswith("Option::<T>::unwrap_or") and len(args) == 2:
            o = args[0]
            if o[0] == "agg" and o[2] == "Some":
                return o[4][0]
            if o[0] == "agg" and o[2] == "None":
                return args[1]
        tail = callee
        if _sfx(tail, "core::cmp::min") or tail.endswith("cmp::Ord::min") or tail == "core::cmp::min":
            return self._minmax(st, "min", args)
        if _sfx(tail, "core::cmp::max") or tail.endswith("cmp::Ord::max") or tail == "core::cmp::max":
            return self._minmax(st, "max", args)
        for name in ("saturating_sub", "saturating_add", "wrapping_add", "wrapping_sub", "wrapping_mul",
                     "is_null", "is_empty", "is_some", "is_none", "is_ok", "is_err", "is_power_of_two"):
            if tail.endswith("::" + name) and (tail.startswith("core::") or tail.startswith("std::")):
                if name == "is_empty":
                    v = self._deref_val(st, args[0]) if args[0][0] == "ref" else args[0]
                    return self.mk_bin(st, "Eq", ("len", v), ("int", 0), "bool")
                if name in ("is_some", "is_none", "is_ok", "is_err"):
                    v = self._deref_val(st, args[0])
                    d = self.mk_discr(st, v)
                    # Option: None = 0, Some = 1; Result: Ok = 0, Err = 1
                    return self.mk_bin(st, "Eq", d, ("int", 1 if name in ("is_some", "is_err") else 0), "bool")
                if all(is_const(a) for a in args) and name.startswith(("saturating", "wrapping")):
                    pass
                if name in ("wrapping_add", "saturating_add") and len(args) == 2:
                    # no wrap / saturation can occur on this path: it is the plain sum
                    import re as _re2
                    m2 = _re2.search(r"<impl (u\d+|usize)>", tail)
                    if m2:
                        hi_ty = ty_range(m2.group(1)).hi()
                        his = []
                        for a_ in args:
                            if is_const(a_):
                                his.append(const_val(a_))
                            else:
                                sa = st.facts.get(a_) if hasattr(st.facts, "get") else None
                                his.append(sa.hi() if (sa is not None and not sa.is_all() and sa.hi() is not None) else None)
                        if None not in his and his[0] != float("inf") and his[1] != float("inf") and his[0] + his[1] <= hi_ty:
                            return self.mk_bin(st, "Add", args[0], args[1], m2.group(1))
                return ("pure", name, tuple(args))
        import re as _re
        m = _re.match(r"core::num::<impl (u\d+|usize)>::(to_le_bytes|to_be_bytes|from_le_bytes|from_be_bytes)$", tail)
        if m:
            # byte (de)composition of unsigned integers, spelled out so that `x.to_le_bytes()[1]` and `(x >> 8) as u8` are one term
            ty = m.group(1)
            nb = (ty_bits(ty, self.ptr) or 64) // 8
            if m.group(2).startswith("to_") and len(args) == 1:
                x = args[0]
                els = [("cast", x, "u8", "int") if k == 0 else ("cast", self.mk_bin(st, "Shr", x, ("int", 8 * k), ty), "u8", "int")
                       for k in range(nb)]
                return ("array", tuple(els if m.group(2) == "to_le_bytes" else reversed(els)))
            if m.group(2).startswith("from_") and len(args) == 1 and args[0][0] == "array" and len(args[0][1]) == nb:
                els = list(args[0][1]) if m.group(2) == "from_le_bytes" else list(reversed(args[0][1]))
                acc = ("cast", els[0], ty, "widen")
                for k in range(1, nb):
                    acc = self.mk_bin(st, "BitOr", acc, self.mk_bin(st, "Shl", ("cast", els[k], ty, "widen"), ("int", 8 * k), ty), ty)
                return acc
        if tail.endswith("::len") and tail.startswith("core::slice"):
            if args[0] in self.arrlen:
                return ("int", self.arrlen[args[0]])
            v = self._deref_val(st, args[0]) if args[0][0] == "ref" else args[0]
            return self._mk_len(v)
        if "convert::" in tail and (tail.endswith("::from") or tail.endswith("::into")) and len(args) == 1:
            ga = c.get("generic_args", [])
            ints = ("u8", "u16", "u32", "u64", "usize", "i8", "i16", "i32", "i64", "isize", "bool")
            if len(ga) >= 2 and all(g in ints for g in ga[:2]):
                dst = ga[0] if tail.endswith("::from") else ga[1]
                if is_const(args[0]):
                    return ("int", const_val(args[0]))
                return ("cast", args[0], dst, "widen")
        for s in self.pure_calls:
            if _sfx(callee, s):
                return ("pure", s, tuple(self._deref_val(st, a) if a[0] == "ref" and not a[2] else a for a in args))
        return None

    @staticmethod
    def _mk_len(v):
        """length of a slice value; folded when the underlying array has a known size"""
        if v and v[0] == "pure" and v[1] == "repeat" and is_const(v[2][1]) and const_val(v[2][1]) >= 0:
            return ("int", const_val(v[2][1]))
        if v and v[0] == "constarr":
            return ("int", len(v[2]))
        return ("len", v)

    def _deref_val(self, st, a):
        if a[0] == "ref":
            if a[1][0] == "promoted":
                return a[1][2]
            return self.read(st, a[1])
        return ("load", ("deref", a), 0)

    def _minmax(self, st, name, args):
        a, b = args[0], args[1]
        if is_const(a) and is_const(b):
            return ("int", min(const_val(a), const_val(b)) if name == "min" else max(const_val(a), const_val(b)))
        d = st.facts.decide_cmp("Le", a, b)
        if d is not None:
            if name == "min":
                return a if d else b
            return b if d else a
        if repr(a) > repr(b):
            a, b = b, a
        return ("pure", name, (a, b))


# ---------------------------------------------------------------------- matching helpers for rules
def final_epoch(row, pt):
    """epoch a load of place `pt` would carry at the end of the row's path (number of the last havoc that affects it)"""
    hav = getattr(row, "hav", None) or []
    for i in range(len(hav) - 1, -1, -1):
        ev_pt, locs = hav[i]
        if affects(pt, ev_pt, locs):
            return i + 1
    return 0


def final_value(row, pt):
    """value of place `pt` at the end of the row's path: what the store holds, else the load with the final epoch"""
    v = row.store.get(pt)
    return v if v is not None else ("load", pt, final_epoch(row, pt))


def term_contains(t, pred):
    if not isinstance(t, tuple):
        return False
    if t and isinstance(t[0], str) and pred(t):
        return True
    return any(term_contains(x, pred) for x in t if isinstance(x, tuple))


def subterms(t):
    if isinstance(t, tuple):
        if t and isinstance(t[0], str):
            yield t
        for x in t:
            if isinstance(x, tuple):
                yield from subterms(x)


def is_load_of(t, field, of=None):
    """t is a load of a place whose last projection is `.field` (of ADT suffix `of`)."""
    return (isinstance(t, tuple) and t and t[0] == "load" and t[1][0] == "fld" and t[1][2] == field
            and (of is None or t[1][3].endswith(of)))


def place_is_field(pt, field, of=None):
    return pt[0] == "fld" and pt[2] == field and (of is None or pt[3].endswith(of))


def atom_on(row, pred):
    """[(term, set)] for atoms whose term satisfies pred."""
    return [(t, s) for t, s in row.atoms if pred(t)]


def row_value_set(row, t):
    return row.facts.get(t)
