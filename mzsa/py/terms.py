"""Terms (value DAGs), interval sets and the small constraint store shared by the analyses.

Terms are hashable nested tuples:
  ('int', v)                      integer / bool constant (bools are 0/1)
  ('enum', adt, variant, discr)   field-less enum constant
  ('unit',)
  ('param', i)                    i-th argument (1-based local index) of the analysed function
  ('load', placeterm, epoch)      content of a memory place not written on this path
  ('bin', op, a, b) ('un', op, a) ('cast', a, ty) ('discr', a) ('len', a)
  ('ref', placeterm, mut)         reference to a place
  ('agg', adt, variant, fields, ops)   ADT value;  ('tuple', ops);  ('array', ops)
  ('closure', def, ops)
  ('call', callee, args, seq)     result of an (unmodelled) call; seq distinguishes call instances
  ('pure', name, args)            result of a modelled pure helper (min, max, saturating_sub, …)
  ('field', base, name)           projection out of a non-place value
  ('fn', path) ('promoted', id) ('str',) ('unknown', n)
placeterms:
  ('local', frame, l) | ('deref', term) | ('fld', pt, name, of) | ('idx', pt, term) |
  ('cidx', pt, off, from_end) | ('sub', pt, a, b, from_end) | ('dc', pt, variant) | ('static', path)
"""

INF = float("inf")


class ISet:
    """Union of closed integer intervals (sorted, disjoint)."""
    __slots__ = ("iv",)

    def __init__(self, iv=()):
        self.iv = tuple(iv)

    @staticmethod
    def all():
        return ISet([(-INF, INF)])

    @staticmethod
    def of(*vals):
        return ISet._norm([(v, v) for v in vals])

    @staticmethod
    def range(lo, hi):
        if lo > hi:
            return ISet()
        return ISet([(lo, hi)])

    @staticmethod
    def _norm(iv):
        iv = sorted(iv)
        out = []
        for lo, hi in iv:
            if lo > hi:
                continue
            if out and lo <= out[-1][1] + 1:
                out[-1] = (out[-1][0], max(out[-1][1], hi))
            else:
                out.append((lo, hi))
        return ISet(out)

    def empty(self):
        return not self.iv

    def is_all(self):
        return self.iv == ((-INF, INF),)

    def inter(self, o):
        out = []
        for a, b in self.iv:
            for c, d in o.iv:
                lo, hi = max(a, c), min(b, d)
                if lo <= hi:
                    out.append((lo, hi))
        return ISet._norm(out)

    def union(self, o):
        return ISet._norm(list(self.iv) + list(o.iv))

    def compl(self):
        out = []
        cur = -INF
        for lo, hi in self.iv:
            if lo > cur:
                out.append((cur, lo - 1))
            cur = hi + 1
        if cur <= INF and (not self.iv or self.iv[-1][1] != INF):
            out.append((cur, INF))
        return ISet._norm([(a, b) for a, b in out if a <= b])

    def single(self):
        if len(self.iv) == 1 and self.iv[0][0] == self.iv[0][1]:
            return self.iv[0][0]
        return None

    def lo(self):
        return self.iv[0][0] if self.iv else None

    def hi(self):
        return self.iv[-1][1] if self.iv else None

    def contains(self, v):
        return any(a <= v <= b for a, b in self.iv)

    def subset_of(self, o):
        return self.inter(o).iv == self.iv

    def size(self):
        n = 0
        for a, b in self.iv:
            if a == -INF or b == INF:
                return INF
            n += b - a + 1
        return n

    def values(self, cap=1 << 20):
        out = []
        for a, b in self.iv:
            if a == -INF or b == INF or (b - a) > cap:
                raise ValueError("unbounded set")
            out.extend(range(int(a), int(b) + 1))
        return out

    def __eq__(self, o):
        return isinstance(o, ISet) and self.iv == o.iv

    def __hash__(self):
        return hash(self.iv)

    def __repr__(self):
        if self.is_all():
            return "⊤"
        def f(x):
            return "-inf" if x == -INF else "inf" if x == INF else str(int(x))
        return "{" + ",".join(f(a) if a == b else "%s..%s" % (f(a), f(b)) for a, b in self.iv) + "}"


def ty_range(ty):
    """Value range of an integer / bool type name."""
    if ty == "bool":
        return ISet.range(0, 1)
    if ty and ty[0] in "ui" and ty[1:].isdigit():
        b = int(ty[1:])
        return ISet.range(0, (1 << b) - 1) if ty[0] == "u" else ISet.range(-(1 << (b - 1)), (1 << (b - 1)) - 1)
    if ty == "usize":
        return ISet.range(0, (1 << 64) - 1)
    if ty == "isize":
        return ISet.range(-(1 << 63), (1 << 63) - 1)
    return ISet.all()


def ty_bits(ty, ptr=64):
    if ty == "bool":
        return 1
    if ty in ("usize", "isize"):
        return ptr
    if ty and ty[0] in "ui" and ty[1:].isdigit():
        return int(ty[1:])
    return None


def wrap(v, ty, ptr=64):
    b = ty_bits(ty, ptr)
    if b is None or ty == "bool":
        return v
    v &= (1 << b) - 1
    if ty[0] == "i" and v >= (1 << (b - 1)):
        v -= 1 << b
    return v


def is_const(t):
    return t[0] in ("int", "enum")


def const_val(t):
    if t[0] == "int":
        return t[1]
    if t[0] == "enum":
        return t[3]
    return None


CMP_NEG = {"Lt": "Ge", "Ge": "Lt", "Le": "Gt", "Gt": "Le", "Eq": "Ne", "Ne": "Eq"}
CMP_SWAP = {"Lt": "Gt", "Gt": "Lt", "Le": "Ge", "Ge": "Le", "Eq": "Eq", "Ne": "Ne"}


def fold_bin(op, a, b, ty=None, ptr=64):
    """Constant folding of integer binary operations (wrapping to `ty` when given)."""
    try:
        if op in ("Add", "AddO"):
            r = a + b
        elif op in ("Sub", "SubO"):
            r = a - b
        elif op in ("Mul", "MulO"):
            r = a * b
        elif op == "Div":
            if b == 0:
                return None
            r = abs(a) // abs(b) * (1 if (a >= 0) == (b >= 0) else -1)
        elif op == "Rem":
            if b == 0:
                return None
            r = abs(a) % abs(b) * (1 if a >= 0 else -1)
        elif op == "BitAnd":
            r = a & b
        elif op == "BitOr":
            r = a | b
        elif op == "BitXor":
            r = a ^ b
        elif op == "Shl":
            bits = ty_bits(ty, ptr) or 64
            r = a << (b % bits)
        elif op == "Shr":
            bits = ty_bits(ty, ptr) or 64
            r = a >> (b % bits)
        elif op == "Eq":
            return int(a == b)
        elif op == "Ne":
            return int(a != b)
        elif op == "Lt":
            return int(a < b)
        elif op == "Le":
            return int(a <= b)
        elif op == "Gt":
            return int(a > b)
        elif op == "Ge":
            return int(a >= b)
        else:
            return None
    except Exception:
        return None
    if ty:
        r = wrap(r, ty, ptr)
    return r


def key_of(t):
    """Constraint key: strips value-preserving wrappers so `discr(x) as i32` and `x` share facts."""
    while True:
        if t[0] == "discr":
            t = t[1]
        elif t[0] == "cast" and t[3] == "widen":
            t = t[1]
        else:
            return t


def _strip_widen(t):
    while isinstance(t, tuple) and t and t[0] == "cast" and t[3] in ("widen", "int"):
        t = t[1]
    return t


class Facts:
    """Conjunction of unary constraints  term ∈ ISet  plus simple relational facts between terms."""

    def __init__(self, other=None):
        if other is None:
            self.c = {}
            self.rel = set()      # ('Lt'|'Le'|'Eq'|'Ne', a, b) canonical
        else:
            self.c = dict(other.c)
            self.rel = set(other.rel)

    def copy(self):
        return Facts(self)

    def get(self, t):
        if is_const(t):
            return ISet.of(const_val(t))
        k = key_of(t)
        r = self.c.get(k, ISet.all())
        s = self.structural(k)
        if s is not None:
            r = r.inter(s)
        b = self._bit_lower(k)
        if b:
            r = r.inter(ISet.range(b, INF))
        return r

    def _bit_lower(self, t):
        """(X & m2) >= bit  when some recorded fact says (X & bit) != 0 for a single bit contained in m2"""
        if not (isinstance(t, tuple) and t and t[0] == "bin" and t[1] == "BitAnd" and is_const(t[3]) and const_val(t[3]) > 0):
            return 0
        x = _strip_widen(t[2])
        m2 = const_val(t[3])
        best = 0
        for k2, s2 in self.c.items():
            if k2[0] == "bin" and k2[1] == "BitAnd" and is_const(k2[3]) and not s2.contains(0):
                m1 = const_val(k2[3])
                if m1 > 0 and (m1 & (m1 - 1)) == 0 and (m1 & m2) == m1 and _strip_widen(k2[2]) == x:
                    best = max(best, m1)
        return best

    def structural(self, t, depth=0):
        """value range implied by the shape of the term alone (masks, casts, table contents, lengths)"""
        if depth > 6 or not isinstance(t, tuple) or not t:
            return None
        k = t[0]
        if is_const(t):
            return ISet.of(const_val(t))
        if k == "bin":
            op, a, b, ty = t[1], t[2], t[3], t[4] if len(t) > 4 else None
            if ty == "bool" or op in CMP_NEG:
                return ISet.range(0, 1)
            tr = ty_range(ty) if ty else ISet.all()
            if op == "BitAnd":
                for x, y in ((a, b), (b, a)):
                    if is_const(x) and const_val(x) >= 0:
                        m = const_val(x)
                        ry = self._r(y, depth)
                        if ry is not None and not ry.empty() and ry.lo() >= 0 and ry.hi() <= m and (m & (m + 1)) == 0:
                            return ry
                        return ISet.range(0, m).inter(tr)
                ra, rb = self._r(a, depth), self._r(b, depth)
                his = [r.hi() for r in (ra, rb) if r is not None and r.lo() is not None and r.lo() >= 0 and r.hi() != INF]
                if his:
                    return ISet.range(0, min(his)).inter(tr)
            if op == "Rem" and is_const(b) and const_val(b) > 0:
                ra = self._r(a, depth)
                if ra is not None and ra.lo() is not None and ra.lo() >= 0:
                    return ISet.range(0, const_val(b) - 1)
            if op == "Shr" and is_const(b):
                ra = self._r(a, depth)
                if ra is not None and ra.lo() is not None and ra.lo() >= 0 and ra.hi() != INF:
                    return ISet.range(int(ra.lo()) >> const_val(b), int(ra.hi()) >> const_val(b))
            if op in ("Add", "Sub", "Mul", "Shl", "BitOr"):
                ra, rb = self._r(a, depth), self._r(b, depth)
                if ra is not None and rb is not None and not ra.empty() and not rb.empty() and \
                        ra.lo() != -INF and ra.hi() != INF and rb.lo() != -INF and rb.hi() != INF:
                    if op == "Add":
                        lo, hi = ra.lo() + rb.lo(), ra.hi() + rb.hi()
                    elif op == "Sub":
                        lo, hi = ra.lo() - rb.hi(), ra.hi() - rb.lo()
                    elif op == "Mul" and ra.lo() >= 0 and rb.lo() >= 0:
                        lo, hi = ra.lo() * rb.lo(), ra.hi() * rb.hi()
                    elif op == "Shl" and ra.lo() >= 0 and rb.lo() >= 0 and rb.hi() < 64:
                        lo, hi = int(ra.lo()) << int(rb.lo()), int(ra.hi()) << int(rb.hi())
                    elif op == "BitOr" and ra.lo() >= 0 and rb.lo() >= 0:
                        lo, hi = max(ra.lo(), rb.lo()), (1 << max(int(ra.hi()).bit_length(), int(rb.hi()).bit_length())) - 1
                    else:
                        return tr if not tr.is_all() else None
                    res = ISet.range(lo, hi)
                    if res.subset_of(tr):
                        return res
                    return tr if not tr.is_all() else None
            return tr if not tr.is_all() else None
        if k == "cast":
            tr = ty_range(t[2])
            if t[3] in ("widen", "int"):
                ra = self._r(t[1], depth)
                if ra is not None and ra.subset_of(tr):
                    return ra
            return tr if not tr.is_all() else None
        if k == "len":
            return ISet.range(0, (1 << 63) - 1)
        if k == "un" and t[1] == "Not" and len(t) > 3 and t[3] == "bool":
            return ISet.range(0, 1)
        if k == "pure":
            if t[1] == "index" and t[2][0][0] == "constarr":
                vals = t[2][0][2]
                ri = self._r(t[2][1], depth)
                if ri is not None and ri.lo() is not None and ri.lo() >= 0 and ri.hi() != INF and ri.hi() < len(vals):
                    vals = vals[int(ri.lo()):int(ri.hi()) + 1]
                return ISet.range(min(vals), max(vals)) if vals else None
            if t[1] in ("min", "max") and len(t[2]) == 2:
                ra, rb = self._r(t[2][0], depth), self._r(t[2][1], depth)
                if t[1] == "min":
                    his = [r.hi() for r in (ra, rb) if r is not None and not r.empty()]
                    los = [r.lo() for r in (ra, rb) if r is not None and not r.empty()]
                    hi = min(his) if his else INF
                    lo = min(los) if len(los) == 2 else -INF
                    return ISet.range(lo, hi)
                los = [r.lo() for r in (ra, rb) if r is not None and not r.empty()]
                his = [r.hi() for r in (ra, rb) if r is not None and not r.empty()]
                return ISet.range(max(los) if los else -INF, max(his) if len(his) == 2 else INF)
        return None

    def _r(self, t, depth):
        if is_const(t):
            return ISet.of(const_val(t))
        k = key_of(t)
        r = self.c.get(k)
        s = self.structural(k, depth + 1)
        b = self._bit_lower(k)
        if r is None:
            r = s
        elif s is not None:
            r = r.inter(s)
        if b:
            r = ISet.range(b, INF) if r is None else r.inter(ISet.range(b, INF))
        return r

    def constrain(self, t, s):
        """term ∈ s; returns False when contradictory."""
        if is_const(t):
            return s.contains(const_val(t))
        k = key_of(t)
        cur = self.c.get(k, ISet.all())
        new = cur.inter(s)
        if new.empty():
            return False
        self.c[k] = new
        return self._derive(k, new)

    def _derive(self, t, s):
        """Propagate a constraint on a boolean/comparison term to its operands."""
        v = s.single()
        if t[0] == "bin" and v is not None and t[1] in CMP_NEG:
            op = t[1] if v == 1 else CMP_NEG[t[1]]
            if v not in (0, 1):
                return True
            return self.assume_cmp(op, t[2], t[3])
        if t[0] == "un" and t[1] == "Not" and v in (0, 1) and t[3] == "bool":
            return self.constrain(t[2], ISet.of(1 - v))
        if t[0] == "bin" and t[1] == "BitOr" and t[4] == "bool" and v == 0:
            return self.constrain(t[2], ISet.of(0)) and self.constrain(t[3], ISet.of(0))
        if t[0] == "bin" and t[1] == "BitAnd" and t[4] == "bool" and v == 1:
            return self.constrain(t[2], ISet.of(1)) and self.constrain(t[3], ISet.of(1))
        return True

    @staticmethod
    def _canon(op, a, b):
        """integer canonicalisation: (x + 1) <= y  ≡  x < y ;  y < (x + 1)  ≡  y <= x ; Ge/Gt swapped to Le/Lt"""
        if op in ("Gt", "Ge"):
            op, a, b = CMP_SWAP[op], b, a
        def plus1(t):
            if t[0] == "bin" and t[1] == "Add" and is_const(t[3]) and const_val(t[3]) == 1:
                return t[2]
            return None
        if op == "Le" and plus1(a) is not None:
            return "Lt", plus1(a), b
        if op == "Lt" and plus1(b) is not None:
            return "Le", a, plus1(b)
        return op, a, b

    def assume_cmp(self, op, a, b):
        if not is_const(a) and not is_const(b):
            op, a, b = self._canon(op, a, b)
        ca, cb = const_val(a) if is_const(a) else None, const_val(b) if is_const(b) else None
        if ca is not None and cb is not None:
            return bool(fold_bin(op, ca, cb))
        if ca is not None:
            return self.assume_cmp(CMP_SWAP[op], b, a)
        if cb is not None:
            s = {"Lt": ISet.range(-INF, cb - 1), "Le": ISet.range(-INF, cb), "Gt": ISet.range(cb + 1, INF),
                 "Ge": ISet.range(cb, INF), "Eq": ISet.of(cb), "Ne": ISet.of(cb).compl()}[op]
            return self.constrain(a, s)
        # relational
        ka, kb = key_of(a), key_of(b)
        if op in ("Gt", "Ge"):
            op, ka, kb = CMP_SWAP[op], kb, ka
        if op in ("Eq", "Ne") and repr(ka) > repr(kb):
            ka, kb = kb, ka
        neg = {"Lt": ("Le", kb, ka), "Le": ("Lt", kb, ka), "Eq": ("Ne", ka, kb), "Ne": ("Eq", ka, kb)}[op]
        if neg in self.rel:
            return False
        if op == "Lt" and ("Eq", *sorted((ka, kb), key=repr)) in self.rel:
            return False
        if op == "Eq" and (("Lt", ka, kb) in self.rel or ("Lt", kb, ka) in self.rel):
            return False
        self.rel.add((op, ka, kb))
        if op == "Eq":
            sa, sb = self.c.get(ka, ISet.all()), self.c.get(kb, ISet.all())
            m = sa.inter(sb)
            if m.empty():
                return False
            if not m.is_all():
                self.c[ka] = m
                self.c[kb] = m
        return True

    def decide_cmp(self, op, a, b):
        """1/0 when the comparison is decided by the facts, else None."""
        if not is_const(a) and not is_const(b):
            op, a, b = self._canon(op, a, b)
        sa, sb = self.get(a), self.get(b)
        if sa.empty() or sb.empty():
            return None
        alo, ahi, blo, bhi = sa.lo(), sa.hi(), sb.lo(), sb.hi()
        if op == "Lt":
            if ahi < blo:
                return 1
            if alo >= bhi:
                return 0
        elif op == "Le":
            if ahi <= blo:
                return 1
            if alo > bhi:
                return 0
        elif op == "Gt":
            if alo > bhi:
                return 1
            if ahi <= blo:
                return 0
        elif op == "Ge":
            if alo >= bhi:
                return 1
            if ahi < blo:
                return 0
        elif op in ("Eq", "Ne"):
            r = None
            if sa.inter(sb).empty():
                r = 0
            elif sa.single() is not None and sa.single() == sb.single():
                r = 1
            elif key_of(a) == key_of(b):
                r = 1
            if r is not None:
                return r if op == "Eq" else 1 - r
        # relational facts
        ka, kb = key_of(a), key_of(b)
        if ka == kb:
            return {"Lt": 0, "Le": 1, "Gt": 0, "Ge": 1}.get(op)
        o2, x, y = op, ka, kb
        if o2 in ("Gt", "Ge"):
            o2, x, y = CMP_SWAP[o2], y, x
        if o2 in ("Eq", "Ne"):
            if repr(x) > repr(y):
                x, y = y, x
            if ("Eq", x, y) in self.rel:
                return 1 if o2 == "Eq" else 0
            if ("Ne", x, y) in self.rel or ("Lt", x, y) in self.rel or ("Lt", y, x) in self.rel:
                return 0 if o2 == "Eq" else 1
            return None
        if (o2, x, y) in self.rel:
            return 1
        if o2 == "Le" and ("Lt", x, y) in self.rel:
            return 1
        neg = ("Le", y, x) if o2 == "Lt" else ("Lt", y, x)
        if neg in self.rel:
            return 0
        if o2 == "Lt" and ("Lt", y, x) in self.rel:
            return 0
        return None


def tstr(t, depth=0):
    """Readable rendering of a term."""
    if not isinstance(t, tuple) or not t:
        return repr(t)
    k = t[0]
    if depth > 12:
        return "…"
    d = depth + 1
    if k == "int":
        return str(t[1])
    if k == "enum":
        return "%s::%s" % (t[1].split("::")[-1], t[2])
    if k == "unit":
        return "()"
    if k == "param":
        return "arg%d" % t[1]
    if k == "load":
        return "%s%s" % (pstr(t[1], d), "@%d" % t[2] if t[2] else "")
    if k == "bin":
        return "(%s %s %s)" % (tstr(t[2], d), t[1], tstr(t[3], d))
    if k == "un":
        return "%s(%s)" % (t[1], tstr(t[2], d))
    if k == "cast":
        return "(%s as %s)" % (tstr(t[1], d), t[2])
    if k == "discr":
        return "discr(%s)" % tstr(t[1], d)
    if k == "len":
        return "len(%s)" % tstr(t[1], d)
    if k == "ref":
        return "&%s%s" % ("mut " if t[2] else "", pstr(t[1], d))
    if k == "agg":
        return "%s::%s{%s}" % (t[1].split("::")[-1], t[2], ", ".join(tstr(x, d) for x in t[4]))
    if k in ("tuple", "array"):
        return "(%s)" % ", ".join(tstr(x, d) for x in t[1])
    if k == "closure":
        return "closure<%s>" % t[1].split("::", 1)[-1]
    if k == "call":
        if depth > 0:
            return "%s#%s" % (t[1].split("::")[-1], t[3])
        return "%s#%s(%s)" % (t[1].split("::", 1)[-1], t[3], ", ".join(tstr(x, d) for x in t[2]))
    if k == "pure":
        return "%s(%s)" % (t[1], ", ".join(tstr(x, d) for x in t[2]))
    if k == "field":
        return "%s.%s" % (tstr(t[1], d), t[2])
    if k == "fn":
        return "fn:" + t[1]
    return "%s" % (t,)


def pstr(p, depth=0):
    if not isinstance(p, tuple) or not p:
        return repr(p)
    k = p[0]
    d = depth + 1
    if depth > 12:
        return "…"
    if k == "local":
        return "%s_%d" % ("f%d:" % p[1] if p[1] else "", p[2])
    if k == "deref":
        return "*%s" % tstr(p[1], d)
    if k == "fld":
        return "%s.%s" % (pstr(p[1], d), p[2])
    if k == "idx":
        return "%s[%s]" % (pstr(p[1], d), tstr(p[2], d))
    if k == "cidx":
        return "%s[%s%d]" % (pstr(p[1], d), "-" if p[3] else "", p[2])
    if k == "sub":
        return "%s[%d..%d]" % (pstr(p[1], d), p[2], p[3])
    if k == "dc":
        return "(%s as %s)" % (pstr(p[1], d), p[2])
    if k == "static":
        return p[1]
    return repr(p)
