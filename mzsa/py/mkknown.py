#!/usr/bin/env python3
"""Regenerate mzsa/tables/known_fns.json: the names of every function with a MIR body on the reference tree.

The path evaluator treats a crate-local callee that is NOT in this table — a helper introduced after the rules were
written — as transparent (it is inlined when it has no loop), so that extracting a few statements into a new function
does not change what a rule sees.  The table only chooses the view; no verdict is derived from it.
Run on the unchanged reference tree only:  python3 mzsa/py/mkknown.py
"""
import json
import os
import sys

sys.path.insert(0, os.path.dirname(os.path.abspath(__file__)))
import facts
import mir

names = set()
for cfg, crates in (("H1", [None]), ("H6", [None]), ("H7", [None]), ("H1d", [None]), ("T1", [None]), ("CAPI", [None, "miniz_oxide"])):
    for cr in crates:
        c = mir.Crate(facts.load(cfg, cr))
        for f in c.fns.values():
            names.add(f.name)
out = os.path.join(facts.VERIF, "mzsa", "tables", "known_fns.json")
json.dump(sorted(names), open(out, "w"), indent=0)
print(len(names), "function names ->", out)
