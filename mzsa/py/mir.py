"""MIR model over the JSON facts: functions, places, CFG kit (dominators, post-dominators,
control dependence, regions, loops)."""
import sys
from collections import defaultdict


class Place:
    __slots__ = ("local", "proj")

    def __init__(self, j):
        self.local = j["l"]
        self.proj = tuple(_proj(p) for p in j["p"])

    def is_local(self):
        return not self.proj

    def key(self):
        return (self.local, self.proj)

    def __repr__(self):
        return "P(%s)" % place_str(None, self)


def _proj(p):
    if isinstance(p, str):
        return (p,)
    if "f" in p:
        return ("f", p["f"], p.get("n", ""), p.get("of", ""))
    if "i" in p:
        return ("i", p["i"])
    if "ci" in p:
        return ("ci", p["ci"], p["end"])
    if "sub" in p:
        return ("sub",) + tuple(p["sub"])
    if "dc" in p:
        return ("dc", p["dc"], p.get("n", ""))
    return ("?",)


def place_str(fn, pl):
    base = "_%d" % pl.local
    if fn is not None:
        n = fn.locals[pl.local].get("name")
        if n:
            base = "%s/_%d" % (n, pl.local)
    s = base
    for p in pl.proj:
        if p[0] == "deref":
            s = "(*%s)" % s
        elif p[0] == "f":
            s = "%s.%s" % (s, p[2] or p[1])
        elif p[0] == "i":
            s = "%s[_%d]" % (s, p[1])
        elif p[0] == "ci":
            s = "%s[%s%d]" % (s, "-" if p[2] else "", p[1])
        elif p[0] == "sub":
            s = "%s[%d..%s%d]" % (s, p[1], "-" if p[3] else "", p[2])
        elif p[0] == "dc":
            s = "(%s as %s)" % (s, p[2] or p[1])
        else:
            s = "%s.?" % s
    return s


def operand_str(fn, o):
    if "c" in o:
        return place_str(fn, Place(o["c"]))
    if "m" in o:
        return "move " + place_str(fn, Place(o["m"]))
    if "k" in o:
        k = o["k"]
        if "fn" in k:
            return "fn:" + k["fn"]
        if "int" in k:
            nm = k.get("item") or k.get("variant")
            return "const %s%s:%s" % (k["int"], ("(%s)" % nm.split("::")[-1]) if nm else "", k["ty"])
        if "promoted" in k:
            return "promoted:" + k["promoted"].split("::")[-1]
        if "item" in k:
            return "const-item:" + k["item"]
        return "const<%s>" % k.get("ty")
    return "?%r" % (o,)


def rvalue_str(fn, rv):
    if "use" in rv:
        return operand_str(fn, rv["use"])
    if "ref" in rv:
        return "&%s%s" % ("mut " if rv["mut"] else "", place_str(fn, Place(rv["ref"])))
    if "ptr" in rv:
        return "&raw %s%s" % ("mut " if rv["mut"] else "const ", place_str(fn, Place(rv["ptr"])))
    if "bin" in rv:
        return "%s(%s, %s)" % (rv["bin"][0], operand_str(fn, rv["bin"][1]), operand_str(fn, rv["bin"][2]))
    if "un" in rv:
        return "%s(%s)" % (rv["un"][0], operand_str(fn, rv["un"][1]))
    if "cast" in rv:
        return "%s as %s [%s]" % (operand_str(fn, rv["cast"][1]), rv["cast"][2], rv["cast"][0])
    if "agg" in rv:
        a = rv["agg"]
        ops = ", ".join(operand_str(fn, o) for o in a["ops"])
        if a["kind"] == "adt":
            return "%s::%s{%s}" % (a["def"].split("::")[-1], a["variant"], ops)
        if a["kind"] == "closure":
            return "closure %s{%s}" % (a["def"].split("::", 1)[-1], ops)
        return "%s(%s)" % (a["kind"], ops)
    if "discr" in rv:
        return "discriminant(%s)" % place_str(fn, Place(rv["discr"]))
    if "repeat" in rv:
        return "[%s; %s]" % (operand_str(fn, rv["repeat"][0]), rv["repeat"][1])
    return "other:%s" % rv.get("other")


import re as _re


def norm_name(n):
    """def_path_str with lifetime-only generic segments removed (`OutputBuffer::<'a>::x` -> `OutputBuffer::x`)."""
    if not n:
        return n
    n = _re.sub(r"::<'[A-Za-z_0-9]+(, '[A-Za-z_0-9]+)*>", "", n)
    n = _re.sub(r"<'[A-Za-z_0-9]+>", "", n)
    return n


def callee_name(c):
    if "def" not in c:
        return "<indirect>"
    return norm_name(c.get("rname") or c.get("name") or c.get("resolved") or c["def"])


def callee_id(c):
    if "def" not in c:
        return None
    return c.get("resolved") or c["def"]


class Fn:
    def __init__(self, j, doc=None):
        self.j = j
        self.id = j["id"]
        self.name = norm_name(j.get("name") or j["id"])
        self.kind = j["kind"]
        self.parent = j.get("parent")
        self.argc = j.get("argc", 0)
        self.locals = j["locals"]
        self.blocks = j["blocks"]
        self.span = j.get("span", "")
        self.doc = doc
        self._succ = None
        self._pred = None
        self._dom = None
        self._pdom = None
        self._defs = None

    # ---------------------------------------------------------------- basics
    @property
    def short(self):
        return self.id.split("::", 1)[-1]

    def local_name(self, l):
        return self.locals[l].get("name")

    def local_ty(self, l):
        return self.locals[l]["ty"]

    def nblocks(self):
        return len(self.blocks)

    def term(self, bb):
        return self.blocks[bb]["t"]

    def stmts(self, bb):
        return self.blocks[bb]["s"]

    def succs(self, bb):
        if self._succ is None:
            self._build_cfg()
        return self._succ[bb]

    def preds(self, bb):
        if self._pred is None:
            self._build_cfg()
        return self._pred[bb]

    def _term_succs(self, t):
        if "goto" in t:
            return [t["goto"]]
        if "switch" in t:
            s = [bb for _, bb in t["targets"]]
            s.append(t["otherwise"])
            out = []
            for x in s:
                if x not in out:
                    out.append(x)
            return out
        if "call" in t:
            return [t["target"]] if t["target"] is not None else []
        if "assert" in t:
            return [t["target"]]
        if "drop" in t:
            return [t["target"]]
        return []

    def _build_cfg(self):
        n = len(self.blocks)
        self._succ = [self._term_succs(b["t"]) for b in self.blocks]
        self._pred = [[] for _ in range(n)]
        for b, ss in enumerate(self._succ):
            for s in ss:
                self._pred[s].append(b)

    def reachable(self, start=0, stop=()):
        stop = set(stop)
        seen = set()
        st = [start]
        while st:
            b = st.pop()
            if b in seen or b in stop:
                continue
            seen.add(b)
            st.extend(self.succs(b))
        return seen

    def reachable_from_set(self, starts, stop=()):
        stop = set(stop)
        seen = set()
        st = list(starts)
        while st:
            b = st.pop()
            if b in seen or b in stop:
                continue
            seen.add(b)
            st.extend(self.succs(b))
        return seen

    def return_blocks(self):
        return [b for b in range(len(self.blocks)) if "return" in self.blocks[b]["t"]]

    def exit_blocks(self):
        return [b for b in range(len(self.blocks)) if not self.succs(b)]

    # ---------------------------------------------------------------- dominators
    def dominators(self):
        """dom[b] = set of blocks dominating b (over blocks reachable from 0)."""
        if self._dom is None:
            self._dom = _dominators(len(self.blocks), 0, self.succs, self.preds)
        return self._dom

    def dominates(self, a, b):
        d = self.dominators()
        return b in d and a in d[b]

    def postdominators(self):
        """Post-dominators w.r.t. a virtual exit joined to all Return blocks (diverging exits
        — panics — are ignored, i.e. "on every path that returns")."""
        if self._pdom is None:
            n = len(self.blocks)
            rets = self.return_blocks()
            EXIT = n

            def rsuccs(b):
                if b == EXIT:
                    return rets
                return self.preds(b)

            def rpreds(b):
                if b == EXIT:
                    return []
                ss = list(self.succs(b))
                if b in rets:
                    ss.append(EXIT)
                return ss

            self._pdom = _dominators(n + 1, EXIT, rsuccs, rpreds)
        return self._pdom

    def postdominates(self, a, b):
        p = self.postdominators()
        return b in p and a in p[b]

    # ---------------------------------------------------------------- definitions
    def defs(self):
        """local -> list of (bb, idx|'t') where the *whole* local is assigned."""
        if self._defs is None:
            d = defaultdict(list)
            for bb, blk in enumerate(self.blocks):
                for i, s in enumerate(blk["s"]):
                    if "a" in s:
                        pl = s["a"][0]
                        if not pl["p"]:
                            d[pl["l"]].append((bb, i))
                t = blk["t"]
                if "call" in t and not t["dest"]["p"]:
                    d[t["dest"]["l"]].append((bb, "t"))
            self._defs = d
        return self._defs

    def calls(self):
        for bb, blk in enumerate(self.blocks):
            t = blk["t"]
            if "call" in t:
                yield bb, t

    def callee_of(self, t):
        return callee_name(t["call"])

    # ---------------------------------------------------------------- printing
    def dump(self, out=sys.stdout):
        out.write("fn %s  (%s, %d args)  %s\n" % (self.id, self.kind, self.argc, self.span))
        for i, l in enumerate(self.locals):
            out.write("  let _%d: %s%s%s\n" % (i, l["ty"], "  // " + l["name"] if l.get("name") else "",
                                               " (arg)" if l.get("arg") else ""))
        for bb, blk in enumerate(self.blocks):
            out.write(" bb%d:%s\n" % (bb, " (cleanup)" if blk.get("cleanup") else ""))
            for s in blk["s"]:
                if "a" in s:
                    out.write("    %s = %s    // %s\n" % (place_str(self, Place(s["a"][0])),
                                                         rvalue_str(self, s["a"][1]), _short_sp(s.get("sp"))))
                else:
                    out.write("    %r\n" % (s,))
            t = blk["t"]
            out.write("    -> %s\n" % term_str(self, t))


def _short_sp(sp):
    if not sp:
        return ""
    return sp.split(": ")[0]


def term_str(fn, t):
    if "goto" in t:
        return "goto bb%d" % t["goto"]
    if "switch" in t:
        return "switch %s [%s, otherwise: bb%d]  // %s" % (
            operand_str(fn, t["switch"]), ", ".join("%s: bb%d" % (v, b) for v, b in t["targets"]), t["otherwise"],
            _short_sp(t.get("sp")))
    if "return" in t:
        return "return"
    if "unreachable" in t:
        return "unreachable"
    if "drop" in t:
        return "drop(%s) -> bb%d" % (place_str(fn, Place(t["drop"])), t["target"])
    if "call" in t:
        c = t["call"]
        name = callee_name(c) if "def" in c else ("indirect " + operand_str(fn, c["indirect"]))
        if c.get("closures"):
            name += " <closures: %s>" % ", ".join(x.split("::", 1)[-1] for x in c["closures"])
        return "%s = call %s(%s) -> %s  // %s" % (
            place_str(fn, Place(t["dest"])), name, ", ".join(operand_str(fn, a) for a in t["args"]),
            "bb%d" % t["target"] if t["target"] is not None else "!", _short_sp(t.get("sp")))
    if "assert" in t:
        extra = ""
        if "index" in t:
            extra = " idx=%s len=%s" % (operand_str(fn, t["index"]), operand_str(fn, t["len"]))
        return "assert(%s == %s, %s%s) -> bb%d  // %s" % (operand_str(fn, t["assert"]), t["expected"], t["kind"],
                                                        extra, t["target"], _short_sp(t.get("sp")))
    return repr(t)[:200]


def _dominators(n, entry, succs, preds):
    # iterative set-based algorithm over nodes reachable from entry
    order = []
    seen = set()
    st = [(entry, iter(succs(entry)))]
    seen.add(entry)
    while st:
        b, it = st[-1]
        adv = False
        for s in it:
            if s not in seen:
                seen.add(s)
                st.append((s, iter(succs(s))))
                adv = True
                break
        if not adv:
            order.append(b)
            st.pop()
    rpo = order[::-1]
    dom = {b: None for b in rpo}
    dom[entry] = {entry}
    changed = True
    while changed:
        changed = False
        for b in rpo:
            if b == entry:
                continue
            ps = [dom[p] for p in preds(b) if p in dom and dom[p] is not None]
            if not ps:
                continue
            new = set.intersection(*ps) if len(ps) > 1 else set(ps[0])
            new.add(b)
            if new != dom[b]:
                dom[b] = new
                changed = True
    return {b: (d if d is not None else {b}) for b, d in dom.items()}


class Crate:
    """Indexed view of one fact document."""

    def __init__(self, doc):
        self.doc = doc
        self.meta = doc["meta"]
        self.name = doc["meta"]["crate"]
        self.fns = {}
        for j in doc["fns"]:
            self.fns[j["id"]] = Fn(j, self)
        self.consts = {c["path"]: c for c in doc["consts"]}
        self.adts = {a["path"]: a for a in doc["adts"]}
        self.impls = doc["impls"]
        self._children = None

    def fn(self, suffix, required=True):
        """Look a function up by full id or by `::`-separated suffix (unique)."""
        if suffix in self.fns:
            return self.fns[suffix]
        cands = [f for k, f in self.fns.items() if f.kind != "promoted" and
                 (f.name == suffix or f.name.endswith("::" + suffix))]
        if not cands:
            cands = [f for k, f in self.fns.items() if k.endswith("::" + suffix) and f.kind != "promoted"]
        if len(cands) == 1:
            return cands[0]
        if not cands:
            if required:
                from facts import AnalysisError
                raise AnalysisError("anchor function not found: %s (crate %s)" % (suffix, self.name))
            return None
        # prefer non-closure exact
        ex = [f for f in cands if f.kind in ("fn", "assoc")]
        if len(ex) == 1:
            return ex[0]
        if required:
            from facts import AnalysisError
            raise AnalysisError("ambiguous anchor function %s: %s" % (suffix, [f.id for f in cands]))
        return None

    def fns_matching(self, pred):
        return [f for f in self.fns.values() if pred(f)]

    def const(self, suffix, required=True):
        if suffix in self.consts:
            return self.consts[suffix]
        c = [v for k, v in self.consts.items() if k.endswith("::" + suffix)]
        if len(c) == 1:
            return c[0]
        if required:
            from facts import AnalysisError
            raise AnalysisError("constant not found or ambiguous: %s (%d candidates)" % (suffix, len(c)))
        return None

    def const_int(self, suffix):
        c = self.const(suffix)
        return int(c["int"])

    def const_ints(self, suffix):
        c = self.const(suffix)
        return [int(x) for x in c["ints"]]

    def adt(self, suffix, required=True):
        if suffix in self.adts:
            return self.adts[suffix]
        c = [v for k, v in self.adts.items() if k.endswith("::" + suffix)]
        if len(c) == 1:
            return c[0]
        if required:
            from facts import AnalysisError
            raise AnalysisError("ADT not found or ambiguous: %s" % suffix)
        return None

    def children(self, fid):
        """closures (transitively) defined inside function `fid`."""
        if self._children is None:
            ch = defaultdict(list)
            for f in self.fns.values():
                if f.kind == "closure" and f.parent:
                    ch[f.parent].append(f.id)
            self._children = ch
        out = []
        st = [fid]
        while st:
            x = st.pop()
            for c in self._children.get(x, []):
                out.append(c)
                st.append(c)
        return out

    def promoted(self, pid):
        return self.fns.get(pid)


if __name__ == "__main__":
    import facts
    cfg = sys.argv[1]
    crate = None
    if ":" in cfg:
        cfg, crate = cfg.split(":")
    c = Crate(facts.load(cfg, crate))
    for suf in sys.argv[2:]:
        if suf.startswith("~"):
            for k in sorted(c.fns):
                if suf[1:] in k:
                    print(k, c.fns[k].kind, len(c.fns[k].blocks))
            continue
        c.fn(suf).dump()
