"""Complete-traversal loops as must-writes.

`for x in a.iter_mut() { *x = v }`, `for (x, y) in a.iter_mut().zip(b.iter_mut()) { .. }`, `for i in 0..N { a[i] = v }`
and `i = 0; while i < N { a[i] = v; i += 1 }` assign the whole of `a` on the edge that leaves the loop normally.
The field-effect summaries (effects.py) credit that edge with a must-write of `a` when every condition below is
established on the MIR; nothing is credited otherwise (the result is then merely incomplete, never unsound):

  iterator form   the loop header calls `Iterator::next(&mut it)`; `it` is assigned once, outside the loop, from
                  slice `iter_mut()` / `&mut [T; N]` `into_iter()` / a Range literal starting at 0, possibly through
                  `zip`, `enumerate`, `rev`, `into_iter`, and is touched by nothing else; the loop is left only through the
                  `None` arm (other exits cannot reach a return); starting each iteration with nothing known, every
                  latch is reached with the element pointer's pointee (or the element indexed by the range payload)
                  assigned as a whole.  `zip` credits both sides only for equal array lengths (else the shorter).
  counter form    a local assigned exactly twice: `c = 0` before the loop and `c = c + 1` at one place I inside it that
                  dominates every latch and is on no inner cycle; a test of `c` against a constant N leaves the loop,
                  dominates I and is not re-reached after I within the iteration; every other exit cannot reach a return;
                  at I element `[c]` (or `[j]`, j a copy of c taken earlier in the iteration) of the array has been
                  assigned as a whole; N equals the array's length.

Keys used by the intra-loop must-flow: ('loc', of, field) | ('param', i) | ('deref', ptr_local) | ('elem', base_key, idx_local).
"""
import re

from mir import Place, callee_name, callee_id

FILL_LIKE = ("::fill", "::copy_from_slice", "::clone_from_slice", "ptr::write", "mem::replace")


def _mentions(o):
    """every place dict inside a statement / terminator JSON value"""
    if isinstance(o, dict):
        if "l" in o and "p" in o and isinstance(o.get("p"), list):
            yield o
            for p in o["p"]:
                if isinstance(p, dict) and "i" in p:
                    yield {"l": p["i"], "p": []}
            return
        for v in o.values():
            yield from _mentions(v)
    elif isinstance(o, list):
        for v in o:
            yield from _mentions(v)


def _const_int(o):
    if isinstance(o, dict) and "k" in o and "int" in o["k"]:
        return int(o["k"]["int"])
    return None


def _op_local(o):
    """bare local of a copy/move operand, else None"""
    if not isinstance(o, dict):
        return None
    pl = o.get("c") or o.get("m")
    if pl is None or pl["p"]:
        return None
    return pl["l"]


def _key_locals(k):
    if k[0] == "deref":
        return {k[1]}
    if k[0] == "elem":
        return {k[2]} | _key_locals(k[1])
    return set()


def parse_array_ty(ty, resolve=None):
    """'[T; N]' (optionally behind &mut / Box) -> (T, N) or None; a named length is looked up through `resolve`"""
    if not ty:
        return None
    t = ty.strip()
    changed = True
    while changed:
        changed = False
        for pre in ("&mut ", "&"):
            if t.startswith(pre):
                t = re.sub(r"^&(mut )?('[a-z_]+ )?", "", t).strip()
                changed = True
                break
        for pre in ("alloc::boxed::Box<", "Box<"):
            if t.startswith(pre) and t.endswith(">"):
                t = t[len(pre):-1].strip()
                changed = True
    if not (t.startswith("[") and t.endswith("]")):
        return None
    depth = 0
    for i in range(len(t) - 1, 0, -1):
        ch = t[i]
        if ch in ")]>":
            depth += 1
        elif ch in "([<":
            depth -= 1
        elif ch == ";" and depth == 1:
            n = t[i + 1:-1].strip()
            n = re.sub(r"\s+as\s+usize$", "", n).strip()
            if n.isdigit():
                return t[1:i].strip(), int(n)
            if resolve is not None and re.fullmatch(r"[A-Za-z_][A-Za-z_0-9:]*", n):
                v = resolve(n)
                if v is not None:
                    return t[1:i].strip(), v
            return None
    return None


class LoopMW:
    def __init__(self, E, fn):
        self.E = E
        self.fn = fn
        self.edge = {}          # (u, v) -> set(keys)
        self.notes = []

    # ------------------------------------------------------------------ small MIR helpers
    def single_def(self, l):
        ds = self.fn.defs().get(l, [])
        if len(ds) != 1 or (1 <= l <= self.fn.argc):
            return None
        return ds[0]

    def def_rv(self, l):
        d = self.single_def(l)
        if d is None or d[1] == "t":
            return None
        return self.fn.blocks[d[0]]["s"][d[1]]["a"][1]

    def copy_root(self, l, depth=0):
        """follow `x = copy/move y` chains of single-definition locals; -> list of locals on the chain (l first)"""
        out = [l]
        while depth < 12:
            rv = self.def_rv(out[-1])
            if rv is None or "use" not in rv:
                break
            m = _op_local(rv["use"])
            if m is None:
                break
            out.append(m)
            depth += 1
        return out

    # ------------------------------------------------------------------ what a pointer / place denotes
    def target_of_place(self, pl, depth=0):
        fn = self.fn
        proj = pl.proj
        if depth > 12:
            return None
        if proj and proj[-1][0] == "i":
            base = Place({"l": pl.local, "p": []})
            base.proj = proj[:-1]
            b = self.target_of_place(base, depth + 1)
            return ("elem", b, proj[-1][1]) if b else None
        if proj == (("deref",),):
            return self.target_of_ptr_local(pl.local, depth + 1)
        if any(p[0] in ("i", "ci", "sub") for p in proj):
            return None
        cls = self.E.classify(fn, pl)
        if len(cls) == 1:
            c = cls[0]
            if c[0] == "loc" and c[3]:
                return ("loc", c[1], c[2])
            if c[0] == "param" and c[2] and fn.kind != "closure":
                return ("param", c[1])
        return None

    def target_of_ptr_local(self, l, depth=0):
        fn = self.fn
        if depth > 12:
            return None
        if 1 <= l <= fn.argc:
            if fn.kind == "closure":
                return None
            return ("param", l) if not fn.defs().get(l) else None
        d = self.single_def(l)
        if d is None:
            return None
        if d[1] == "t":
            t = fn.blocks[d[0]]["t"]
            name = callee_name(t["call"])
            if t["args"] and any(name.endswith(x) for x in ("::deref_mut", "::as_mut_slice", "::as_mut", "::borrow_mut")):
                return self.target_of_operand(t["args"][0], depth + 1)
            return None
        rv = fn.blocks[d[0]]["s"][d[1]]["a"][1]
        if "ref" in rv or "ptr" in rv:
            return self.target_of_place(Place(rv.get("ref") or rv.get("ptr")), depth + 1)
        if "use" in rv:
            m = _op_local(rv["use"])
            if m is not None:
                return self.target_of_ptr_local(m, depth + 1)
            pl = rv["use"].get("c") or rv["use"].get("m")
            if pl is not None and any(isinstance(p, dict) and "dc" in p for p in pl["p"]):
                return ("deref", l)        # element pointer taken out of an iterator's `Some` payload
        if "cast" in rv:
            m = _op_local(rv["cast"][1])
            if m is not None:
                return self.target_of_ptr_local(m, depth + 1)
        # anything else (Box pointer transmutes, …): whatever the type-based classification can say about `*l`
        pl = Place({"l": l, "p": ["deref"]})
        cls = self.E.classify(fn, pl)
        if len(cls) == 1:
            c = cls[0]
            if c[0] == "loc" and c[3]:
                return ("loc", c[1], c[2])
            if c[0] == "param" and c[2] and fn.kind != "closure":
                return ("param", c[1])
        return None

    def target_of_operand(self, o, depth=0):
        l = _op_local(o)
        if l is None:
            return None
        return self.target_of_ptr_local(l, depth)

    def _resolver(self, of):
        """named array length in a field type of ADT `of`: the constant of that name in the ADT's module, else any constant
        of that name when all of them agree"""
        mod = of.rsplit("::", 1)[0]

        def res(name):
            last = name.split("::")[-1]
            cands = {}
            for c in self.E.crates:
                for k, v in c.consts.items():
                    if (k == last or k.endswith("::" + last)) and "int" in v:
                        cands[k] = int(v["int"])
            if mod + "::" + last in cands:
                return cands[mod + "::" + last]
            vals = set(cands.values())
            return vals.pop() if len(vals) == 1 else None
        return res

    def array_len(self, key):
        if key is None:
            return None
        if key[0] == "loc":
            r = parse_array_ty(self.E.field_type(key[1], key[2]), self._resolver(key[1]))
            return r[1] if r else None
        if key[0] in ("param", "deref"):
            r = parse_array_ty(self.fn.locals[key[1]]["ty"])
            return r[1] if r else None
        if key[0] == "elem":
            t = self.elem_ty(key[1])
            r = parse_array_ty(t, self._root_resolver(key))
            return r[1] if r else None
        return None

    def elem_ty(self, key):
        if key[0] == "loc":
            r = parse_array_ty(self.E.field_type(key[1], key[2]), self._resolver(key[1]))
        elif key[0] in ("param", "deref"):
            r = parse_array_ty(self.fn.locals[key[1]]["ty"])
        elif key[0] == "elem":
            r = parse_array_ty(self.elem_ty(key[1]), self._root_resolver(key))
        else:
            r = None
        return r[0] if r else None

    def _root_resolver(self, key):
        while key[0] == "elem":
            key = key[1]
        return self._resolver(key[1]) if key[0] == "loc" else None

    # ------------------------------------------------------------------ block transfer
    def transfer(self, bb, state, upto=None):
        """apply block `bb` (statements [0, upto) when given; else all statements and the terminator)"""
        fn = self.fn
        st = set(state)
        blk = fn.blocks[bb]

        def kill(l):
            for k in [k for k in st if l in _key_locals(k)]:
                st.discard(k)
        for i, s in enumerate(blk["s"]):
            if upto is not None and i >= upto:
                return st
            if "a" not in s:
                continue
            pj = s["a"][0]
            if not pj["p"]:
                kill(pj["l"])
                continue
            k = self.target_of_place(Place(pj))
            if k:
                st.add(k)
        if upto is not None:
            return st
        t = blk["t"]
        if "call" in t:
            name = callee_name(t["call"])
            cid = callee_id(t["call"])
            sm = self.E.sum.get(cid) if cid else None
            if sm is not None:
                for loc in sm["MW"]:
                    st.add(("loc", loc[0], loc[1]))
                for j in sm["MWP"]:
                    if j - 1 < len(t["args"]):
                        k = self.target_of_operand(t["args"][j - 1])
                        if k:
                            st.add(k)
            elif any(name.endswith(x) for x in FILL_LIKE) and t["args"]:
                k = self.target_of_operand(t["args"][0])
                if k:
                    st.add(k)
            elif name.endswith("::for_each") and "Iterator" in name and t["args"] and t["call"].get("closures"):
                # `place.iter_mut().for_each(|x| *x = v)`
                cs = self.E.sum.get(t["call"]["closures"][0])
                l0 = _op_local(t["args"][0])
                d0 = self.single_def(l0) if l0 is not None else None
                if cs is not None and cs["MWP"] and d0 is not None and d0[1] == "t":
                    t2 = fn.blocks[d0[0]]["t"]
                    if callee_name(t2["call"]).endswith("::iter_mut") and t2["args"]:
                        k = self.target_of_operand(t2["args"][0])
                        if k:
                            st.add(k)
            if not t["dest"]["p"]:
                kill(t["dest"]["l"])
        return st

    def flow(self, L, head):
        """must-flow over the loop body L for one iteration: IN[head] = {}, back edges into head not followed.
        -> (IN, OUT) dicts"""
        fn = self.fn
        IN = {b: None for b in L}
        OUT = {b: None for b in L}
        IN[head] = frozenset()
        order = sorted(L)
        changed = True
        rounds = 0
        while changed and rounds < 50:
            changed = False
            rounds += 1
            for b in order:
                if b != head:
                    ps = []
                    for p in fn.preds(b):
                        if p in L and OUT[p] is not None:
                            ps.append(OUT[p] | frozenset(self.edge.get((p, b), ())))
                    if not ps:
                        continue
                    ni = frozenset.intersection(*ps)
                else:
                    ni = IN[head]
                no = frozenset(self.transfer(b, ni))
                if ni != IN[b] or no != OUT[b]:
                    IN[b], OUT[b] = ni, no
                    changed = True
        return IN, OUT

    # ------------------------------------------------------------------ loops
    def natural_loop(self, head):
        fn = self.fn
        L = {head}
        work = [p for p in fn.preds(head) if fn.dominates(head, p)]
        while work:
            b = work.pop()
            if b in L:
                continue
            L.add(b)
            work.extend(p for p in fn.preds(b) if fn.dominates(head, p))
        return L

    def returns_reachable(self, b):
        rets = set(self.fn.return_blocks())
        return bool(self.fn.reachable(b) & rets)

    def other_exits_diverge(self, L, allowed):
        fn = self.fn
        for u in L:
            for v in fn.succs(u):
                if v in L or (u, v) == allowed:
                    continue
                if self.returns_reachable(v):
                    return False
        return True

    # ---- iterator structure
    def resolve_iter(self, l, depth=0):
        fn = self.fn
        if depth > 10:
            return None
        d = self.single_def(l)
        if d is None:
            return None
        if d[1] != "t":
            rv = fn.blocks[d[0]]["s"][d[1]]["a"][1]
            if "use" in rv:
                m = _op_local(rv["use"])
                return self.resolve_iter(m, depth + 1) if m is not None else None
            if "agg" in rv and rv["agg"].get("kind") == "adt" and rv["agg"]["def"].endswith("::Range") and "::ops::" in rv["agg"]["def"] and len(rv["agg"]["ops"]) == 2:
                return ("range", rv["agg"]["ops"][0], rv["agg"]["ops"][1])
            return None
        t = fn.blocks[d[0]]["t"]
        name = callee_name(t["call"])
        args = t["args"]
        if not args:
            return None

        def sub(o):
            m = _op_local(o)
            if m is None:
                return None
            ty = fn.locals[m]["ty"]
            if ty.startswith("&mut ["):
                return ("src", o)
            if ty.startswith("[&mut "):
                # an array of exclusive references consumed by value: `for p in [&mut a, &mut b] { *p = v }`
                rv = self.def_rv(m)
                if rv is not None and "agg" in rv and rv["agg"].get("kind") == "array":
                    return ("ptrs", tuple(rv["agg"]["ops"]))
                return None
            return self.resolve_iter(m, depth + 1)
        if name.endswith("::iter_mut") and "slice" in name:
            return ("src", args[0])
        if name.endswith("::into_iter") and "IntoIterator" in name:
            return sub(args[0])
        if name.endswith("Iterator::zip") and len(args) == 2:
            a, b = sub(args[0]), sub(args[1])
            return ("zip", a, b) if a and b else None
        if name.endswith("Iterator::enumerate"):
            a = sub(args[0])
            return ("enum", a) if a else None
        if name.endswith("Iterator::rev"):
            return sub(args[0])
        return None

    def component(self, struct, path):
        if struct is None:
            return None
        if struct[0] in ("src", "ptrs"):
            return struct if not path else None
        if struct[0] == "range":
            return struct if not path else None
        if struct[0] == "zip":
            if path and path[0] in (0, 1):
                return self.component(struct[1 + path[0]], path[1:])
            return None
        if struct[0] == "enum":
            if path and path[0] == 1:
                return self.component(struct[1], path[1:])
            return None
        return None

    def borrowed_local(self, o, depth=0):
        """the local whose `&mut` (possibly reborrowed) operand `o` carries"""
        l = _op_local(o)
        while l is not None and depth < 6:
            rv = self.def_rv(l)
            if rv is None or "ref" not in rv:
                return None
            pl = rv["ref"]
            if not pl["p"]:
                return pl["l"]
            if pl["p"] == ["deref"]:
                l = pl["l"]
                depth += 1
                continue
            return None
        return None

    def src_len(self, o):
        """array length behind a `&mut [T]` operand produced by unsizing a `&mut [T; N]`"""
        l = _op_local(o)
        for _ in range(6):
            if l is None:
                return None
            r = parse_array_ty(self.fn.locals[l]["ty"])
            if r:
                return r[1]
            rv = self.def_rv(l)
            if rv is None:
                return None
            if "cast" in rv:
                l = _op_local(rv["cast"][1])
            elif "use" in rv:
                l = _op_local(rv["use"])
            else:
                return None
        return None

    def iterator_loops(self):
        fn = self.fn
        heads = set()
        for N, blk in enumerate(fn.blocks):
            t = blk["t"]
            if "call" not in t or not t["args"]:
                continue
            name = callee_name(t["call"])
            if not (name.endswith("::next") and "Iterator" in name):
                continue
            if t["dest"]["p"] or t["target"] is None:
                continue
            L = self.natural_loop(N)
            if len(L) < 2:
                continue
            it = self.borrowed_local(t["args"][0])
            if it is None:
                continue
            struct = self.resolve_iter(it)
            if struct is None:
                continue
            d = self.single_def(it)
            if d is None or d[0] in L:
                continue
            # `it` is touched by its definition and by the one borrow feeding `next` only
            uses = 0
            for bb, b2 in enumerate(fn.blocks):
                for s in b2["s"]:
                    uses += sum(1 for m in _mentions(s) if m["l"] == it)
                if "drop" in b2["t"] and bb not in L:
                    continue        # dropping the exhausted iterator after the loop
                uses += sum(1 for m in _mentions(b2["t"]) if m["l"] == it)
            if uses != 2:
                continue
            r = t["dest"]["l"]
            D = t["target"]
            td = fn.blocks[D]["t"]
            if "switch" not in td:
                continue
            dl = _op_local(td["switch"])
            drv = None
            for s in fn.blocks[D]["s"]:
                if "a" in s and not s["a"][0]["p"] and s["a"][0]["l"] == dl:
                    drv = s["a"][1]
            if not (drv and "discr" in drv and drv["discr"]["l"] == r and not drv["discr"]["p"]):
                continue
            tg = {int(v): b for v, b in td["targets"]}
            if 0 not in tg or 1 not in tg:
                continue
            exitb, someb = tg[0], tg[1]
            if exitb in L or someb not in L:
                continue
            if not self.other_exits_diverge(L, (D, exitb)):
                continue
            heads.add(N)
            # payload locals
            payload = {}
            for bb in L:
                for s in fn.blocks[bb]["s"]:
                    if "a" not in s or s["a"][0]["p"]:
                        continue
                    rv = s["a"][1]
                    if "use" not in rv:
                        continue
                    pl = rv["use"].get("c") or rv["use"].get("m")
                    if pl is None or pl["l"] != r or len(pl["p"]) < 2:
                        continue
                    p0, p1 = pl["p"][0], pl["p"][1]
                    if not (isinstance(p0, dict) and p0.get("dc") == 1 and isinstance(p1, dict) and p1.get("f") == 0):
                        continue
                    rest = pl["p"][2:]
                    if not all(isinstance(p, dict) and "f" in p for p in rest):
                        continue
                    x = s["a"][0]["l"]
                    if self.single_def(x) is None:
                        continue
                    comp = self.component(struct, [p["f"] for p in rest])
                    if comp:
                        payload[x] = comp
            if not payload:
                continue
            IN, OUT = self.flow(L, N)
            latches = [p for p in fn.preds(N) if p in L]
            outs = [OUT[p] | frozenset(self.edge.get((p, N), ())) for p in latches if OUT[p] is not None]
            if not outs or len(outs) != len(latches):
                continue
            final = frozenset.intersection(*outs)
            credited = {}     # id(comp) -> key
            for x, comp in payload.items():
                if comp[0] == "src":
                    if ("deref", x) in final:
                        k = self.target_of_operand(comp[1])
                        if k:
                            credited[id(comp)] = (comp, k)
                elif comp[0] == "ptrs":
                    if ("deref", x) in final:
                        for n_, o in enumerate(comp[1]):
                            k = self.target_of_operand(o)
                            if k:
                                credited[(id(comp), n_)] = (comp, k)
                else:
                    if _const_int(comp[1]) != 0:
                        continue
                    n = _const_int(comp[2])
                    if n is None:
                        continue
                    for k in final:
                        if k[0] == "elem" and x in self.copy_root(k[2]) and self.array_len(k[1]) == n:
                            credited[("range", k[1])] = (comp, k[1])
            keys = set()
            zips = self._zip_pairs(struct)
            for cid_, (comp, k) in credited.items():
                ok = True
                for a, b in zips:
                    if comp is a or comp is b:
                        other = b if comp is a else a
                        if comp[0] != "src" or other[0] != "src":
                            ok = False
                            continue
                        la, lb = self.src_len(comp[1]), self.src_len(other[1])
                        if la is None or lb is None or la > lb:
                            ok = False
                if ok:
                    keys.add(k)
            if keys:
                self.edge.setdefault((D, exitb), set()).update(keys)
                self.notes.append(("iterator", N, sorted(map(str, keys))))
        return heads

    def _zip_pairs(self, struct):
        """[(leafA, leafB)] for every zip whose both sides are leaves; a zip with a non-leaf side pairs every leaf below"""
        out = []

        def leaves(s):
            if s is None:
                return []
            if s[0] in ("src", "range", "ptrs"):
                return [s]
            if s[0] == "zip":
                return leaves(s[1]) + leaves(s[2])
            if s[0] == "enum":
                return leaves(s[1])
            return []

        def walk(s):
            if s is None:
                return
            if s[0] == "zip":
                for a in leaves(s[1]):
                    for b in leaves(s[2]):
                        out.append((a, b))
                walk(s[1])
                walk(s[2])
            elif s[0] == "enum":
                walk(s[1])
        walk(struct)
        return out

    # ---- counter loops
    EXIT_ON = {  # (op, counter side) -> switch value on which `counter >= N` (0 = false arm, 1 = true arm)
        ("Lt", 0): 0, ("Ge", 0): 1, ("Gt", 1): 0, ("Le", 1): 1, ("Ne", 0): 0, ("Ne", 1): 0, ("Eq", 0): 1, ("Eq", 1): 1,
    }

    def counter_loops(self, skip_heads):
        fn = self.fn
        for H in range(len(fn.blocks)):
            if H in skip_heads:
                continue
            if not any(fn.dominates(H, p) for p in fn.preds(H)):
                continue
            L = self.natural_loop(H)
            if len(L) < 2:
                continue
            latches = [p for p in fn.preds(H) if p in L]
            # candidate counters
            for c, ds in fn.defs().items():
                if len(ds) != 2 or (1 <= c <= fn.argc):
                    continue
                inside = [d for d in ds if d[0] in L]
                outside = [d for d in ds if d[0] not in L]
                if len(inside) != 1 or len(outside) != 1 or inside[0][1] == "t" or outside[0][1] == "t":
                    continue
                rv0 = fn.blocks[outside[0][0]]["s"][outside[0][1]]["a"][1]
                if not ("use" in rv0 and _const_int(rv0["use"]) == 0) or not fn.dominates(outside[0][0], H):
                    continue
                I, idx = inside[0]
                if not self._is_increment(I, idx, c):
                    continue
                if not all(fn.dominates(I, p) for p in latches):
                    continue
                # blocks reachable after the increment within this iteration
                R = set()
                work = [s for s in fn.succs(I) if s in L and s != H]
                while work:
                    b = work.pop()
                    if b in R:
                        continue
                    R.add(b)
                    work.extend(s for s in fn.succs(b) if s in L and s != H)
                if I in R:
                    continue
                # the counter is never borrowed or otherwise written
                if self._borrowed(c):
                    continue
                test = self._exit_test(L, c, I, R)
                if test is None:
                    continue
                T, exitb, n = test
                if not self.other_exits_diverge(L, (T, exitb)):
                    continue
                IN, OUT = self.flow(L, H)
                if IN.get(I) is None:
                    continue
                at = self.transfer(I, IN[I], upto=idx)
                keys = set()
                for k in at:
                    if k[0] != "elem":
                        continue
                    j = k[2]
                    if j != c:
                        chain = self.copy_root(j)
                        if c not in chain:
                            continue
                        okc = True
                        for m in chain[:chain.index(c)]:
                            d = self.single_def(m)
                            if d is None or d[0] not in L or d[0] in R or (d[0] == I and d[1] != "t" and d[1] > idx):
                                okc = False
                        if not okc:
                            continue
                    if self.array_len(k[1]) == n:
                        keys.add(k[1])
                if keys:
                    self.edge.setdefault((T, exitb), set()).update(keys)
                    self.notes.append(("counter", H, sorted(map(str, keys))))

    def _borrowed(self, c):
        fn = self.fn
        for blk in fn.blocks:
            for s in blk["s"]:
                if "a" in s:
                    rv = s["a"][1]
                    pl = rv.get("ref") or rv.get("ptr") if isinstance(rv, dict) else None
                    if pl is not None and pl["l"] == c:
                        return True
        return False

    def _is_increment(self, I, idx, c):
        fn = self.fn
        rv = fn.blocks[I]["s"][idx]["a"][1]

        def add1(rv):
            if "bin" not in rv or rv["bin"][0] not in ("Add", "AddWithOverflow", "AddUnchecked"):
                return False
            a, b = rv["bin"][1], rv["bin"][2]
            return (_op_local(a) == c and _const_int(b) == 1) or (_op_local(b) == c and _const_int(a) == 1)
        if add1(rv):
            return True
        if "use" in rv:
            pl = rv["use"].get("c") or rv["use"].get("m")
            if pl is not None and len(pl["p"]) == 1 and isinstance(pl["p"][0], dict) and pl["p"][0].get("f") == 0:
                # `(tmp.0)` of a checked add whose assert lies between
                rv2 = self.def_rv(pl["l"])
                return bool(rv2 and add1(rv2))
        return False

    def _exit_test(self, L, c, I, R):
        fn = self.fn
        for T in sorted(L):
            if T in R or not fn.dominates(T, I):
                continue
            td = fn.blocks[T]["t"]
            if "switch" not in td:
                continue
            dl = _op_local(td["switch"])
            if dl is None:
                continue
            rv = None
            for s in fn.blocks[T]["s"]:
                if "a" in s and not s["a"][0]["p"] and s["a"][0]["l"] == dl:
                    rv = s["a"][1]
            if rv is None or "bin" not in rv:
                continue
            op, a, b = rv["bin"]
            side = None
            for k, (x, y) in enumerate(((a, b), (b, a))):
                lx = _op_local(x)
                if lx is None or _const_int(y) is None:
                    continue
                chain = self.copy_root(lx)
                if c in chain and all((self.single_def(m) or (None,))[0] == T for m in chain[:chain.index(c)]):
                    side, n = k, _const_int(y)
            if side is None or (op, side) not in self.EXIT_ON:
                continue
            want = self.EXIT_ON[(op, side)]
            tg = {int(v): bb for v, bb in td["targets"]}
            if want == 0:
                exitb = tg.get(0)
            else:
                exitb = tg.get(1, td["otherwise"] if 0 in tg else None)
            if exitb is None or exitb in L:
                continue
            # the other arm stays in the loop
            others = [s for s in fn.succs(T) if s != exitb]
            if not others or not all(s in L for s in others):
                continue
            return T, exitb, n
        return None

    def run(self):
        fn = self.fn
        if not any(fn.dominates(b, p) for b in range(len(fn.blocks)) for p in fn.preds(b)):
            return {}
        # inner loops first: two passes are enough for the nesting depths in this crate; a third costs nothing
        prev = None
        for _ in range(3):
            heads = self.iterator_loops()
            self.counter_loops(heads)
            snap = {k: frozenset(v) for k, v in self.edge.items()}
            if snap == prev:
                break
            prev = snap
        return self.edge
