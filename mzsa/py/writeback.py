"""Write-back dataflow (DESIGN §4.6): locals that cache a persistent field must be stored back
before every return and before every call that may read the field; a field changed by a callee
must not be clobbered by a stale cached copy."""
from mir import Place, callee_name, callee_id


def operand_place(o):
    pl = o.get("c") or o.get("m")
    return Place(pl) if pl is not None else None


def root_local(fn, o, depth=0):
    """named local an operand is a (chain of temporary) copy of, else None"""
    pl = operand_place(o)
    if pl is None or pl.proj:
        return None
    l = pl.local
    if fn.local_name(l):
        return l
    defs = fn.defs().get(l, [])
    if len(defs) == 1 and defs[0][1] != "t" and depth < 6:
        rv = fn.blocks[defs[0][0]]["s"][defs[0][1]]["a"][1]
        if "use" in rv:
            return root_local(fn, rv["use"], depth + 1)
    return None


def loaded_loc(E, fn, o, depth=0):
    """location an operand is a (temporary copy of a) load of, else None"""
    pl = operand_place(o)
    if pl is None:
        return None
    if pl.proj:
        return single_loc(E, fn, pl)
    if fn.local_name(pl.local):
        return None
    defs = fn.defs().get(pl.local, [])
    if len(defs) == 1 and defs[0][1] != "t" and depth < 6:
        rv = fn.blocks[defs[0][0]]["s"][defs[0][1]]["a"][1]
        if "use" in rv:
            return loaded_loc(E, fn, rv["use"], depth + 1)
    return None


def single_loc(E, fn, pl):
    cls = E.classify(fn, pl)
    if len(cls) == 1 and cls[0][0] == "loc" and cls[0][3]:
        return (cls[0][1], cls[0][2])
    return None


def candidates(E, fn):
    """{(local, loc)} with at least one load `L = loc` and one store `loc = L`."""
    loads, stores = set(), set()
    for bb, blk in enumerate(fn.blocks):
        for s in blk["s"]:
            if "a" not in s:
                continue
            pl = Place(s["a"][0])
            rv = s["a"][1]
            if "use" not in rv:
                continue
            if pl.is_local() and fn.local_name(pl.local):
                loc = loaded_loc(E, fn, rv["use"])
                if loc:
                    loads.add((pl.local, loc))
            elif pl.proj:
                loc = single_loc(E, fn, pl)
                l = root_local(fn, rv["use"])
                if loc and l is not None:
                    stores.add((l, loc))
    return sorted(loads & stores)


def analyse(E, fn, cands=None):
    """-> (cands, findings) ; finding = dict(kind, local, loc, where, callee)"""
    cands = cands if cands is not None else candidates(E, fn)
    findings = []
    n = len(fn.blocks)
    for (L, loc) in cands:
        def transfer(bb, state, report):
            dirty, stale = state
            blk = fn.blocks[bb]
            for s in blk["s"]:
                if "a" not in s:
                    continue
                pl = Place(s["a"][0])
                rv = s["a"][1]
                if pl.is_local() and pl.local == L:
                    if "use" in rv and loaded_loc(E, fn, rv["use"]) == loc:
                        dirty, stale = False, False
                    else:
                        dirty = True
                    continue
                if pl.proj and pl.local == L:
                    dirty = True
                    continue
                if pl.proj:
                    cls = E.classify(fn, pl)
                    if any(c[0] == "loc" and (c[1], c[2]) == loc for c in cls):
                        l2 = root_local(fn, rv["use"]) if "use" in rv else None
                        if l2 == L and single_loc(E, fn, pl) == loc:
                            if stale and report:
                                findings.append({"kind": "clobber", "local": L, "loc": loc, "where": s.get("sp"), "callee": None})
                            dirty, stale = False, False
                        else:
                            stale = True
                    continue
                # taking a mutable reference to the cached local
                if ("ref" in rv or "ptr" in rv) and rv.get("mut"):
                    rp = Place(rv.get("ref") or rv.get("ptr"))
                    if rp.local == L:
                        dirty = True
            t = blk["t"]
            if "call" in t:
                cid = callee_id(t["call"])
                summ = E.lookup(cid) if cid else None
                if summ is not None:
                    if loc in summ["R"] and dirty and report:
                        findings.append({"kind": "dirty-at-call", "local": L, "loc": loc, "where": t.get("sp"),
                                         "callee": callee_name(t["call"])})
                    if loc in summ["W"]:
                        stale = True
                    for cl in t["call"].get("closures", []):
                        cs = E.lookup(cl)
                        if cs and loc in cs["W"]:
                            stale = True
                dp = Place(t["dest"])
                if dp.local == L:
                    dirty = True
            if "return" in t and dirty and report:
                findings.append({"kind": "dirty-at-return", "local": L, "loc": loc, "where": t.get("sp"), "callee": None})
            return (dirty, stale)

        IN = {0: (False, False)}
        OUT = {}
        work = [0]
        while work:
            b = work.pop()
            o = transfer(b, IN[b], False)
            if OUT.get(b) == o:
                continue
            OUT[b] = o
            for s in fn.succs(b):
                cur = IN.get(s)
                new = o if cur is None else (cur[0] or o[0], cur[1] or o[1])
                if new != cur:
                    IN[s] = new
                    work.append(s)
                elif s not in OUT:
                    work.append(s)
        for b in sorted(IN):
            transfer(b, IN[b], True)
    # dedupe
    seen = set()
    out = []
    for f in findings:
        k = (f["kind"], f["local"], f["loc"], f["callee"], f["where"])
        if k not in seen:
            seen.add(k)
            out.append(f)
    return cands, out
