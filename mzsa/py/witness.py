"""Compile-time witness crate runner (DESIGN §2 E3): `cargo check` of /verif/witness against REPO/miniz_oxide."""
import os
import shutil
import subprocess
import tempfile

import facts

WIT = os.path.join(facts.VERIF, "witness")


def run(features, doc=False, nightly=False):
    """-> (ok: bool, tail of output)"""
    tmp = tempfile.mkdtemp(prefix="mzsa-wit-")
    try:
        shutil.copytree(os.path.join(WIT, "src"), os.path.join(tmp, "src"))
        t = open(os.path.join(WIT, "Cargo.toml.in")).read().replace("@REPO@", os.path.abspath(facts.REPO))
        open(os.path.join(tmp, "Cargo.toml"), "w").write(t)
        shutil.copy(os.path.join(facts.REPO, "Cargo.lock"), os.path.join(tmp, "Cargo.lock"))
        os.makedirs(os.path.join(tmp, ".cargo"))
        open(os.path.join(tmp, ".cargo", "config.toml"), "w").write("[net]\noffline = true\n")
        env = dict(os.environ, CARGO_NET_OFFLINE="true", CARGO_TARGET_DIR=os.path.join(tmp, "target"))
        env.pop("RUSTC_WORKSPACE_WRAPPER", None)
        env.pop("RUSTFLAGS", None)
        cmd = ["cargo"] + (["+nightly"] if (doc or nightly) else []) + (["test", "--doc"] if doc else ["check"]) + \
              ["--offline", "--no-default-features"]
        if features:
            cmd += ["--features", ",".join(features)]
        r = subprocess.run(cmd, cwd=tmp, env=env, stdout=subprocess.PIPE, stderr=subprocess.STDOUT, text=True)
        return r.returncode == 0, r.stdout[-3000:]
    finally:
        shutil.rmtree(tmp, ignore_errors=True)
