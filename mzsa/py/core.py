"""Check context: rule bookkeeping, violations / known findings / reviewed assumptions, evidence."""
import json
import os
import re
import sys
import time

import facts
import mir

VERIF = facts.VERIF
# self-tests (mutants, seeded changes) redirect their evidence so that the committed files always describe the unchanged tree
EVID = os.environ.get("MZSA_EVIDENCE_DIR") or os.path.join(VERIF, "evidence")
REPLAY = os.path.join(EVID, "replay")
KNOWN = os.path.join(VERIF, "known_findings.json")
REVIEWED = os.path.join(VERIF, "mzsa", "tables", "reviewed.json")


class Rule:
    def __init__(self, ctx, rid, title, floor=None, config=None):
        self.ctx = ctx
        self.id = rid
        self.title = title
        self.floor = floor
        self.config = config
        self.examined = 0
        self.discharged = 0
        self.assumed = []
        self.known = []
        self.violations = []
        self.observations = []
        self.samples = []
        self.notes = []

    def key(self, fn, what):
        return "%s|%s|%s" % (self.id, fn, what)

    def ok(self, fn, what, detail=None, where=None):
        self.examined += 1
        self.discharged += 1
        if len(self.samples) < 4 and detail is not None:
            self.samples.append({"rule": self.id, "key": self.key(fn, what), "verdict": "holds",
                                 "detail": _clip(detail), "where": _where(where)})

    def fail(self, fn, what, reason, where=None, path=None):
        """An obligation that is violated or cannot be proved: reviewed assumption, known finding, or violation."""
        self.examined += 1
        k = self.key(fn, what)
        # reviewed assumptions and known findings are keyed by the base rule id: the same source construct seen in
        # another build configuration (rule id suffix "@<config>") is the same instance, not a new one
        bk = "%s|%s|%s" % (self.id.split("@")[0], fn, what)
        rv = self.ctx.reviewed.get(k, self.ctx.reviewed.get(bk))
        if rv is not None:
            self.assumed.append({"key": k, "reason": rv})
            self.ctx.reviewed_used.add(bk)
            return "assumed"
        kf = self.ctx.known_by_key.get(k, self.ctx.known_by_key.get(bk))
        if kf is not None and kf.get("status") == "open" and kf.get("property") == self.ctx.prop:
            self.known.append({"key": k, "id": kf["id"], "what": kf["what"]})
            return "known"
        self.violations.append({"rule": self.id, "key": k, "function": fn, "where": _where(where),
                                "reason": _clip(reason, 1500), "path": path})
        return "violation"

    def observe(self, text):
        self.observations.append(_clip(text, 600))

    def note(self, text):
        self.notes.append(text)

    def summary(self):
        return {"id": self.id, "title": self.title, "config": self.config, "floor": self.floor,
                "examined": self.examined, "discharged": self.discharged, "assumed": len(self.assumed),
                "known": len(self.known), "violating": len(self.violations),
                "observations": self.observations[:10], "assumed_keys": [a["key"] for a in self.assumed][:40]}


def _clip(x, n=400):
    s = x if isinstance(x, str) else json.dumps(x, default=str)
    return s if len(s) <= n else s[:n] + "…"


def _where(sp):
    if not sp:
        return None
    return sp.split(": ")[0]


class Ctx:
    def __init__(self, prop, tier, seed=0, replay=None):
        self.prop = prop
        self.tier = tier
        self.seed = seed
        self.replay = replay
        self.rules = []
        self.t0 = time.time()
        self.configs_used = []
        self.fns_analysed = set()
        self.errors = []
        self._crates = {}
        self.reviewed = {}
        self.reviewed_used = set()
        if os.path.exists(REVIEWED):
            self.reviewed = json.load(open(REVIEWED))
        self.known_by_key = {}
        self.fixed = []
        if os.path.exists(KNOWN):
            kf = json.load(open(KNOWN))
            for e in kf.get("findings", []):
                for k in e.get("keys", []):
                    self.known_by_key[k] = e
            self.fixed = kf.get("fixed", [])
        self.extra = {}
        self.assumptions = []
        self.trusted = ["rustc nightly MIR construction and const evaluation (mir-opt-level=0)",
                        "mzfacts driver serialisation", "mzsa/py analyses", "mzsa/tables (RFC tables, reviewed assumptions)"]

    def thorough(self):
        return self.tier == "thorough"

    def crate(self, config, crate=None):
        k = (config, crate)
        if k not in self._crates:
            doc = facts.load(config, crate)
            self._crates[k] = mir.Crate(doc)
            if config not in self.configs_used:
                self.configs_used.append(config)
        return self._crates[k]

    def effects(self, config, crate=None):
        import effects as _e
        k = ("eff", config, crate)
        if k not in self._crates:
            self._crates[k] = _e.Effects(self.crate(config, crate))
        return self._crates[k]

    def rule(self, rid, title, floor=None, config=None):
        r = Rule(self, rid, title, floor, config)
        self.rules.append(r)
        return r

    def touched(self, *fns):
        for f in fns:
            self.fns_analysed.add(f if isinstance(f, str) else f.name)

    # ------------------------------------------------------------------ finishing
    def finish(self):
        viol = []
        known = []
        obligations = discharged = assumed = 0
        samples = []
        for r in self.rules:
            # vacuity floor
            if r.floor is not None and r.examined < r.floor:
                r.violations.append({"rule": r.id, "key": "%s|<floor>|examined=%d<floor=%d" % (r.id, r.examined, r.floor),
                                     "function": None, "where": None,
                                     "reason": "rule examined %d instances, fewer than the %d confirmed by hand on the reference "
                                               "tree: the anchor it looks for is gone or no longer recognised (fail closed)"
                                               % (r.examined, r.floor), "path": None})
            viol.extend(r.violations)
            known.extend(r.known)
            obligations += r.examined
            discharged += r.discharged
            assumed += len(r.assumed)
            samples.extend(r.samples[:3])
        for r in self.rules:
            for v in r.violations[:2]:
                samples.append({"rule": r.id, "key": v["key"], "verdict": "VIOLATION", "detail": v["reason"], "where": v["where"]})
            for k in r.known[:2]:
                samples.append({"rule": r.id, "key": k["key"], "verdict": "known-finding " + k["id"]})
            for a in r.assumed[:1]:
                samples.append({"rule": r.id, "key": a["key"], "verdict": "reviewed assumption", "detail": a["reason"]})
        os.makedirs(REPLAY, exist_ok=True)
        # stale replay files of this property
        for f in os.listdir(REPLAY):
            if f.startswith(self.prop + "-"):
                os.unlink(os.path.join(REPLAY, f))
        seen_known = set()
        for k in known:
            if k["key"] in seen_known:
                continue
            seen_known.add(k["key"])
            print("KNOWN-FINDING: property=%s %s [%s] %s" % (self.prop, k["id"], k["key"], k["what"]))
        out_viol = 0
        uniq = {}
        for v in viol:
            if v["key"] in uniq:
                uniq[v["key"]]["occurrences"] += 1
            else:
                v["occurrences"] = 1
                uniq[v["key"]] = v
        viol = list(uniq.values())
        for i, v in enumerate(viol):
            out_viol += 1
            rp = os.path.join(REPLAY, "%s-%s-%d.json" % (self.prop, re.sub(r"[^A-Za-z0-9_.@-]", "_", v["rule"]), i))
            with open(rp, "w") as fh:
                json.dump(v, fh, indent=1, default=str)
            print("VIOLATION property=%s replay=%s" % (self.prop, rp))
            print("  rule %s  key %s%s" % (v["rule"], v["key"], ("  (x%d)" % v["occurrences"]) if v["occurrences"] > 1 else ""))
            print("  at %s: %s" % (v["where"], v["reason"]))
            if v.get("path"):
                print("  path: %s" % _clip(v["path"], 1200))
        wall = time.time() - self.t0
        level = "proof" if self.prop == "C20" else "other"
        expl = self.extra.pop("explanation", "")
        cov = {
            "explanation": expl or "static rules %s evaluated on configurations %s of /repo's current working tree"
                           % (", ".join(r.id for r in self.rules), ", ".join(self.configs_used)),
            "obligations": obligations,
            "discharged": discharged + assumed + len(known) if level != "proof" else discharged,
            "discharged_by_analysis": discharged,
            "assumed_reviewed": assumed,
            "known_findings": len(seen_known),
            "violating": out_viol,
            "configs": self.configs_used,
            "functions_analysed": len(self.fns_analysed),
            "functions": sorted(self.fns_analysed)[:60],
            "rules": [r.summary() for r in self.rules],
            "samples": samples[:24] or [{"note": "no instances"}],
            "checker_cmd": "./check %s --tier %s" % (self.prop, self.tier),
            "trusted_base": self.trusted,
            "exhaustive": True,
            "tree_key": facts.tree_key(),
            "evaluations": max(1, obligations),
            "distinct_nontrivial": max(2, len({s.get("key") for s in samples if isinstance(s, dict)})) if obligations >= 2 else 0,
            "rule": "one obligation per rule instance (function / call site / path-table row / configuration); "
                    "distinct = distinct instance keys",
        }
        cov.update(self.extra)
        ev = {"property_id": self.prop, "tier": self.tier, "seed": int(self.seed), "level": level, "coverage": cov,
              "assumptions": self.assumptions + ["reviewed-assumption table entries used: %d" % len(self.reviewed_used)],
              "wall_s": round(wall, 2), "violations": out_viol}
        os.makedirs(EVID, exist_ok=True)
        tmp = os.path.join(EVID, ".%s.json.tmp" % self.prop)
        with open(tmp, "w") as fh:
            json.dump(ev, fh, indent=1, default=str)
        os.replace(tmp, os.path.join(EVID, "%s.json" % self.prop))
        for r in self.rules:
            st = "ok"
            if r.violations:
                st = "VIOLATED(%d)" % len(r.violations)
            print("  %-7s %-9s examined=%d discharged=%d assumed=%d known=%d floor=%s  %s" % (
                r.id, st, r.examined, r.discharged, len(r.assumed), len(r.known), r.floor, r.title))
            for o in r.observations[:6]:
                print("          note: %s" % o)
        print("%s: %s  (%d obligations, %d violations, %d known findings, %.1fs, configs %s)" % (
            self.prop, "VIOLATED" if out_viol else "holds on everything analysed", obligations, out_viol,
            len(seen_known), wall, ",".join(self.configs_used)))
        return 1 if out_viol else 0
