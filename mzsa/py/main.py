"""Entry point:  main.py <Cxx> [--tier quick|thorough] [--replay file]"""
import argparse
import importlib
import json
import os
import sys
import traceback

sys.path.insert(0, os.path.dirname(os.path.abspath(__file__)))
import facts  # noqa: E402
import core  # noqa: E402


def main():
    ap = argparse.ArgumentParser()
    ap.add_argument("prop")
    ap.add_argument("--tier", default=os.environ.get("VERIF_TIER", "quick"))
    ap.add_argument("--replay", default=None)
    a = ap.parse_args()
    tier = a.tier if a.tier in ("quick", "thorough") else "quick"
    seed = 0
    try:
        seed = int(os.environ.get("VERIF_SEED", "0"))
    except ValueError:
        pass
    prop = a.prop.upper()
    replay = None
    if a.replay:
        try:
            replay = json.load(open(a.replay))
        except Exception as e:
            print("cannot read replay file: %s" % e)
            return 2
    ctx = core.Ctx(prop, tier, seed, replay)
    try:
        mod = importlib.import_module("rules.%s" % prop.lower())
    except ImportError as e:
        print("no check registered for %s (%s)" % (prop, e))
        return 2
    try:
        mod.run(ctx)
    except facts.AnalysisError as e:
        if prop == "C20" and getattr(mod, "BUILD_FAILURE_IS_VIOLATION", False):
            raise
        print("ANALYSIS-ERROR property=%s: %s" % (prop, e))
        # an anchor that disappeared or a tree that does not build cannot be certified: fail closed
        r = ctx.rule("R00", "analysis prerequisites (tree builds, anchors present)")
        r.fail("<analysis>", "prerequisite", str(e)[:1500])
        return ctx.finish()
    except Exception:
        traceback.print_exc()
        print("ANALYSIS-ERROR property=%s: internal error in the checker" % prop)
        return 2
    rc = ctx.finish()
    if replay:
        keys = [v["key"] for r in ctx.rules for v in r.violations]
        print("replay: instance %s %s on the current tree" % (replay.get("key"), "STILL VIOLATES" if replay.get("key") in keys else "no longer reported"))
    return rc


if __name__ == "__main__":
    sys.exit(main())
