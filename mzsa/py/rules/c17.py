"""C17 — C ABI shim: null discipline, no Rust enum by value from C, stream kind / allocator rejection, accounting identities,
discriminant agreement (structural clauses)."""
import paths
import slices
import termeval
from mir import callee_name
from terms import ISet, Facts, tstr, pstr, is_const, const_val
from rules.util import *

SINKS = ("slice::raw::from_raw_parts", "slice::raw::from_raw_parts_mut", "from_raw_parts", "from_raw_parts_mut", "ptr::write", "ptr::read",
         "copy_nonoverlapping", "ptr::copy", "Box::<T>::from_raw", "boxed::Box::<T>::from_raw", "::add", "::offset", "::sub", "CStr::from_ptr")
INLINE = ["tdef::Compressor::reset", "lib_oxide::invalid_window_bits", "as_c_return_code"]


def extern_fns(c, exported_only=True):
    return [f for f in c.fns.values() if f.kind in ("fn",) and str(f.j.get("abi", "")).startswith("C") and
            (f.j.get("no_mangle") or not exported_only)]


def is_sink(name):
    return any(name.endswith(s) or (s.startswith("::") and name.endswith(s)) for s in SINKS) and \
        (name.startswith(("core::", "std::", "alloc::")) or "ptr::" in name or "slice::" in name)


def ptr_params(f):
    out = {}
    for i, tk in enumerate(f.j.get("inputs_tk", []), start=1):
        if tk.get("k") == "rawptr":
            out[i] = ("raw", f.local_name(i) or "arg%d" % i, tk.get("to"))
        elif tk.get("k") == "adt" and tk.get("path", "").endswith("option::Option") and tk.get("args") and tk["args"][0].startswith("&"):
            out[i] = ("optref", f.local_name(i) or "arg%d" % i, tk["args"][0])
    return out


def facts_at(row, n):
    fx = Facts()
    for a, s in row.atoms[:n]:
        fx.constrain(a, s)
    return fx


def nonnull_known(fx, k):
    """is parameter k known to be non-null under facts fx"""
    p = P(k)
    if fx.get(("pure", "is_null", (p,))).single() == 0:
        return True
    for t, s in list(fx.c.items()):
        # (p as usize) != 0 style tests
        if t[0] == "cast" and t[1] == p and not s.contains(0):
            return True
    return False


def aliases(t, k):
    """is term t the raw pointer parameter k itself, a cast of it, or an offset computed from it"""
    while True:
        if t == P(k):
            return True
        if t[0] == "cast":
            t = t[1]
            continue
        if t[0] == "call" and t[1].endswith(("::add", "::offset", "::sub", "::cast", "::cast_mut", "::cast_const", "::wrapping_add")) and t[2]:
            t = t[2][0]
            continue
        return False


PTR_ARGS = {"from_raw_parts": (0,), "from_raw_parts_mut": (0,), "write": (0,), "read": (0,), "copy_nonoverlapping": (0, 1), "copy": (0, 1),
            "from_raw": (0,), "add": (0,), "offset": (0,), "sub": (0,), "from_ptr": (0,)}


def rule_null_discipline(ctx, r, robs):
    c = ctx.crate("CAPI")
    mo = ctx.crate("CAPI", "miniz_oxide")
    fns = extern_fns(c)
    if len(fns) < 30:
        r.fail("<crate>", "extern-count", "only %d extern \"C\" functions found (reference tree: 38)" % len(fns))
    for f in sorted(fns, key=lambda g: g.name):
        ctx.touched(f)
        pp = ptr_params(f)
        if not pp:
            r.ok(f.name, "no-pointer-params", None)
            continue
        ev = paths.Evaluator(c, extra_crates=[mo], inline=INLINE, max_paths=6000)
        try:
            rows = ev.run(f)
        except paths.PathLimit:
            r.fail(f.name, "path-limit", "too many paths to analyse (fail closed)")
            continue
        problems = {}
        for x in rows:
            # --- uses through sinks and stores
            for e in x.effects:
                if e[0] == "call":
                    name = e[1]
                    n_at = e[6] if len(e) > 6 else len(x.atoms)
                    fx = None
                    for k, (kind, pname, _) in pp.items():
                        if kind != "raw":
                            continue
                        used = False
                        if is_sink(name):
                            pos = PTR_ARGS.get(name.split("::")[-1], tuple(range(len(e[2]))))
                            used = any(aliases(e[2][i], k) for i in pos if i < len(e[2]))
                        elif name.endswith(("::unwrap", "::expect")) and e[2] and \
                                paths.term_contains(e[2][0], lambda y: y[0] == "call" and y[1].endswith(("::as_mut", "::as_ref")) and y[2] and y[2][0] == P(k)):
                            used = True
                        if used:
                            fx = fx or facts_at(x, n_at)
                            if not nonnull_known(fx, k):
                                # "length == 0 => unused" idiom is path-sensitive: the sink is only reached with len != 0 after a
                                # (len > 0 && is_null) early return; that shows up as the non-null fact, so nothing else to do here
                                problems.setdefault((pname, name.split("::")[-1]), e[3])
                elif e[0] == "store":
                    root = paths.root_of(e[1])
                    for k, (kind, pname, _) in pp.items():
                        if kind == "raw" and root == ("deref", P(k)):
                            fx = facts_at(x, e[4] if len(e) > 4 else len(x.atoms))
                            if not nonnull_known(fx, k):
                                problems.setdefault((pname, "write-through"), e[3])
            # --- loads through the raw pointer
            terms = [a for a, s in x.atoms] + [q for e in x.effects if e[0] == "call" for q in e[2]] + [e[2] for e in x.effects if e[0] == "store"]
            if x.ret is not None:
                terms.append(x.ret)
            for k, (kind, pname, _) in pp.items():
                if kind != "raw":
                    continue
                for t in terms:
                    if paths.term_contains(t, lambda y: y[0] == "load" and paths.root_of(y[1]) == ("deref", P(k))):
                        if not nonnull_known(x.facts, k):
                            problems.setdefault((pname, "read-through"), None)
            # --- Option<&mut T> parameters: unwrap/expect
            if x.outcome[0] == "diverge":
                for k, (kind, pname, _) in pp.items():
                    if kind == "optref":
                        d = vs(x, ("discr", P(k)))
                        if d.contains(0) and any(e[0] == "call" and e[1].endswith(("unwrap_failed", "expect_failed")) for e in x.effects[-2:]):
                            problems.setdefault((pname, "unwrap"), None)
        for k, (kind, pname, _) in pp.items():
            mine = [(u, sp) for (pn, u), sp in problems.items() if pn == pname]
            if not mine:
                r.ok(f.name, "param=%s" % pname, "pointer parameter `%s` is only used under a non-null fact" % pname)
            for u, sp in mine:
                r.fail(f.name, "param=%s|use=%s" % (pname, u), "pointer parameter `%s` is used (%s) on a path that has not established it is "
                       "non-null: a NULL from C crashes instead of returning an error code" % (pname, u), sp)
    ctx.extra["extern_c_functions"] = len(fns)


def rule_enum_params(ctx, r):
    c = ctx.crate("CAPI")
    for f in sorted(extern_fns(c), key=lambda g: g.name):
        for i, tk in enumerate(f.j.get("inputs_tk", []), start=1):
            if tk.get("k") == "adt":
                a = c.adts.get(tk["path"])
                if a and a["kind"] == "enum" and all(not v["fields"] for v in a["variants"]):
                    r.fail(f.name, "param=%s|enum=%s" % (f.local_name(i) or i, tk["path"].split("::")[-1]),
                           "parameter `%s` takes the Rust enum %s by value from C: an integer outside its %d discriminants is undefined "
                           "behaviour, not an error code" % (f.local_name(i) or i, tk["path"].split("::")[-1], len(a["variants"])), f.span)
                    continue
        r.ok(f.name, "params", None)


def rule_stream_kind(ctx, r):
    c = ctx.crate("CAPI")
    mo = ctx.crate("CAPI", "miniz_oxide")
    # try_new
    f = c.fn("StreamOxide::<'io, ST>::try_new", required=False) or c.fn("try_new")
    ctx.touched(f)
    ev = paths.Evaluator(c, extra_crates=[mo])
    nerr = nok = 0
    for x in ev.run(f):
        if x.outcome[0] != "return":
            continue
        k, p = result_variant(x.ret)
        dt = za = zf = None
        for a, s in x.atoms:
            if a[0] == "bin" and a[1] in ("Ne", "Eq") and paths.term_contains(a, lambda y: y[0] == "fld" and y[2] == "data_type"):
                v = s.single()
                dt = v if a[1] == "Ne" else (None if v is None else 1 - v)
            if a[0] == "call" and a[1].endswith(("PartialEq::ne", "PartialEq::eq")) and paths.term_contains(a, lambda y: y[0] == "fld" and y[2] == "data_type") \
                    and paths.term_contains(a, lambda y: y[0] == "constitem" and y[1].endswith("STATE_TYPE")):
                v = s.single()
                dt = v if a[1].endswith("::ne") else (None if v is None else 1 - v)
            if paths.term_contains(a, lambda y: y[0] == "fld" and y[2] == "zalloc"):
                za = s.single() if a[0] != "un" else None
                if a[0] == "bin" and a[1] == "Eq":
                    za = s.single()
            if paths.term_contains(a, lambda y: y[0] == "fld" and y[2] == "zfree"):
                if a[0] == "bin" and a[1] == "Eq":
                    zf = s.single()
        if k == "Err":
            nerr += 1
            if is_enum(p, "Param") and (dt == 1 or za == 1 or zf == 1) and not param_stores(x):
                r.ok(f.name, "reject-row", "Err(Param) for a stream of the other kind or with custom allocators, stream untouched")
            else:
                r.fail(f.name, "reject-row", "try_new rejects with %s outside (wrong kind ∨ zalloc ∨ zfree) or touches the stream: %s" % (tstr(p), x.describe(8)))
        elif k == "Ok":
            nok += 1
            if dt == 0 and za == 0 and zf == 0:
                r.ok(f.name, "accept-row", None)
            else:
                r.fail(f.name, "accept-row", "try_new accepts a stream without checking kind and allocators (kind mismatch=%r zalloc=%r zfree=%r)" % (dt, za, zf))
            # slices are built from (next_in, avail_in) / (next_out, avail_out) under non-null tests
            for e in x.effects:
                if e[0] == "call" and is_sink(e[1]) and "from_raw_parts" in e[1]:
                    ptr, ln = e[2]
                    pf = [st[1][2] for st in paths.subterms(ptr) if st[0] == "load" and st[1][0] == "fld"]
                    lf = [st[1][2] for st in paths.subterms(ln) if st[0] == "load" and st[1][0] == "fld"]
                    pair = (pf[:1], lf[:1])
                    if pair not in ((["next_in"], ["avail_in"]), (["next_out"], ["avail_out"])):
                        r.fail(f.name, "slice-pair", "a stream slice is built from mismatched fields %s" % (pair,))
                    fx = facts_at(x, e[6])
                    if fx.get(("pure", "is_null", (ptr,))).single() != 0:
                        r.fail(f.name, "slice-null", "slice built from %s without a null test" % pf[:1])
    if nerr < 3 or nok < 1:
        r.fail(f.name, "rows", "try_new decision table incomplete (%d rejecting, %d accepting rows)" % (nerr, nok))
    # the oxidize! wrappers: null stream -> MZError::Stream; everything else through try_new inside catch_unwind
    ME = discrs(mo, "MZError")
    n = 0
    for g in extern_fns(c):
        ins = g.j.get("inputs", [])
        if not ins or "mz_stream" not in ins[0] or g.name in ("mz_deflateBound",):
            continue
        ev = paths.Evaluator(c, extra_crates=[mo], inline=INLINE)
        rows = ev.run(g)
        uses_catch = any(calls_named(x, "std::panic::catch_unwind", "panic::catch_unwind") for x in rows)
        direct = [x for x in rows if any(e[0] == "call" and ("lib_oxide::" in e[1]) for e in x.effects)]
        null_ok = False
        for x in rows:
            am = [e for e in x.effects if e[0] == "call" and e[1].endswith("::as_mut") and e[2] and e[2][0] == P(1)]
            if am and vs(x, ("discr", call_res(am[0]))).single() == 0 and x.outcome[0] == "return":
                null_ok = is_const(x.ret) and const_val(x.ret) == ME["Stream"]
        if not uses_catch and not direct:
            continue
        n += 1
        if null_ok and uses_catch and not direct:
            r.ok(g.name, "wrapper", "NULL stream -> MZ_STREAM_ERROR; body runs inside catch_unwind through StreamOxide::try_new")
        else:
            r.fail(g.name, "wrapper", "stream wrapper: null->Stream %s, catch_unwind %s, direct oxide call outside the guard %s" % (null_ok, uses_catch, bool(direct)))
    if n < 5:
        r.fail("<crate>", "wrappers", "%d stream wrappers recognised (reference tree: 5 oxidize! expansions + init functions)" % n)
    # closures of the wrappers reach the oxide layer only after try_new returned Ok
    for cl in [h for h in c.fns.values() if h.kind == "closure" and h.parent and c.fns.get(h.parent) in extern_fns(c)]:
        ev = paths.Evaluator(c, extra_crates=[mo], inline=INLINE)
        for x in ev.run(cl):
            ox = [e for e in x.effects if e[0] == "call" and "lib_oxide::mz_" in e[1]]
            tn = [e for e in x.effects if e[0] == "call" and e[1].endswith("::try_new")]
            own = [e for e in x.effects if e[0] == "call" and e[1].endswith("StreamOxide<'io, ST>>::new") or
                   (e[0] == "call" and e[1].endswith("::new") and "StreamOxide" in e[1])]
            if ox and own and own[0][4] < ox[0][4] and own[0][2][0][0] == "ref" and paths.root_of(own[0][2][0][1])[0] == "local":
                # one-shot helpers build the mz_stream themselves (right kind, no allocators) and wrap it with StreamOxide::new
                built = [v for v in x.store.values() if isinstance(v, tuple) and v and v[0] == "agg" and v[1].endswith("mz_stream")]
                r.ok(cl.name, "own-stream", "oxide function called on a stream built locally by the helper")
                continue
            if ox:
                if tn and tn[0][4] < ox[0][4] and vs(x, ("discr", call_res(tn[0]))).single() == 0:
                    im = [e for e in x.effects if e[0] == "call" and e[1].endswith("into_mz_stream")]
                    if im:
                        r.ok(cl.name, "via-try_new", "oxide function called only after try_new() == Ok; stream written back with into_mz_stream")
                    else:
                        r.fail(cl.name, "writeback", "stream state is not written back after the oxide call")
                else:
                    r.fail(cl.name, "via-try_new", "an oxide stream function is reached without a successful StreamOxide::try_new")


def rule_accounting(ctx, r):
    c = ctx.crate("CAPI")
    mo = ctx.crate("CAPI", "miniz_oxide")
    for fname, call, statefn in (("lib_oxide::mz_deflate_oxide", "deflate::stream::deflate", "adler32"),
                                 ("lib_oxide::mz_inflate_oxide", "inflate::stream::inflate", "adler32")):
        f = c.fn(fname)
        ctx.touched(f)
        ev = paths.Evaluator(c, extra_crates=[mo])
        n = 0
        for x in ev.run(f):
            cs = calls_named(x, call)
            if not cs or x.outcome[0] != "return":
                continue
            n += 1
            res = call_res(cs[0])

            def fldv(name):
                return ("field", res, name)
            st_in = [e for e in x.stores() if e[1][0] == "fld" and e[1][2] == "total_in"]
            st_out = [e for e in x.stores() if e[1][0] == "fld" and e[1][2] == "total_out"]
            st_ad = [e for e in x.stores() if e[1][0] == "fld" and e[1][2] == "adler"]

            def is_wadd(v, fieldname, cnt):
                return v[0] == "pure" and v[1] == "wrapping_add" and any(paths.is_load_of(q, fieldname) for q in v[2]) and \
                    any(q == fldv(cnt) or (q[0] == "cast" and q[1] == fldv(cnt)) for q in v[2])
            ok_tot = st_in and st_out and is_wadd(st_in[-1][2], "total_in", "bytes_consumed") and is_wadd(st_out[-1][2], "total_out", "bytes_written")
            # the two slices stored back are the old ones from the returned count to their end, however the slicing is spelled
            offs = []
            for e in x.stores():
                reg = slices.region(e[2], store=x.store) if isinstance(e[2], tuple) else None
                if reg is None or reg.off == (0, {}) or slices.strip(e[2]) == reg.root:
                    continue
                if slices.ladd(reg.off, reg.length) == (0, {("len", reg.root): 1}):
                    offs.append(reg.off)
            amts = sorted(str(o) for o in offs)
            ok_adv = len(offs) == 2 and sorted(amts) == sorted(str(slices.lin(fldv(n_))) for n_ in ("bytes_consumed", "bytes_written"))
            ok_ad = bool(st_ad) and paths.term_contains(st_ad[-1][2], lambda y: y[0] == "call" and y[1].split("::")[-1] == statefn and y[4 - 1] > cs[0][4])
            if ok_tot and ok_adv and ok_ad:
                r.ok(f.name, "accounting", "next_in/next_out advanced by, and total_in/total_out wrapping-added with, exactly the counts returned; adler refreshed afterwards")
            else:
                r.fail(f.name, "accounting", "stream accounting identities broken (totals %s, advances %s = %s, adler refresh %s)" % (bool(ok_tot), ok_adv, amts, ok_ad))
        if n == 0:
            r.fail(f.name, "accounting", "no path calls %s" % call)
        # forwarding: a call that is not handed to the Rust API is refused only for a missing stream part or an invalid flush
        # value (an Option / Result discriminant) — never depending on buffer lengths, contents or a valid flush value
        for x in ev.rows:
            if x.outcome[0] != "return" or calls_named(x, call):
                continue
            other = [a for a, s in x.atoms if a[0] != "discr"]
            is_err = x.ret is not None and ((x.ret[0] == "agg" and x.ret[2] == "Err") or
                                            (x.ret[0] in ("call", "pure") and "FromResidual" in str(x.ret[1])))
            if not other and is_err:
                r.ok(f.name, "forwarding", "early exits depend only on a missing stream part / invalid flush and return an error")
            else:
                r.fail(f.name, "forwarding", "%s can return %s without calling %s on a path that tests %s: for those arguments the C call "
                       "does not do what the Rust call does" % (fname.split("::")[-1], tstr(x.ret)[:60] if x.ret else "?", call.split("::")[-1],
                                                                [tstr(a)[:80] for a in other][:3]), where=first_span(x), path=row_path(x))
    # try_new: the slices handed to the Rust layer are the caller's own (pointer, count) pairs — so that what into_mz_stream writes
    # back (slice pointer / length after the call) is the caller's pointer advanced by the bytes used
    tn = [g for g in c.fns.values() if g.name.endswith("::try_new") and "StreamOxide" in g.name and g.kind != "promoted"]
    if len(tn) != 1:
        r.fail("StreamOxide::try_new", "slices", "StreamOxide::try_new not found (%d candidates)" % len(tn))
    else:
        g = tn[0]
        ctx.touched(g)
        nrow = 0
        for x in paths.Evaluator(c, extra_crates=[mo]).run(g):
            if x.outcome[0] != "return" or not x.ret or x.ret[0] != "agg" or x.ret[2] != "Ok":
                continue
            so = x.ret[4][0]
            if not (so and so[0] == "agg" and so[1].endswith("StreamOxide")):
                r.fail(g.name, "slices", "try_new returns %s" % tstr(so)[:80])
                continue
            d = dict(zip(so[3], so[4]))
            nrow += 1
            for fieldname, maker, cnt in (("next_in", "from_raw_parts", "avail_in"), ("next_out", "from_raw_parts_mut", "avail_out")):
                v = d.get(fieldname)
                isnull = [sset.single() for a, sset in x.atoms if a[0] in ("pure", "call") and "is_null" in str(a[1]) and
                          paths.term_contains(a, lambda y: y[0] == "fld" and y[2] == fieldname)]
                good = False
                if v and v[0] == "agg" and v[2] == "None":
                    good = bool(isnull) and isnull[-1] == 1
                elif v and v[0] == "agg" and v[2] == "Some":
                    pl = v[4][0]
                    while pl[0] == "ref" and isinstance(pl[1], tuple) and pl[1] and pl[1][0] == "deref":       # reborrow &*x
                        pl = pl[1][1]
                    if pl[0] == "call" and pl[1].endswith("slice::" + maker) or (pl[0] == "call" and pl[1].endswith(maker)):
                        a0, a1 = pl[2][0], pl[2][1]
                        while a1[0] == "cast":
                            a1 = a1[1]
                        good = paths.is_load_of(a0, fieldname) and paths.is_load_of(a1, cnt) and bool(isnull) and isnull[-1] == 0
                if good:
                    r.ok(g.name, "slices:" + fieldname, "%s = None iff the pointer is NULL, else %s(stream.%s, stream.%s)" % (fieldname, maker, fieldname, cnt))
                else:
                    r.fail(g.name, "slices:" + fieldname, "try_new builds StreamOxide.%s as %s: not the caller's own (pointer, count) pair, so the pointer "
                           "written back after the call is not the caller's pointer advanced by the bytes used" % (fieldname, tstr(v)[:100] if v else None),
                           where=first_span(x), path=row_path(x, 6))
        if nrow < 4:
            r.fail(g.name, "slices-rows", "expected 4 successful rows of try_new (pointer NULL / non-NULL on each side), found %d" % nrow)
    # into_mz_stream: pointer and count come from the same slice
    f = c.fn("into_mz_stream")
    ctx.touched(f)
    ev = paths.Evaluator(c, extra_crates=[mo], max_paths=4000)
    rows = [x for x in ev.run(f) if x.outcome[0] == "return"]
    good = bool(rows)
    why = ""

    def closure_kind(cl):
        """'ptr' | 'len' | None for the map_or closures"""
        cf = c.fns.get(cl)
        if cf is None:
            return None
        ev2 = paths.Evaluator(c, extra_crates=[mo])
        kinds = set()
        for y in ev2.run(cf):
            if y.outcome[0] != "return" or y.ret is None:
                continue
            if paths.term_contains(y.ret, lambda q: q[0] == "call" and q[1].endswith(("::as_ptr", "::as_mut_ptr"))):
                kinds.add("ptr")
            elif paths.term_contains(y.ret, lambda q: q[0] == "len"):
                kinds.add("len")
            else:
                kinds.add("?")
        return kinds.pop() if len(kinds) == 1 else None
    for x in rows:
        ret = ret_agg(x, "mz_stream")
        if not ret:
            good, why = False, "no mz_stream aggregate returned"
            continue
        d = dict(zip(ret[3], ret[4]))

        def src_of(v):
            """(option field the map_or is applied to, closure kind, default)"""
            if v[0] == "cast":
                v = v[1]
            if not (v[0] == "call" and v[1].endswith("map_or")):
                return None
            opt, dflt, clo = v[2]
            fieldname = None
            for st in paths.subterms(opt):
                if st[0] == "field" and st[1] == P(1):
                    fieldname = st[2]
                if st[0] == "fld" and st[2] in ("next_in", "next_out"):
                    fieldname = st[2]
            return fieldname, closure_kind(clo[1]) if clo[0] == "closure" else None, dflt
        def direct(ptrv, cntv, fieldname):
            """explicit form (match / if let on the Option): both values come from the same Some payload of `fieldname`, or are null / 0"""
            def strip(t):
                while t and t[0] == "cast":
                    t = t[1]
                return t
            pv, cv = strip(ptrv), strip(cntv)
            if pv[0] in ("call", "pure") and str(pv[1]).split("::")[-1] in ("null", "null_mut") and is_const(cv) and const_val(cv) == 0:
                return True
            if pv[0] == "call" and pv[1].endswith(("::as_ptr", "::as_mut_ptr")) and cv[0] == "len":
                def payload(t):
                    return [st for st in paths.subterms(t) if st and st[0] in ("field", "fld") and "as Some" in str(st[2])]
                pp, cp = payload(pv), payload(cv)
                def base(t):
                    # the Option the payload was taken from, without epochs
                    return pstr(t[1]) if t[0] == "fld" else tstr(t[1])
                if pp and cp and base(pp[0]) == base(cp[0]) and (fieldname in base(pp[0]) or "as_mut" in base(pp[0])):
                    return True
            return False
        def pair_form(ptrv, cntv, fieldname):
            """(ptr, count) taken as the two components of ONE map_or((null, 0), |s| (s.as_ptr(), s.len() as c_uint)) on `fieldname`"""
            def strip(t):
                while t and t[0] == "cast":
                    t = t[1]
                return t
            pv, cv = strip(ptrv), strip(cntv)
            if not (pv[0] == "field" and cv[0] == "field" and pv[1] == cv[1] and str(pv[2]) == "0" and str(cv[2]) == "1"):
                return False
            m = pv[1]
            if not (m[0] == "call" and m[1].endswith("map_or") and len(m[2]) == 3):
                return False
            opt, dflt, clo = m[2]
            if not any((st[0] == "field" and st[1] == P(1) and st[2] == fieldname) or (st[0] == "fld" and st[2] == fieldname) for st in paths.subterms(opt)):
                return False
            if not (dflt[0] == "tuple" and len(dflt[1]) == 2 and dflt[1][0][0] in ("call", "pure") and str(dflt[1][0][1]).split("::")[-1] in ("null", "null_mut")
                    and is_const(dflt[1][1]) and const_val(dflt[1][1]) == 0):
                return False
            cf = c.fns.get(clo[1]) if clo[0] == "closure" else None
            if cf is None:
                return False
            okc = False
            for y in paths.Evaluator(c, extra_crates=[mo]).run(cf):
                if y.outcome[0] != "return" or not y.ret or y.ret[0] != "tuple" or len(y.ret[1]) != 2:
                    return False
                p0, n0 = strip(y.ret[1][0]), strip(y.ret[1][1])
                if not (p0[0] == "call" and p0[1].endswith(("::as_ptr", "::as_mut_ptr")) and n0[0] == "len"):
                    return False
                # both derive from the closure's argument
                okc = paths.term_contains(p0, lambda q: q == P(2)) and paths.term_contains(n0, lambda q: q == P(2))
            return okc
        for ptrf, cntf in (("next_in", "avail_in"), ("next_out", "avail_out")):
            if pair_form(d[ptrf], d[cntf], ptrf):
                continue
            a, b = src_of(d[ptrf]), src_of(d[cntf])
            if a or b:
                if not a or not b or a[0] != ptrf or b[0] != ptrf or a[1] != "ptr" or b[1] != "len" or not (is_const(b[2]) and const_val(b[2]) == 0):
                    good, why = False, "%s/%s are derived from %s / %s" % (ptrf, cntf, a, b)
            elif not direct(d[ptrf], d[cntf], ptrf):
                good, why = False, "%s/%s are %s / %s: not the pointer and length of the same slice (or NULL / 0)" % (ptrf, cntf, tstr(d[ptrf])[:60], tstr(d[cntf])[:60])
        for nm in ("total_in", "total_out"):
            v = d.get(nm)
            if not (v == ("field", P(1), nm) or (v and v[0] == "load" and v[1][0] == "fld" and v[1][2] == nm and v[1][1] == ("local", 0, 1))):
                good, why = False, "%s is not copied back" % nm
        for nm in ("zalloc", "zfree"):
            if not (d.get(nm) and d[nm][0] == "agg" and d[nm][2] == "None"):
                good, why = False, "%s is not cleared" % nm
    if good:
        r.ok(f.name, "writeback", "next_* / avail_* derive from the same Option slice (as_ptr / len, NULL / 0 when absent); totals copied; allocators cleared")
    else:
        r.fail(f.name, "writeback", "into_mz_stream does not write back pointer/count pairs from the same slices: %s" % why)


def rule_discriminants(ctx, r):
    c = ctx.crate("CAPI")
    mo = ctx.crate("CAPI", "miniz_oxide")
    # From impls preserve numeric values
    for f in c.fns.values():
        if f.kind != "assoc" or not f.name.endswith("::from") or "convert::From<" not in f.name:
            continue
        src_ty = f.j["inputs"][0] if f.j.get("inputs") else ""
        dst_ty = f.j.get("output", "")
        sa = c.adts.get(f.j["inputs_tk"][0].get("path", "")) or mo.adts.get(f.j["inputs_tk"][0].get("path", "")) if f.j.get("inputs_tk") else None
        da = c.adts.get(f.j["output_tk"].get("path", "")) or mo.adts.get(f.j["output_tk"].get("path", ""))
        if not sa or not da or sa["kind"] != "enum" or da["kind"] != "enum":
            continue
        ev = paths.Evaluator(c, extra_crates=[mo])
        sd = {int(v["discr"]): v["name"] for v in sa["variants"]}
        dd = {v["name"]: int(v["discr"]) for v in da["variants"]}
        bad = []
        n = 0
        for x in ev.run(f):
            if x.outcome[0] != "return" or x.ret[0] != "enum":
                continue
            for v in vs(x, ("discr", P(1))).values() if vs(x, ("discr", P(1))).size() < 64 else []:
                n += 1
                if v in sd and x.ret[3] != v and not x.ret[2].upper().endswith(("UNKNOWN",)):
                    bad.append((sd[v], v, x.ret[2], x.ret[3]))
        if bad:
            r.fail(f.name, "from", "conversion changes the numeric status value: %s" % bad[:3])
        elif n:
            r.ok(f.name, "from", "%d variants converted value-preservingly (%s -> %s)" % (n, src_ty.split("::")[-1], dst_ty.split("::")[-1]))
    # enums returned as c_int by `as` casts: C constants equal the Rust discriminants (by definition of the cast); record the tables
    for en in ("MZError", "MZStatus", "MZFlush"):
        r.ok("miniz_oxide::" + en, "table", "%s" % discrs(mo, en))


def rule_param_validation(ctx, r):
    import configfn
    c = ctx.crate("CAPI")
    mo = ctx.crate("CAPI", "miniz_oxide")
    f = c.fn("lib_oxide::mz_deflate_init2_oxide")
    ctx.touched(f)
    ev = paths.Evaluator(c, extra_crates=[mo], inline=["lib_oxide::invalid_window_bits"])
    rows = [x for x in ev.run(f) if x.outcome[0] == "return"]
    names = ["s", "level", "method", "window_bits", "mem_level", "strategy"]

    def leaf(t):
        if t[0] == "param":
            return names[t[1] - 1]
        if t[0] == "call" and t[1].endswith("::contains") and len(t[2]) == 2:
            # RangeInclusive::contains(&(lo..=hi), &item): bounds taken from the (promoted) range constant
            rng, item = t[2]
            agg = None
            for st in paths.subterms(rng):
                if st[0] == "agg" and st[1].endswith("RangeInclusive"):
                    agg = st
            it = None
            if item[0] == "ref" and item[1][0] == "local":
                it = names[item[1][2] - 1] if 1 <= item[1][2] <= len(names) else None
            if agg is not None and it and is_const(agg[4][0]) and is_const(agg[4][1]):
                return "int(%d <= %s <= %d)" % (const_val(agg[4][0]), it, const_val(agg[4][1]))
        raise termeval.Unsupported(tstr(t))
    comp = []
    try:
        for x in rows:
            k, p = result_variant(x.ret)
            # only atoms over the integer parameters
            parts = []
            for a, s in x.atoms:
                e = termeval.compile_term(a, leaf)
                parts.append("(" + " or ".join("(%s) == %d" % (e, lo) for lo, hi in s.iv if lo == hi) + ")" if all(lo == hi for lo, hi in s.iv) else
                             "(" + termeval.row_condition(type("R", (), {"atoms": [(a, s)]})(), leaf) + ")")
            comp.append((termeval.make_fn(" and ".join(parts) or "True", names), k, p))
    except termeval.Unsupported as e:
        r.fail(f.name, "compile", "cannot evaluate the parameter checks: %s" % e)
        return
    bad = None
    n = 0
    for method in range(-2, 12):
        for wb in range(-20, 21):
            for ml in range(-2, 13):
                n += 1
                hits = [(k, p) for fnc, k, p in comp if fnc(0, 6, method, wb, ml, 0)]
                want_err = method != 8 or not (1 <= ml <= 9) or abs(wb) != 15
                if len(hits) != 1 or (hits[0][0] == "Err") != want_err or (want_err and not is_enum(hits[0][1], "Param")):
                    bad = bad or (method, wb, ml, [(k, tstr(p)) for k, p in hits])
    if bad:
        r.fail(f.name, "validation", "mz_deflateInit2(method=%d, window_bits=%d, mem_level=%d) -> %s; expected Err(Param) iff method != 8 ∨ "
               "mem_level ∉ 1..=9 ∨ |window_bits| != 15" % bad)
    else:
        r.ok(f.name, "validation", "%d (method, window_bits, mem_level) combinations: Err(Param) iff method != 8 ∨ mem_level ∉ 1..=9 ∨ |window_bits| != 15" % n)
    # no state is installed on the error rows
    for x in rows:
        k, p = result_variant(x.ret)
        if k == "Err" and param_stores(x):
            r.fail(f.name, "error-touches-stream", "an Err(Param) row modifies the stream: %s" % [pstr(e[1]) for e in param_stores(x)])
    g = c.fn("lib_oxide::mz_inflate_init2_oxide")
    ev = paths.Evaluator(c, extra_crates=[mo], inline=["lib_oxide::invalid_window_bits"])
    names2 = ["s", "window_bits"]

    def leaf2(t):
        if t[0] == "param":
            return names2[t[1] - 1]
        raise termeval.Unsupported(tstr(t))
    comp2 = []
    try:
        for x in ev.run(g):
            if x.outcome[0] != "return":
                continue
            k, p = result_variant(x.ret)
            comp2.append((termeval.make_fn(termeval.row_condition(x, leaf2), names2), k, p, bool(param_stores(x))))
    except termeval.Unsupported as e:
        r.fail(g.name, "compile", "cannot evaluate the window_bits check: %s" % e)
        return
    bad = None
    for wb in range(-64, 65):
        hits = [(k, p, st) for fnc, k, p, st in comp2 if fnc(0, wb)]
        want_err = abs(wb) != 15
        if len(hits) != 1 or (hits[0][0] == "Err") != want_err or (want_err and (not is_enum(hits[0][1], "Param") or hits[0][2])):
            bad = bad or (wb, [(k, tstr(p)) for k, p, _ in hits])
    if bad:
        r.fail(g.name, "validation", "mz_inflateInit2(window_bits=%d) -> %s; expected Err(Param) without touching the stream iff |window_bits| != 15" % bad)
    else:
        r.ok(g.name, "validation", "window_bits in -64..=64: Err(Param) iff |window_bits| != 15, stream untouched on error")



def rule_raw_copies(ctx, r):
    """R17.7: a raw copy into a caller-described buffer (`ptr::copy_nonoverlapping(src, S.buf.add(off), n)`) is preceded, on the same
    path, by a test that establishes off + n <= S.capacity — with the capacity value in force at the copy (after a reallocation: the
    new capacity).  The C caller's declared length is the only thing standing between these copies and its memory."""
    c = ctx.crate("CAPI")
    mo = ctx.crate("CAPI", "miniz_oxide")
    n_sites = 0
    for f in sorted(c.fns.values(), key=lambda g: g.name):
        if f.kind == "promoted":
            continue
        if not any(("copy_nonoverlapping" in callee_name(t["call"]) or callee_name(t["call"]).endswith(("ptr::copy", "ptr::write_bytes")))
                   for _, t in f.calls()):
            continue
        ctx.touched(f)
        ev = paths.Evaluator(c, extra_crates=[mo], unroll=2)
        for x in ev.run(f):
            for i, e in enumerate(x.effects):
                if not (e[0] == "call" and ("copy_nonoverlapping" in e[1] or e[1].endswith(("ptr::copy", "ptr::write_bytes")))):
                    continue
                n_sites += 1
                dst, cnt = e[2][1], e[2][2]
                if not (dst[0] == "call" and dst[1].endswith("::add") and len(dst[2]) == 2):
                    r.fail(f.name, "raw-copy", "destination of a raw copy is not `base.add(offset)` of a described buffer: %s" % tstr(dst)[:120], e[3])
                    continue
                base, off = dst[2]
                # the structure describing the buffer: the place whose `buf` field holds `base`
                S = None
                if base[0] == "load" and base[1][0] == "fld" and base[1][2] == "buf":
                    S = base[1][1]
                for e2 in x.effects[:i]:
                    if e2[0] == "store" and e2[1][0] == "fld" and e2[1][2] == "buf" and e2[2] == base:
                        S = e2[1][1]
                    elif e2[0] == "store" and e2[1][0] == "fld" and e2[1][2] == "buf" and isinstance(e2[2], tuple) and e2[2][0] == "cast" and e2[2][1] == base:
                        S = e2[1][1]
                if S is None:
                    r.fail(f.name, "raw-copy", "cannot tell which buffer descriptor the destination %s belongs to" % tstr(base)[:100], e[3])
                    continue
                cap = None
                for e2 in x.effects[:i]:
                    if e2[0] == "store" and e2[1][0] == "fld" and e2[1][1] == S and e2[1][2] == "capacity":
                        cap = e2[2]
                need = slices.ladd(slices.lin(off), slices.lin(cnt))
                good = False
                for lhs, rel, rhs in rels(x):
                    if rel not in ("Le", "Lt") or slices.lin(lhs) != need:
                        continue
                    if cap is not None:
                        good = good or slices.lin(rhs) == slices.lin(cap)
                    else:
                        good = good or (rhs[0] == "load" and rhs[1][0] == "fld" and rhs[1][1] == S and rhs[1][2] == "capacity")
                if good:
                    r.ok(f.name, "raw-copy", "copy of n bytes to buf + off under off + n <= capacity", e[3])
                else:
                    r.fail(f.name, "raw-copy", "raw copy of %s bytes to %s + %s is not guarded by offset + count <= capacity on this path: it can write past "
                           "the buffer the C caller described" % (tstr(cnt)[:40], tstr(base)[:40], tstr(off)[:40]), where=e[3], path=row_path(x, 8))
    if n_sites == 0:
        r.fail("<c api>", "raw-copy-sites", "no raw copy site found (reference tree: output_buffer_putter)")


def run(ctx):
    r1 = ctx.rule("R17.1", "null discipline: every use of a pointer parameter of an extern \"C\" function is covered by a non-null fact", floor=38, config="CAPI")
    robs = ctx.rule("R17.1o", "observations (outside the property's wording)", floor=None, config="CAPI")
    rule_null_discipline(ctx, r1, robs)
    r2 = ctx.rule("R17.2", "no field-less Rust enum crosses the boundary by value as a parameter", floor=38, config="CAPI")
    rule_enum_params(ctx, r2)
    r3 = ctx.rule("R17.3", "stream kind / allocators: wrappers reach the oxide layer only through try_new inside catch_unwind; NULL stream -> MZ_STREAM_ERROR", floor=8, config="CAPI")
    rule_stream_kind(ctx, r3)
    r4 = ctx.rule("R17.4", "parameter validation of the init functions over the quantifier's finite domain", floor=2, config="CAPI")
    rule_param_validation(ctx, r4)
    r5 = ctx.rule("R17.5", "accounting identities of mz_deflate / mz_inflate and of the stream write-back", floor=3, config="CAPI")
    rule_accounting(ctx, r5)
    r6 = ctx.rule("R17.6", "status / flush enums keep their numeric values across the boundary", floor=3, config="CAPI")
    rule_discriminants(ctx, r6)
    r7 = ctx.rule("R17.7", "raw copies into a caller-described buffer are guarded by offset + count <= capacity on every path", floor=2, config="CAPI")
    rule_raw_copies(ctx, r7)
    ctx.rules.remove(robs) if not robs.examined else None
