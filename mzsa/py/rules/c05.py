"""C05 — decoding arbitrary bytes is total (structural clauses)."""
from rules import inflate_core as ic


def run(ctx):
    cfgs = ["H1"] + (["T1"] if ctx.thorough() else [])
    for cfg in cfgs:
        sfx = "" if cfg == "H1" else "@" + cfg
        r1 = ctx.rule("R05.1" + sfx, "parameter validation: BadParam iff ring size not a power of two or out_pos > len, with no effect on state", floor=3, config=cfg)
        ic.rule_param_validation(ctx, cfg, r1)
        r3 = ctx.rule("R05.3" + sfx, "failure states are absorbing (once failed, every later call fails)", floor=3, config=cfg)
        ic.rule_failure_absorbing(ctx, cfg, r3)
        r4 = ctx.rule("R05.4" + sfx, "returned counts are (offered - left - undone, position - out_pos)", floor=4, config=cfg)
        r6 = ctx.rule("R05.4u" + sfx, "whole unread bytes are handed back on every non-starved exit", floor=4, config=cfg)
        ic.rule_counts_and_undo(ctx, cfg, r4, r6)
        from rules import c08
        r8 = ctx.rule("R05.8" + sfx, "no out-of-window write (slice index panic): bytes written on every path <= space verified", floor=12, config=cfg)
        c08.rule_write_budget(ctx, cfg, r8)
        r9 = ctx.rule("R05.6" + sfx, "bit-buffer discipline: no bit beyond num_bits decides the slow Huffman walk", floor=2, config=cfg)
        ic.rule_bit_reads(ctx, cfg, r9)
        r2 = ctx.rule("R05.2" + sfx, "panic-site census: every index into a fixed-size array on the decode path is proved in range or is in the reviewed residue", floor=3, config=cfg)
        ic.rule_panic_census(ctx, cfg, r2)
        from rules import copyrt
        r10 = ctx.rule("R05.10" + sfx, "match copy routines index inside the buffer: every shortcut of transfer / apply_match is guarded by the direction and "
                       "distance it assumes (a `pos - 1` / `source..source+3` access under the wrong guard is a slice-index panic in a ring buffer)", floor=10, config=cfg)
        copyrt.rule_copy_routines(ctx, cfg, r10)
    # the streaming wrapper: a failed stream stays failed (sticky last_status), also on the first-call Finish path
    from rules import c13
    c13.run_cfg(ctx, "H1", only=("R13.2", "R13.4", "R13.8"), prefix="R05.9/")
