"""R01.6 — the internal LZ token buffer: what the writers (record_literal, record_match, the inline writers of compress_fast, the
flag-byte helpers of LZOxide) lay down is what the reader (compress_lz_codes) takes up.

Protocol (as in miniz): tokens are grouped under a flag byte; every token shifts the flag byte right once and a match sets its top
bit, so that after N tokens the first token's bit is bit 0; a literal is one byte, a match three bytes (len-3, low byte of dist-1,
high byte of dist-1).  The reader ORs a sentinel above the flag byte, tests bit 0 and shifts once per token.

Decided here, from the path tables of both sides:
  writer  W1 every token is `write_code x1, flag >>= 1` (literal) or `write_code x3, flag >>= 1, flag |= MARK` (match), followed by
             exactly one consume_flag, with total_bytes advanced by the token's length;
          W2 the three match bytes are (L - 3) as u8, X as u8, (X >> 8) as u8 with X = distance - 1 (same X in both bytes);
          W3 consume_flag counts N tokens per flag byte and plants the next flag byte; init_flag right-aligns a partial flag byte by
             exactly the number of unused token slots (and drops an unused flag byte);
  reader  R1 a new flag byte is fetched exactly when the shifted flags equal 1, with sentinel S ORed in and the cursor advanced by one;
          R2 bit 0 decides match / literal and the flags are shifted right once per token;
          R3 a match reads len = buf[c], dist = buf[c+1] | buf[c+2] << 8 and advances the cursor by 3; a literal reads buf[c], by 1;
  both    S == 1 << N, MARK == 1 << (N - 1), shift amounts 1, high-byte shift 8 on both sides, offsets 3 / 1 = the table conventions.
The symbol tables themselves and "symbol counted = symbol emitted" are R01.1 / R10.1."""
import paths
from terms import ISet, tstr, pstr, is_const, const_val
from rules.util import *
from rules.tokens import uncast, flat_sum

WC = "LZOxide::write_code"
GF = "LZOxide::get_flag"
CF = "LZOxide::consume_flag"


def _flag_stores(x):
    """values stored through *get_flag(), in order"""
    out = []
    for e in x.effects:
        if e[0] == "store" and e[1][0] == "deref" and isinstance(e[1][1], tuple) and e[1][1] and e[1][1][0] == "call" and e[1][1][1].endswith(GF):
            out.append(e)
    return out


def _is_flag_load(t):
    t = uncast(t)
    return bool(t) and t[0] == "load" and t[1][0] == "deref" and isinstance(t[1][1], tuple) and t[1][1] and t[1][1][0] == "call" and t[1][1][1].endswith(GF)


def _flag_update(x, fs):
    """compose the stores through *get_flag() of one token and evaluate the result for every initial byte value:
    -> (shift, mark) such that new == ((old >> shift) | mark) & 0xFF for all old, or an error string"""
    import termeval
    fns = []
    first = []          # the load the first store reads: the byte's content before the token (same place term, same epoch)

    def key_of_load(q):
        q = uncast(q)
        return (q[1], q[2] if len(q) > 2 else None)
    for e in fs:
        def leaf(q):
            if _is_flag_load(q):
                if not first:
                    first.append(key_of_load(q))
                # a later store whose operand is still that first load was forwarded by the evaluator: it is already a function
                # of the initial content, not of the value left by the previous store
                return "init" if key_of_load(q) == first[0] else "cur"
            raise termeval.Unsupported(tstr(q))
        try:
            fns.append(termeval.make_fn(termeval.compile_term(e[2], leaf), ["init", "cur"]))
        except Exception as ex:
            return "the flag byte is updated by %s, which is not a function of the flag byte and constants" % tstr(e[2])[:80]
    def run(v):
        cur = v
        for g in fns:
            cur = g(v, cur) & 0xFF
        return cur
    mark = run(0)
    for sh in range(0, 8):
        if all(run(v) == ((v >> sh) | mark) & 0xFF for v in range(256)):
            return sh, mark
    return "the flag byte update is not `flag = (flag >> k) | m`"


def classify_token(x, events):
    """events: the effects between two consume_flag calls.  -> dict describing the token or an error string"""
    wc = [e for e in events if e[0] == "call" and e[1].endswith(WC)]
    fs = [e for e in events if e in _flag_stores(x)]
    if not wc and not fs:
        return None
    if not fs:
        return "a token is written without updating the flag byte"
    fu = _flag_update(x, fs)
    if isinstance(fu, str):
        return fu
    sh, mark = fu
    if len(wc) == 1 and mark == 0:
        return {"kind": "lit", "shift": sh, "bytes": [wc[0][2][1]]}
    if len(wc) == 3 and mark != 0:
        return {"kind": "match", "shift": sh, "mark": mark, "bytes": [e[2][1] for e in wc]}
    return "a token writes %d code byte(s) and %s the match bit: neither a literal (1 byte, bit clear) nor a match (3 bytes, bit set)" % (
        len(wc), "sets" if mark else "does not set")


def check_match_bytes(b):
    """(L - 3) as u8, X as u8, (X >> 8) as u8  ->  (len_off, X, hi_shift) or error string"""
    a0, a1, a2 = (uncast(q) for q in b)
    if not (a0[0] == "bin" and a0[1] == "Sub" and is_const(a0[3])):
        return "the first match byte %s is not `length - constant`" % tstr(b[0])[:80]
    if not (a2[0] == "bin" and a2[1] == "Shr" and is_const(a2[3]) and uncast(a2[2]) == a1):
        return "the third match byte %s is not the second byte's value %s shifted right" % (tstr(b[2])[:80], tstr(b[1])[:60])
    return const_val(a0[3]), a1, const_val(a2[3]), a0[2]


def rule_lz_buffer(ctx, cfg, r):
    c = ctx.crate(cfg)
    E = ctx.effects(cfg)
    W = {}      # collected writer constants
    # ------------------------------------------------------------------ writers: record_literal / record_match
    for fname in ("deflate::core::record_literal", "deflate::core::record_match"):
        f = c.fn(fname)
        ctx.touched(f)
        rows = [x for x in paths.Evaluator(c, effects=E, max_paths=3000).run(f) if x.outcome[0] == "return"]
        if not rows:
            r.fail(f.name, "lz/rows", "no returning path")
        for x in rows:
            cfs = [i for i, e in enumerate(x.effects) if e[0] == "call" and e[1].endswith(CF)]
            if len(cfs) != 1:
                r.fail(f.name, "lz/consume", "%s calls consume_flag %d times (one token = one flag slot)" % (fname.split("::")[-1], len(cfs)), path=row_path(x, 6))
                continue
            tok = classify_token(x, x.effects[:cfs[0]])
            if not isinstance(tok, dict):
                r.fail(f.name, "lz/token", "%s: %s" % (fname.split("::")[-1], tok or "no token written"), where=first_span(x), path=row_path(x, 6))
                continue
            want = "lit" if fname.endswith("record_literal") else "match"
            if tok["kind"] != want:
                r.fail(f.name, "lz/token", "%s writes a %s token" % (fname.split("::")[-1], tok["kind"]), path=row_path(x, 6))
                continue
            tb = [e for e in x.stores() if e[1][0] == "fld" and e[1][2] == "total_bytes"]
            adv = [q for q in flat_sum(tb[-1][2]) if not (q[0] == "load" and paths.place_is_field(q[1], "total_bytes"))] if tb else []
            if want == "lit":
                oka = len(adv) == 1 and is_const(adv[0]) and const_val(adv[0]) == 1 and uncast(tok["bytes"][0]) == P(3)
                if oka:
                    r.ok(f.name, "lz/token", "literal: 1 byte, flag >>= %d, total_bytes += 1" % tok["shift"])
                else:
                    r.fail(f.name, "lz/token", "record_literal does not write its literal / advance total_bytes by 1", path=row_path(x, 6))
                W.setdefault("shift", set()).add(tok["shift"])
            else:
                mb = check_match_bytes(tok["bytes"])
                if isinstance(mb, str):
                    r.fail(f.name, "lz/match-bytes", mb, path=row_path(x, 6))
                    continue
                off, X, hi, L = mb
                okx = X[0] == "bin" and X[1] == "Sub" and is_const(X[3]) and uncast(X[2]) == P(4)
                if uncast(L) == P(3) and okx and len(adv) == 1 and uncast(adv[0]) == P(3):
                    r.ok(f.name, "lz/match-bytes", "match: (len - %d), lo(dist - %d), (dist - %d) >> %d; flag = flag >> %d | %#x; total_bytes += len"
                         % (off, const_val(X[3]), const_val(X[3]), hi, tok["shift"], tok["mark"]))
                    W.setdefault("len_off", set()).add(off)
                    W.setdefault("dist_off", set()).add(const_val(X[3]))
                    W.setdefault("hi", set()).add(hi)
                    W.setdefault("shift", set()).add(tok["shift"])
                    W.setdefault("mark", set()).add(tok["mark"])
                else:
                    r.fail(f.name, "lz/match-bytes", "record_match must write (len - k), (dist - 1) as u8, (dist - 1) >> 8 and advance total_bytes by len "
                           "(bytes %s)" % [tstr(q)[:50] for q in tok["bytes"]], path=row_path(x, 6))
    # ------------------------------------------------------------------ writers: inline sites of compress_fast
    f = c.fn("deflate::core::compress_fast")
    ctx.touched(f)
    ev = paths.Evaluator(c, effects=E, max_paths=20000, max_blocks=60)
    rows = ev.run(f)
    heads = sorted({x.outcome[1] for x in rows if x.outcome[0] == "backedge"})
    ntok = {"lit": 0, "match": 0}
    for h in heads:
        ev2 = paths.Evaluator(c, effects=E, max_paths=20000, max_blocks=60, stop_blocks=[q for q in heads if q != h])
        for x in ev2.run(f, start_bb=h):
            if x.outcome[0] == "diverge":
                continue
            idx = [i for i, e in enumerate(x.effects) if e[0] == "call" and e[1].endswith(CF)]
            segs = []
            prev = 0
            for i in idx:
                segs.append(x.effects[prev:i])
                prev = i + 1
            tail = x.effects[prev:]
            if any((e[0] == "call" and e[1].endswith(WC)) or e in _flag_stores(x) for e in tail):
                r.fail(f.name, "lz/consume", "compress_fast writes token bytes / flag bits that are not followed by consume_flag on this path",
                       where=first_span(x), path=row_path(x, 8))
                continue
            for seg in segs:
                tok = classify_token(x, seg)
                if tok is None:
                    r.fail(f.name, "lz/consume", "compress_fast calls consume_flag without having written a token", where=first_span(x), path=row_path(x, 8))
                    continue
                if not isinstance(tok, dict):
                    r.fail(f.name, "lz/token", "compress_fast: " + tok, where=first_span(x), path=row_path(x, 8))
                    continue
                ntok[tok["kind"]] += 1
                W.setdefault("shift", set()).add(tok["shift"])
                if tok["kind"] == "match":
                    mb = check_match_bytes(tok["bytes"])
                    if isinstance(mb, str):
                        r.fail(f.name, "lz/match-bytes", "compress_fast: " + mb, where=first_span(x), path=row_path(x, 8))
                        continue
                    off, X, hi, L = mb
                    # X = admitted distance - 1: the admitted distance is the term compared in the admission atom
                    okx = X[0] == "bin" and X[1] == "Sub" and is_const(X[3])
                    adm = [a for a, s in x.atoms if a[0] == "bin" and a[1] == "Le" and s.single() == 1 and okx and uncast(a[2]) == uncast(X[2])]
                    tb = [e for e in x.stores() if e[1][0] == "fld" and e[1][2] == "total_bytes"]
                    adv = [q for q in flat_sum(tb[-1][2]) if not (q[0] == "load" and paths.place_is_field(q[1], "total_bytes"))] if tb else []
                    okl = len(adv) == 1 and uncast(adv[0]) == uncast(L)
                    if okx and adm and okl:
                        r.ok(f.name, "lz/match-bytes", "inline match: (len - %d), lo(dist - %d), hi; total_bytes += len" % (off, const_val(X[3])))
                        W.setdefault("len_off", set()).add(off)
                        W.setdefault("dist_off", set()).add(const_val(X[3]))
                        W.setdefault("hi", set()).add(hi)
                        W.setdefault("mark", set()).add(tok["mark"])
                    else:
                        r.fail(f.name, "lz/match-bytes", "compress_fast's inline match writer: distance bytes are not (admitted distance - 1) or "
                               "total_bytes is not advanced by the length written (dist ok %s, admitted %s, length ok %s)" % (okx, bool(adm), okl),
                               where=first_span(x), path=row_path(x, 8))
                else:
                    r.ok(f.name, "lz/token", None)
    if ntok["lit"] < 2 or ntok["match"] < 1:
        r.fail(f.name, "lz/fast-rows", "expected literal and match tokens in compress_fast, found %s" % ntok)
    # ------------------------------------------------------------------ flag-slot bookkeeping (evaluated as a function of num_flags_left)
    import termeval

    def leaf_n(q):
        if q[0] == "load" and paths.place_is_field(q[1], "num_flags_left"):
            return "n"
        if _is_flag_load(q):
            return "flag"
        if q[0] == "load" and paths.place_is_field(q[1], "code_position"):
            return "cp"
        raise termeval.Unsupported(tstr(q))

    def behaviour(g, n):
        """the row of g taken for num_flags_left == n: (new num_flags_left, plant_flag called, flag stores, code_position delta)"""
        for x in paths.Evaluator(c, effects=E, inline=["LZOxide::plant_flag"]).run(g):
            if x.outcome[0] != "return":
                continue
            try:
                cond = termeval.make_fn(termeval.row_condition(x, leaf_n), ["n", "flag", "cp"])
                if not cond(n, 0xA5, 1000):
                    continue
            except Exception:
                return None
            st = [e for e in x.stores() if e[1][0] == "fld" and e[1][2] == "num_flags_left"]
            nv = n
            if st:
                nv = termeval.make_fn(termeval.compile_term(st[-1][2], leaf_n), ["n", "flag", "cp"])(n, 0xA5, 1000)
            fl = 0xA5
            for e in _flag_stores(x):
                fl = termeval.make_fn(termeval.compile_term(e[2], leaf_n), ["n", "flag", "cp"])(n, fl, 1000) & 0xFF
            cps = [e for e in x.stores() if e[1][0] == "fld" and e[1][2] == "code_position"]
            cp = 1000
            if cps:
                cp = termeval.make_fn(termeval.compile_term(cps[-1][2], leaf_n), ["n", "flag", "cp"])(n, 0xA5, 1000)
            # planting a new flag byte: flag_position takes the old code_position and the code position moves past it
            fps = [e for e in x.stores() if e[1][0] == "fld" and e[1][2] == "flag_position"]
            planted = False
            if fps:
                try:
                    planted = termeval.make_fn(termeval.compile_term(fps[-1][2], leaf_n), ["n", "flag", "cp"])(n, 0xA5, 1000) == 1000 and cp == 1001
                except Exception:
                    planted = False
            return nv, planted, fl, cp - 1000
        return None
    g = c.fn("deflate::core::LZOxide::consume_flag")
    ctx.touched(g)
    N = None
    b1 = behaviour(g, 1)
    if b1 and b1[1]:
        N = b1[0]
    okc = N is not None and 2 <= N <= 8
    if okc:
        for n in range(2, N + 1):
            b = behaviour(g, n)
            okc = okc and b is not None and b[0] == n - 1 and not b[1]
    if okc:
        r.ok(g.name, "lz/slots", "consume_flag: %d tokens per flag byte, then a new flag byte is planted" % N)
    else:
        r.fail(g.name, "lz/slots", "consume_flag does not count down one slot per token and plant a new flag byte (with a full set of slots) when "
               "the last one is used (behaviour for 1 slot left: %s)" % (b1,))
    g = c.fn("deflate::core::LZOxide::init_flag")
    ctx.touched(g)
    oki = N is not None
    if oki:
        for n in range(1, N + 1):
            b = behaviour(g, n)
            if b is None:
                oki = False
            elif n == N:
                oki = oki and b[2] == 0 and b[3] == -1       # unused flag byte: cleared and dropped
            else:
                oki = oki and b[2] == (0xA5 >> n) and b[3] == 0
    if oki:
        r.ok(g.name, "lz/align", "init_flag: an unused flag byte is dropped; a partial one is shifted right by the number of unused slots")
    else:
        r.fail(g.name, "lz/align", "init_flag does not right-align a partial flag byte by exactly num_flags_left (or does not drop an unused flag byte): "
               "the reader would take the tokens' bits from the wrong positions")
    for cn in ("deflate::core::LZOxide::new",):
        for g in [q for q in c.fns.values() if q.name == cn]:
            for x in paths.Evaluator(c, effects=E).run(g):
                ag = x.ret if x.ret and x.ret[0] == "agg" else None
                if ag:
                    d = dict(zip(ag[3], ag[4]))
                    v = d.get("num_flags_left")
                    if N is not None and v is not None and is_const(v) and const_val(v) == N:
                        r.ok(g.name, "lz/slots-init", "a fresh buffer starts with %d free slots" % N)
                    else:
                        r.fail(g.name, "lz/slots-init", "LZOxide::new starts with num_flags_left = %s, consume_flag resets it to %s" % (tstr(v) if v else None, N))
    # ------------------------------------------------------------------ reader
    f = c.fn("deflate::core::compress_lz_codes")
    ctx.touched(f)
    ev = paths.Evaluator(c, effects=E, max_paths=6000, max_blocks=80)
    rows = ev.run(f)
    heads = sorted({x.outcome[1] for x in rows if x.outcome[0] == "backedge"})
    R = {}
    nm = nl = 0
    fl_local = [i for i in range(len(f.locals)) if f.local_name(i) == "flags"]
    i_local = [i for i in range(len(f.locals)) if f.local_name(i) == "i"]
    if len(fl_local) != 1 or len(i_local) != 1 or not heads:
        r.fail(f.name, "lz/reader", "reader loop variables `flags` / `i` not found in compress_lz_codes")
        return
    FL = ("unknown", "local0.%d" % fl_local[0])
    II = ("unknown", "local0.%d" % i_local[0])

    def buf_at(t):
        """t = cast(load arg3[(c) & mask]) -> c"""
        t = uncast(t)
        if t and t[0] == "load" and t[1][0] == "idx" and t[1][1] == ("deref", P(3)):
            k = uncast(t[1][2])
            if k[0] == "bin" and k[1] == "BitAnd" and is_const(k[3]):
                return uncast(k[2])
            return k
        return None

    def offs(cur, base):
        """cur = base + const -> const"""
        parts = flat_sum(cur)
        cs = sum(const_val(p) for p in parts if is_const(p))
        rest = [p for p in parts if not is_const(p)]
        return cs if rest == [base] else None
    for h in heads:
        ev2 = paths.Evaluator(c, effects=E, max_paths=6000, max_blocks=80, stop_blocks=[q for q in heads if q != h])
        for x in ev2.run(f, start_bb=h):
            if x.outcome[0] == "diverge":
                continue
            pf = calls_named(x, "BitBuffer::put_fast")
            if not pf:
                continue
            fv = x.store.get(("local", 0, fl_local[0]))
            iv = x.store.get(("local", 0, i_local[0]))
            reload = [s.single() for a, s in x.atoms if a[0] == "bin" and a[1] == "Eq" and uncast(a[2]) == FL and is_const(a[3]) and const_val(a[3]) == 1]
            # flags after an optional reload
            cur_flags = FL
            cur = 0
            if reload and reload[0] == 1:
                # flags = buf[i] | S ; i += 1
                base, am = fv, []
                t = uncast(fv) if fv is not None else None
                while t and t[0] == "bin" and t[1] == "Shr":
                    am.append(t[3])
                    t = uncast(t[2])
                okr = bool(t) and t[0] == "bin" and t[1] == "BitOr" and is_const(t[3]) and buf_at(t[2]) == II
                if not okr:
                    r.fail(f.name, "lz/reader-reload", "when the flags run out (== 1) the next flag byte is not fetched as buf[i] | sentinel: flags = %s"
                           % (tstr(fv)[:120] if fv else None), where=first_span(x), path=row_path(x, 6))
                    continue
                R.setdefault("sentinel", set()).add(const_val(t[3]))
                cur_flags = t
                cur = 1
            elif len(pf) in (4,) and not reload:
                pass
            # token kind
            tst = [(a, s) for a, s in x.atoms if a[0] == "bin" and a[1] == "Eq" and is_const(a[3]) and const_val(a[3]) == 1 and
                   uncast(a[2])[0] == "bin" and uncast(a[2])[1] == "BitAnd" and is_const(uncast(a[2])[3])]
            if h != heads[0]:
                # inner literal loop: one literal per iteration
                continue
            if not tst:
                continue
            a, s = tst[0]
            R.setdefault("test", set()).add(const_val(uncast(a[2])[3]))
            if uncast(uncast(a[2])[2]) != uncast(cur_flags):
                r.fail(f.name, "lz/reader-test", "the token kind is decided on %s, not on the current flags" % tstr(a[2])[:100], path=row_path(x, 6))
                continue
            if s.single() == 1 and len(pf) == 4:
                nm += 1
                # match: len = buf[c], dist = buf[c+1] | buf[c+2] << 8, i = c + 3, flags >>= 1
                lenx = None
                for st in paths.subterms(pf[1][2][1]):
                    if buf_at(st) is not None and st[0] in ("load", "cast"):
                        lenx = buf_at(st)
                dparts = None
                for st in paths.subterms(pf[3][2][1]):
                    u = uncast(st)
                    if u and u[0] == "bin" and u[1] == "BitOr" and buf_at(u[2]) is not None:
                        hi = uncast(u[3])
                        if hi[0] == "bin" and hi[1] == "Shl" and is_const(hi[3]) and buf_at(hi[2]) is not None:
                            dparts = (buf_at(u[2]), buf_at(hi[2]), const_val(hi[3]))
                good = lenx is not None and dparts is not None and offs(lenx, II) == cur and offs(dparts[0], II) == cur + 1 and \
                    offs(dparts[1], II) == cur + 2 and iv is not None and offs(iv, II) == cur + 3
                fsh = uncast(fv) if fv is not None else None
                goodf = bool(fsh) and fsh[0] == "bin" and fsh[1] == "Shr" and is_const(fsh[3]) and uncast(fsh[2]) == uncast(cur_flags)
                if good and goodf:
                    R.setdefault("hi", set()).add(dparts[2])
                    R.setdefault("shift", set()).add(const_val(fsh[3]))
                    r.ok(f.name, "lz/reader-match", "match: len = buf[c], dist = buf[c+1] | buf[c+2] << %d, cursor += 3, flags >>= %d" % (dparts[2], const_val(fsh[3])))
                else:
                    r.fail(f.name, "lz/reader-match", "the reader does not take a match as len = buf[c], dist = buf[c+1] | buf[c+2] << 8 with cursor += 3 and "
                           "flags >>= 1 (len at %s, dist bytes %s, i = %s, flags = %s)" % (tstr(lenx)[:40] if lenx else None,
                                                                                             [tstr(q)[:40] for q in dparts[:2]] if dparts else None,
                                                                                             tstr(iv)[:60] if iv else None, tstr(fv)[:80] if fv else None),
                           where=first_span(x), path=row_path(x, 6))
            elif s.single() == 0:
                nl += 1
    # literal branch: evaluated from the inner loop head(s)
    for h in heads[1:]:
        ev2 = paths.Evaluator(c, effects=E, max_paths=6000, max_blocks=80, stop_blocks=[q for q in heads if q != h])
        for x in ev2.run(f, start_bb=h):
            if x.outcome[0] == "diverge":
                continue
            pf = calls_named(x, "BitBuffer::put_fast")
            if len(pf) != 1:
                continue
            fv = x.store.get(("local", 0, fl_local[0]))
            iv = x.store.get(("local", 0, i_local[0]))
            lit = None
            for st in paths.subterms(pf[0][2][1]):
                if buf_at(st) is not None:
                    lit = buf_at(st)
            fsh = uncast(fv) if fv is not None else None
            good = lit is not None and offs(lit, II) == 0 and iv is not None and offs(iv, II) == 1 and \
                bool(fsh) and fsh[0] == "bin" and fsh[1] == "Shr" and is_const(fsh[3]) and uncast(fsh[2]) == FL
            if good:
                R.setdefault("shift", set()).add(const_val(fsh[3]))
                r.ok(f.name, "lz/reader-literal", "literal: buf[c], cursor += 1, flags >>= %d" % const_val(fsh[3]))
            else:
                r.fail(f.name, "lz/reader-literal", "the reader does not take a literal as buf[c] with cursor += 1 and flags >>= 1 (i = %s, flags = %s)"
                       % (tstr(iv)[:60] if iv else None, tstr(fv)[:80] if fv else None), where=first_span(x), path=row_path(x, 6))
            # the loop continues only while the next token is a literal
    if nm < 2:
        r.fail(f.name, "lz/reader-rows", "reader match rows not found (%d)" % nm)
    # ------------------------------------------------------------------ agreement
    def one(d, k):
        v = d.get(k, set())
        return next(iter(v)) if len(v) == 1 else None
    n = N
    facts_ = {"writer": {k: sorted(v) for k, v in W.items()}, "reader": {k: sorted(v) for k, v in R.items()}, "slots": n}
    ok = n is not None and one(R, "sentinel") == (1 << n) and one(W, "mark") == (1 << (n - 1)) and one(W, "shift") == 1 and one(R, "shift") == 1 and \
        one(R, "test") == 1 and one(W, "hi") == 8 and one(R, "hi") == 8 and one(W, "len_off") == 3 and one(W, "dist_off") == 1
    if ok:
        r.ok("<lz buffer>", "lz/agreement", "writers and reader agree: %s" % facts_)
    else:
        r.fail("<lz buffer>", "lz/agreement", "the LZ token buffer is written and read under different conventions: %s (expected: sentinel = 1 << slots, "
               "match bit = 1 << (slots-1), shifts 1/1, test mask 1, high-byte shift 8/8, offsets 3/1)" % facts_)


def rule_token_buffer_capacity(ctx, cfg, r):
    """The LZ token buffer is flushed before it can overflow: in every iteration of the compress loops that records tokens, the bytes that
    may be appended to `lz.codes` (one per write_code call, one per consume_flag call — it may plant a new flag byte) number at most M,
    where the iteration's fullness test is `code_position > LZ_CODE_BUF_SIZE - M`; an iteration that records tokens without such a test
    is reported.  (write_code indexes with a wrapping u16 cast, so an overflow does not panic: it silently overwrites the start of the
    block's token buffer.)"""
    c = ctx.crate(cfg)
    E = ctx.effects(cfg)
    SIZE = c.const_int("LZ_CODE_BUF_SIZE")
    n = 0
    for name in ("deflate::core::compress_normal", "deflate::core::compress_fast"):
        f = c.fn(name)
        ctx.touched(f)
        heads = [b for b in range(len(f.blocks)) if any(f.dominates(b, p) for p in f.preds(b))]
        for h in heads:
            ev = paths.Evaluator(c, effects=E, inline=["deflate::core::record_literal", "deflate::core::record_match"], max_paths=20000, max_blocks=140,
                                 stop_blocks=[q for q in heads if q != h])
            worst = {}
            for x in ev.run(f, start_bb=h):
                if x.outcome[0] == "diverge":
                    continue
                w = len([e for e in x.effects if e[0] == "call" and e[1].endswith("LZOxide::write_code")])
                cf = len([e for e in x.effects if e[0] == "call" and e[1].endswith("LZOxide::consume_flag")])
                if w + cf == 0:
                    continue
                ks = set()
                for a, op, b in rels(x):
                    for p_, q_ in ((a, b), (b, a)):
                        if p_[0] == "load" and paths.place_is_field(p_[1], "code_position") and is_const(q_) and op in ("Le", "Lt"):
                            # cp <= K (room left) / K < cp (tight)  — or the strict / swapped spellings
                            k = const_val(q_)
                            if p_ is a:
                                ks.add(k if op == "Le" else k - 1)
                            else:
                                ks.add(k if op == "Lt" else k - 1)
                key = (w + cf, max(ks) if ks else None)
                if key not in worst:
                    worst[key] = x
            for (tot, k), x in sorted(worst.items(), key=lambda kv: str(kv[0])):
                n += 1
                if k is None:
                    r.fail(f.name, "lz/capacity", "an iteration of %s records tokens (%d buffer bytes at most) without testing code_position against the "
                           "buffer size" % (f.name.split("::")[-1], tot), where=first_span(x), path=row_path(x, 8))
                elif tot > SIZE - k:
                    r.fail(f.name, "lz/capacity", "an iteration of %s can append %d bytes to the token buffer but the block is flushed only when "
                           "code_position > LZ_CODE_BUF_SIZE - %d: the last bytes wrap around to the start of the buffer (write_code indexes with a "
                           "wrapping u16) and corrupt the block" % (f.name.split("::")[-1], tot, SIZE - k), where=first_span(x), path=row_path(x, 8))
                else:
                    r.ok(f.name, "lz/capacity", "at most %d bytes per iteration, flushed when fewer than %d are free" % (tot, SIZE - k))
    if n < 4:
        r.fail("<deflate>", "lz/capacity-rows", "expected at least 4 token-recording iteration shapes in compress_normal / compress_fast, found %d" % n)
