"""C01 — one-shot round trip (structural clauses)."""
import paths
import slices
from mir import callee_name
from terms import ISet, tstr, pstr, is_const, const_val
from rules.util import *
from rules import tables
from rules import lzbuf
from rules import deflate_proto as dp
from rules import c02
from rules import deflate_cfg as dc


def is_dict_place(pt):
    return paths.term_contains(pt, lambda y: y[0] == "fld" and y[2] == "dict" and y[3].endswith("HashBuffers"))


def rule_mirror(ctx, cfg, r):
    """R01.2: every byte written into the dictionary at position p < MAX_MATCH_LEN - 1 is mirrored at LZ_DICT_SIZE + p."""
    c = ctx.crate(cfg)
    E = ctx.effects(cfg)
    SIZE = c.const_int("deflate::core::LZ_DICT_SIZE") if c.const("deflate::core::LZ_DICT_SIZE", required=False) else c.const_int("LZ_DICT_SIZE")
    FULL = c.const_int("deflate::buffer::LZ_DICT_FULL_SIZE")
    GUARD = FULL - SIZE - 1
    n_sites = 0
    for name in ("deflate::core::compress_normal", "deflate::stored::compress_stored"):
        f = c.fn(name)
        ctx.touched(f)
        ev = paths.Evaluator(c, effects=E, max_paths=60000, max_blocks=60)
        rows = ev.run(f)
        heads = sorted({x.outcome[1] for x in rows if x.outcome[0] == "backedge"})
        seen = set()
        for h in heads:
            ev2 = paths.Evaluator(c, effects=E, max_paths=60000, max_blocks=60, stop_blocks=[q for q in heads if q != h])
            for x in ev2.run(f, start_bb=h):
                if x.outcome[0] != "backedge":
                    continue
                sts = [e for e in x.stores() if e[1][0] == "idx" and is_dict_place(e[1][1])]
                prim = [e for e in sts if not (e[1][2][0] == "bin" and e[1][2][1] == "Add" and any(is_const(q) and const_val(q) == SIZE for q in (e[1][2][2], e[1][2][3])))]
                mirr = [e for e in sts if e not in prim]
                for e in prim:
                    p = e[1][2]
                    key = e[3]
                    lt = None
                    for a, s in x.atoms:
                        if a[0] == "bin" and a[1] == "Lt" and a[2] == p and is_const(a[3]):
                            lt = (s.single(), const_val(a[3]))
                    good = False
                    if lt is not None and lt[1] == GUARD:
                        if lt[0] == 0:
                            good = not [m for m in mirr if p in (m[1][2][2], m[1][2][3])]
                        elif lt[0] == 1:
                            good = any(p in (m[1][2][2], m[1][2][3]) and m[2] == e[2] for m in mirr)
                    if key not in seen:
                        seen.add(key)
                        n_sites += 1
                    if good:
                        r.ok(f.name, "mirror-site", "dict[p] = c mirrored to dict[LZ_DICT_SIZE + p] iff p < %d" % GUARD, e[3])
                    else:
                        r.fail(f.name, "mirror-site", "a dictionary write at position %s is not mirrored past the window end under p < %d "
                               "(guard seen: %s): matches reaching over the wrap-around would compare stale bytes" % (tstr(p)[:60], GUARD, lt), e[3])
    # compress_fast: bulk copy pair
    f = c.fn("deflate::core::compress_fast")
    ctx.touched(f)
    ev = paths.Evaluator(c, effects=E, max_paths=60000, max_blocks=60)
    rows = ev.run(f)
    heads = sorted({x.outcome[1] for x in rows if x.outcome[0] == "backedge"})
    okbulk = 0
    for h in heads:
        ev2 = paths.Evaluator(c, effects=E, max_paths=8000, max_blocks=30, stop_blocks=[q for q in heads if q != h])
        for x in ev2.run(f, start_bb=h):
            cps = [e for e in x.effects if e[0] == "call" and e[1].endswith("copy_from_slice")]
            if not cps:
                continue
            d1, s1 = slices.region(cps[0][2][0]), slices.region(cps[0][2][1])
            if d1 is None or not is_dict_place(d1.root):
                continue
            dst = d1.off

            def min_with(ln, want):
                """`ln` is a single min(..) one of whose operands equals the linear form `want`"""
                if ln is None or ln[0] != 0 or len(ln[1]) != 1:
                    return False
                (sym, co), = ln[1].items()
                return co == 1 and sym[0] == "pure" and sym[1] == "min" and any(slices.lin(q) == want for q in sym[2])
            lt = None
            for a, s_ in x.atoms:
                if a[0] == "bin" and a[1] == "Lt" and is_const(a[3]) and slices.lin(a[2]) == dst:
                    lt = (s_.single(), const_val(a[3]))
                elif a[0] == "bin" and a[1] == "Ge" and is_const(a[3]) and slices.lin(a[2]) == dst and s_.single() is not None:
                    lt = (1 - s_.single(), const_val(a[3]))
                elif a[0] == "bin" and a[1] == "Le" and is_const(a[3]) and slices.lin(a[2]) == dst:
                    lt = (s_.single(), const_val(a[3]) + 1)
            # the chunk copied into the ring must end at or before the ring's end: length = min(LZ_DICT_SIZE - dst, ..)
            ring_ok = min_with(d1.length, slices.lsub((SIZE, {}), dst))
            if ring_ok:
                r.ok(f.name, "ring-bound", "bulk copy into dict[dst ..][.. min(LZ_DICT_SIZE - dst, n)]: a refill that reaches the ring's end is split there")
            else:
                r.fail(f.name, "ring-bound", "compress_fast copies %s bytes into dict[%s ..]: the length is not limited to LZ_DICT_SIZE - dst, so a refill that "
                       "straddles the end of the ring spills into the mirror area / past the buffer instead of wrapping to offset 0"
                       % (str(d1.length)[:80], str(dst)[:40]), cps[0][3])
            if lt is None or lt[1] != GUARD:
                r.fail(f.name, "mirror-bulk", "bulk dictionary copy at %s is not followed by the mirror test dst_pos < %d" % (str(dst)[:40], GUARD), cps[0][3])
                continue
            if lt[0] == 1:
                if len(cps) >= 2:
                    d2, s2 = slices.region(cps[1][2][0]), slices.region(cps[1][2][1])
                    okk = d2 is not None and s2 is not None and s1 is not None and is_dict_place(d2.root) and \
                        d2.off == slices.ladd(dst, (SIZE, {})) and s1.root == s2.root and s1.off == s2.off
                    # length m = min(n, GUARD - dst)
                    okk = okk and min_with(d2.length, slices.lsub((GUARD, {}), dst))
                    if okk:
                        okbulk += 1
                        r.ok(f.name, "mirror-bulk", "bulk copy mirrored: dict[dst+SIZE ..][..min(n, %d - dst)] from the same source offset" % GUARD, cps[1][3])
                    else:
                        r.fail(f.name, "mirror-bulk", "the mirror copy of compress_fast does not cover dict[dst+LZ_DICT_SIZE ..] with min(n, %d - dst) bytes from the same source" % GUARD, cps[0][3])
                else:
                    r.fail(f.name, "mirror-bulk", "dst_pos < %d but no mirror copy follows" % GUARD, cps[0][3])
            else:
                if len(cps) == 1:
                    okbulk += 1
                    r.ok(f.name, "mirror-bulk-skip", None)
    if okbulk < 2:
        r.fail(f.name, "mirror-bulk-sites", "compress_fast's bulk dictionary copy with mirror was not recognised")
    if n_sites < 4:
        r.fail("<deflate>", "mirror-sites", "%d element-wise dictionary write sites found (reference tree: 4)" % n_sites)


def rule_retry_loops(ctx, cfg, r):
    """R01.3: compress_to_vec_inner accounts exactly and panics only on a status that is neither Done nor Okay."""
    c = ctx.crate(cfg)
    E = ctx.effects(cfg)
    f = c.fn("deflate::compress_to_vec_inner")
    ctx.touched(f)
    ev = paths.Evaluator(c, effects=E)
    rows = ev.run(f)
    heads = sorted({x.outcome[1] for x in rows if x.outcome[0] == "backedge"})
    if len(heads) != 1:
        r.fail(f.name, "loop", "expected one loop, found %s" % heads)
        return
    TS = discrs(c, "TDEFLStatus")
    ev2 = paths.Evaluator(c, effects=E)
    for x in ev2.run(f, start_bb=heads[0]):
        comp = calls_named(x, "deflate::core::compress")
        if len(comp) != 1:
            r.fail(f.name, "iter", "iteration without exactly one compress call: %s" % x.describe(6))
            continue
        e = comp[0]
        res = call_res(e)
        st, inb, outb = ("field", res, "0"), ("field", res, "1"), ("field", res, "2")
        # output window: &mut output[out_pos..]; flush Finish
        a = e[2]
        okargs = a[3][0] == "enum" and a[3][2] == "Finish" and paths.term_contains(a[2], lambda y: y[0] == "agg" and y[1].endswith("RangeFrom")) or \
            (a[3][0] == "enum" and a[3][2] == "Finish")
        sv = vs(x, ("discr", st))
        if x.outcome[0] == "diverge":
            over = any(a[0] == "bin" and a[1] == "Le" and a[2] == inb and a[3][0] == "len" and s.single() == 0 for a, s in x.atoms)
            if sv.contains(TS["Done"]) or (sv.contains(TS["Okay"]) and not over):
                r.fail(f.name, "panic-arm", "compress_to_vec can panic on a Done/Okay status: %s" % x.describe(6))
            else:
                r.ok(f.name, "panic-arm", "panic only when the status is neither Done nor Okay")
            continue
        if sv.single() == TS["Done"]:
            tr = [q for q in x.effects if q[0] == "call" and q[1].endswith("truncate")]
            okk = x.outcome[0] == "return" and tr and outb in sum_parts(tr[0][2][1])
            r.ok(f.name, "done", "Done: truncate(out_pos + bytes_out)") if okk else r.fail(f.name, "done", "Done does not truncate to the produced length")
        elif sv.single() == TS["Okay"]:
            # out_pos += bytes_out; input advanced by bytes_in; grow
            adv = [q for q in x.effects if q[0] == "call" and "Index<I> for [T]>::index" in q[1] and q[2][1][0] == "agg" and q[2][1][1].endswith("RangeFrom") and q[2][1][4] == (inb,)]
            grow = [q for q in x.effects if q[0] == "call" and q[1].endswith("::resize")]
            pos_ok = False
            for k, v in x.store.items():
                if isinstance(k, tuple) and k[0] == "local" and isinstance(v, tuple) and v[0] == "bin" and v[1] == "Add" and outb in (v[2], v[3]):
                    pos_ok = True
            if x.outcome[0] == "backedge" and adv and pos_ok:
                r.ok(f.name, "okay", "Okay: out_pos += bytes_out; input = &input[bytes_in..]; grow and retry")
            else:
                r.fail(f.name, "okay", "retry step does not advance by exactly the reported counts (advance ok=%s, grow=%s, out_pos ok=%s)"
                       % (bool(adv), bool(grow), pos_ok))
        if not okargs:
            r.fail(f.name, "args", "compress is not driven with Finish on &mut output[out_pos..]")


def rule_level_clamp(ctx, cfg, r):
    c = ctx.crate(cfg)
    t = dc.tables(ctx, cfg)
    bad = 0
    n = 0
    for wb in (15, -15, 1, 0, -1):
        for st in (0, 1, 2, 3, 4, 5, 77):
            base = t["flags"].eval(10, wb, st)
            for lv in range(11, 256):
                n += 1
                got = t["flags"].eval(lv, wb, st)
                if got != base or got[0] != "ok":
                    bad += 1
            for lv in range(-3, 11):
                n += 1
                if t["flags"].eval(lv, wb, st)[0] != "ok":
                    bad += 1
    if bad:
        r.fail(t["flags"].fn.name, "clamp", "%d (level, window_bits, strategy) combinations panic or treat levels above 10 differently from 10" % bad)
    else:
        r.ok(t["flags"].fn.name, "clamp", "%d combinations: no out-of-range NUM_PROBES index; every level > 10 yields the flags of level 10" % n)
    # compress_to_vec_inner forwards the level unchanged
    f = c.fn("deflate::compress_to_vec_inner")
    ev = paths.Evaluator(c, effects=ctx.effects(cfg), max_blocks=10)
    okf = False
    for x in ev.run(f):
        for e in calls_named(x, "deflate::core::create_comp_flags_from_zip_params"):
            a = e[2]
            okf = paths.term_contains(a[0], lambda y: y == P(2)) and a[1] == P(3) and a[2] == P(4)
    r.ok(f.name, "level-forward", "flags = create_comp_flags_from_zip_params(level, window_bits, strategy)") if okf else \
        r.fail(f.name, "level-forward", "compress_to_vec_inner does not derive its flags from (level, window_bits, strategy)")


def rule_block_start(ctx, cfg, r):
    """R01.7: the dictionary position of the next block advances by exactly the bytes this block encoded."""
    c = ctx.crate(cfg)
    E = ctx.effects(cfg)
    f = c.fn("deflate::core::flush_block")
    sts = stores_to(E, f, "DictOxide", "code_buf_dict_pos")
    tot = stores_to(E, f, "LZOxide", "total_bytes")
    good = len(sts) == 1
    if good:
        bb, i, s = sts[0]
        rv = s["a"][1]
        good = "bin" in rv and rv["bin"][0] == "Add"
        if good:
            import writeback
            a0 = writeback.loaded_loc(E, f, rv["bin"][1])
            # second operand: (lz.total_bytes as usize)
            from rules.inflate_core import local_expr
            e2 = local_expr(c, f, bb, rv["bin"][2])
            good = a0 is not None and a0[1] == "code_buf_dict_pos" and e2[0] == "cast" and "total_bytes" in repr(e2)
            # before total_bytes is reset
            zero = [(b2, i2) for b2, i2, s2 in tot if "use" in s2["a"][1] and "k" in s2["a"][1]["use"] and s2["a"][1]["use"]["k"].get("int") == "0"]
            for b2, i2 in zero:
                if (b2 == bb and i2 < i) or (b2 != bb and f.dominates(b2, bb)):
                    good = False
    if good:
        r.ok(f.name, "block-start", "code_buf_dict_pos += lz.total_bytes (before total_bytes is cleared)")
    else:
        r.fail(f.name, "block-start", "the stored-block source position is not advanced by exactly the bytes the block encoded "
               "(code_buf_dict_pos += lz.total_bytes)")
    okret = [b for b, blk in enumerate(f.blocks) for s in blk["s"]
             if "a" in s and s["a"][0]["l"] == 0 and not s["a"][0]["p"] and "agg" in s["a"][1] and s["a"][1]["agg"].get("variant") == "Ok"]
    if sts and okret and all(f.dominates(sts[0][0], rb) for rb in okret):
        r.ok(f.name, "block-start-always", "on every path to the Ok return")
    else:
        r.fail(f.name, "block-start-always", "code_buf_dict_pos is not advanced on every successful flush_block")


def run(ctx):
    cfg = "H1"
    r1 = ctx.rule("R01.1", "encoder symbol tables agree with RFC 1951 and with the decoder over all 256 lengths and 32768 distances", floor=3, config=cfg)
    tables.rule_encoder_tables(ctx, cfg, r1)
    r2 = ctx.rule("R01.2", "dictionary mirror: bytes at positions < 257 are duplicated past the window end at every dictionary writer", floor=6, config=cfg)
    rule_mirror(ctx, cfg, r2)
    r3 = ctx.rule("R01.3", "grow-and-retry loop of compress_to_vec accounts exactly; panics only on an impossible status", floor=3, config=cfg)
    rule_retry_loops(ctx, cfg, r3)
    r4 = ctx.rule("R01.4", "levels above 10 behave as 10; the probe table is never indexed out of range", floor=2, config=cfg)
    rule_level_clamp(ctx, cfg, r4)
    r5 = ctx.rule("R01.5", "every flush_block result is checked", floor=4, config=cfg)
    c02.rule_result_discipline(ctx, cfg, r5)
    r6 = ctx.rule("R01.6", "LZ token buffer: what the writers lay down (token bytes, flag bits, slots per flag byte) is what compress_lz_codes takes up", floor=10, config=cfg)
    lzbuf.rule_lz_buffer(ctx, cfg, r6)
    r9 = ctx.rule("R01.9", "window accounting: dict.size is clamped to LZ_DICT_SIZE - lookahead_size between every refill and every use as a distance bound", floor=2, config=cfg)
    dp.rule_window_accounting(ctx, cfg, r9)
    from rules import bitacc
    r10 = ctx.rule("R01.10", "bit accumulator of compress_lz_codes: the bits appended between two flushes, plus what a flush leaves behind, fit its width", floor=6, config=cfg)
    bitacc.rule_accumulator(ctx, cfg, r10)
    from rules import lzbuf as _lzbuf
    rcap = ctx.rule("R01.11", "LZ token buffer capacity: the bytes one loop iteration may append never exceed the margin of its fullness test", floor=4, config=cfg)
    _lzbuf.rule_token_buffer_capacity(ctx, cfg, rcap)
    r7 = ctx.rule("R01.7", "stored-block source position advances by exactly the bytes each block encoded", floor=2, config=cfg)
    rule_block_start(ctx, cfg, r7)
    from rules import c08
    r8 = ctx.rule("R01.8", "decompress_to_vec: allocation capped, truncate to produced length", floor=4, config=cfg)
    c08.rule_vec_limit(ctx, cfg, r8)
