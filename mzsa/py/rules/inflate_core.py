"""Rules over the state machine of inflate::core::decompress_with_limit and its helpers
(shared by C03–C09 and C19)."""
import os
import sys

import paths
import sm
from mir import Place, callee_name
from terms import ISet, tstr, pstr, is_const, const_val, INF
from rules.util import *

sys.path.insert(0, os.path.join(os.path.dirname(os.path.dirname(os.path.dirname(os.path.abspath(__file__)))), "tables"))
import rfc  # noqa: E402

FAILURE_STATES = ["BlockTypeUnexpected", "BadCodeSizeSum", "BadDistOrLiteralTableLength", "BadTotalSymbols", "BadZlibHeader",
                  "DistanceOutOfBounds", "BadRawLength", "BadCodeSizeDistPrevLookup", "InvalidLitlen", "InvalidDist"]

_m = {}


def machine(ctx, cfg):
    if cfg not in _m:
        c = ctx.crate(cfg)
        _m[cfg] = sm.Machine(c, ctx.effects(cfg))
        ctx.touched(_m[cfg].fn)
    return _m[cfg]


def all_rows(M):
    for arm in M.arm_entry:
        for r in M.arm_rows(arm):
            yield arm, r


def state_of(M, r):
    v = r.store.get(("local", 0, M.state_local))
    return v[2] if v is not None and v[0] == "enum" else None


def cmp_operands(row):
    """all operand terms of comparison atoms (and the atoms themselves) of a row"""
    out = []
    for a, s in row.atoms:
        out.append(a)
        for st in paths.subterms(a):
            if st[0] == "bin" and st[1] in ("Lt", "Le", "Gt", "Ge", "Eq", "Ne"):
                out.append(st[2])
                out.append(st[3])
    return out


def subject_with(row, pred):
    for t in cmp_operands(row):
        if not is_const(t) and pred(vs(row, t)):
            return t
    return None


def shape(t):
    """term with call sequence numbers and call arguments erased (same computation on another path)"""
    if not isinstance(t, tuple):
        return t
    if t and t[0] == "call":
        return ("call", t[1])
    if t and t[0] == "load":
        return ("load", shape(t[1]))
    if t and t[0] == "unknown":
        return ("unknown", str(t[1]).split("#")[0])
    return tuple(shape(x) for x in t)


def threshold_rule(r, fn, key, fail_rows, pass_rows, const, what, where=None):
    """fail rows: some compared term T has value set starting exactly at const+1; pass rows keep T <= const."""
    if not fail_rows:
        r.fail(fn, key, "no path rejects %s" % what)
        return
    T = None
    for fr in fail_rows:
        T = subject_with(fr, lambda s: s.lo() == const + 1)
        if T is None:
            r.fail(fn, key, "a rejecting path for %s is not guarded by `> %d` (RFC 1951 limit): %s" % (what, const, fr.describe(8)))
            return
        sh = shape(T)
        for p in pass_rows:
            same = [q for q in cmp_operands(p) if not is_const(q) and shape(q) == sh]
            if not same or not any(vs(p, q).hi() is not None and vs(p, q).hi() <= const for q in same):
                r.fail(fn, key, "a path continues with %s possibly > %d: %s" % (tstr(T), const, p.describe(10)))
                return
    r.ok(fn, key, "%s rejected iff %s > %d" % (what, tstr(T), const), where)


def jumps(M, arm, target):
    return [r for r in M.arm_rows(arm) if r.kind == "jump" and r.target == target]


# ---------------------------------------------------------------------------------------------- R04.1
def rule_guards(ctx, cfg, r):
    M = machine(ctx, cfg)
    c = ctx.crate(cfg)
    fn = M.fn.name
    NONWRAP = c.const_int("inflate_flags::TINFL_FLAG_USING_NON_WRAPPING_OUTPUT_BUF")
    # InvalidLitlen (slow path)
    arm = "HuffDecodeOuterLoop1"
    rows = M.arm_rows(arm)
    threshold_rule(r, fn, "InvalidLitlen/slow", [x for x in rows if x.target == "InvalidLitlen"],
                   [x for x in rows if x.kind == "jump" and x.target in ("DecodeDistance", "ReadExtraBitsLitlen")],
                   rfc.EOB + len(rfc.LENGTH_BASE), "an undefined length symbol")
    # InvalidDist (slow path)
    rows = M.arm_rows("DecodeDistance")
    threshold_rule(r, fn, "InvalidDist/slow", [x for x in rows if x.target == "InvalidDist"],
                   [x for x in rows if x.kind == "jump" and x.target in ("HuffDecodeOuterLoop2", "ReadExtraBitsDistance")],
                   len(rfc.DIST_BASE) - 1, "an undefined distance symbol")
    # table sizes
    rows = M.arm_rows("ReadTableSizes")
    fails = [x for x in rows if x.target == "BadDistOrLiteralTableLength"]
    passes = [x for x in rows if x.kind == "jump" and x.target == "ReadHufflenTableCodeSize"]
    lit = [x for x in fails if subject_with(x, lambda s: s.lo() == rfc.NUM_LITLEN_CODES + 1)]
    dst = [x for x in fails if subject_with(x, lambda s: s.lo() == rfc.NUM_DIST_CODES + 1)]
    if lit and dst and len(lit) + len(dst) >= len(fails):
        Tl = subject_with(lit[0], lambda s: s.lo() == rfc.NUM_LITLEN_CODES + 1)
        Td = subject_with(dst[0], lambda s: s.lo() == rfc.NUM_DIST_CODES + 1)
        okp = passes and all(vs(p, Tl).hi() == rfc.NUM_LITLEN_CODES and vs(p, Td).hi() == rfc.NUM_DIST_CODES for p in passes)
        if okp and Tl != Td:
            r.ok(fn, "BadDistOrLiteralTableLength", "HLIT+257 <= 286 and HDIST+1 <= 30 enforced: %s, %s" % (tstr(Tl), tstr(Td)))
        else:
            r.fail(fn, "BadDistOrLiteralTableLength", "a path proceeds with table sizes beyond 286/30")
    else:
        r.fail(fn, "BadDistOrLiteralTableLength", "table-size limits 286 / 30 are not both enforced (litlen guard rows=%d, dist guard rows=%d, rejecting rows=%d)"
               % (len(lit), len(dst), len(fails)))
    # reserved block type
    rows = M.arm_rows("ReadBlockHeader")
    fails = [x for x in rows if x.target == "BlockTypeUnexpected"]
    okk = bool(fails)
    bt = None
    for x in fails:
        bt = subject_with(x, lambda s: s.single() == rfc.BTYPE_RESERVED)
        okk = okk and bt is not None
    if okk:
        want = {rfc.BTYPE_STORED: {"BlockTypeNoCompression"}, rfc.BTYPE_DYNAMIC: {"ReadTableSizes"},
                rfc.BTYPE_FIXED: {"DecodeLitlen", "BadTotalSymbols", "Failed"}}
        for x in rows:
            if x in fails or x.kind not in ("jump", "end") or x.target in ("NeedsMoreInput", "FailedCannotMakeProgress"):
                continue
            v = vs(x, bt).single()
            if v not in want or x.target not in want[v]:
                okk = False
                r.fail(fn, "block-type-dispatch", "block type %r leads to %s %s" % (v, x.kind, x.target))
    if okk:
        r.ok(fn, "BlockTypeUnexpected", "BTYPE 3 rejected; 0 -> stored, 1 -> fixed, 2 -> dynamic (%s)" % tstr(bt))
    else:
        r.fail(fn, "BlockTypeUnexpected", "the reserved block type 3 is not rejected on every path")
    # stored length check
    rows = M.arm_rows("RawHeader")
    fails = [x for x in rows if x.target == "BadRawLength"]
    passes = [x for x in rows if x.kind == "jump" and x.target in ("BlockDone", "RawReadFirstByte", "RawMemcpy1")]

    def len_check(x):
        for a, s in x.atoms:
            if a[0] == "bin" and a[1] in ("Eq", "Ne") and any(o[0] == "un" and o[1] == "Not" for o in (a[2], a[3])):
                n = a[3] if a[3][0] == "un" else a[2]
                o = a[2] if a[3][0] == "un" else a[3]
                def bytes_of(t):
                    return sorted({st[1][2] if st[1][0] == "cidx" else (const_val(st[1][2]) if is_const(st[1][2]) else -1)
                                   for st in paths.subterms(t)
                                   if st[0] == "load" and paths.term_contains(st, lambda y: y[0] == "fld" and y[2] == "raw_header")
                                   and st[1][0] in ("cidx", "idx")})
                def shape(t):
                    # b_lo | (b_hi << 8)
                    return t[0] == "bin" and t[1] == "BitOr" and any(paths.term_contains(q, lambda y: y[0] == "bin" and y[1] == "Shl" and is_const(y[3]) and const_val(y[3]) == 8) for q in (t[2], t[3]))
                eq = s.single() if a[1] == "Eq" else (None if s.single() is None else 1 - s.single())
                return eq, bytes_of(o), bytes_of(n[2]), shape(o) and shape(n[2])
        return None
    good = bool(fails) and bool(passes)
    for x in fails:
        lc = len_check(x)
        good = good and lc is not None and lc[0] == 0 and lc[1] == [0, 1] and lc[2] == [2, 3] and lc[3]
    for x in passes:
        lc = len_check(x)
        good = good and lc is not None and lc[0] == 1
    if good:
        r.ok(fn, "BadRawLength", "stored block accepted iff LEN (bytes 0-1, little endian) == !NLEN (bytes 2-3)")
    else:
        r.fail(fn, "BadRawLength", "stored-block length check LEN == !NLEN is missing or malformed")
    # repeat-previous without previous; code size sum
    rows = M.arm_rows("ReadLitlenDistTablesCodeSize")
    fails = [x for x in rows if x.target == "BadCodeSizeDistPrevLookup"]
    good = bool(fails)
    for x in fails:
        sym = subject_with(x, lambda s: s.single() == 16)
        cnt = [t for t in cmp_operands(x) if paths.term_contains(t, lambda y: y[0] == "fld" and y[2] == "counter") and vs(x, t).single() == 0]
        good = good and sym is not None and bool(cnt)
    # no row with symbol 16 and counter possibly 0 proceeds to ReadExtraBitsCodeSize
    for x in rows:
        if x.target == "ReadExtraBitsCodeSize":
            for t in cmp_operands(x):
                if not is_const(t) and vs(x, t).single() == 16:
                    cn0 = [q for q in cmp_operands(x) if q[0] == "load" and paths.place_is_field(q[1], "counter")]
                    if not any(not vs(x, q).contains(0) for q in cn0):
                        good = False
    if good:
        r.ok(fn, "BadCodeSizeDistPrevLookup", "repeat-previous (16) with no previous length rejected")
    else:
        r.fail(fn, "BadCodeSizeDistPrevLookup", "code-length symbol 16 as the first symbol is not rejected on every path")
    fails = [x for x in rows if x.target == "BadCodeSizeSum"]
    done = [x for x in rows if x.kind in ("jump", "end") and x.target in ("DecodeLitlen", "BadTotalSymbols", "Failed") and x not in fails]
    good = bool(fails) and bool(done)
    for x in done:
        # the final copy happens only under counter == HLIT + HDIST
        eqs = [a for a, s in x.atoms if a[0] == "bin" and a[1] in ("Ne", "Eq") and
               ((a[1] == "Ne" and s.single() == 0) or (a[1] == "Eq" and s.single() == 1)) and
               paths.term_contains(a, lambda y: y[0] == "fld" and y[2] == "counter") and
               paths.term_contains(a, lambda y: y[0] == "fld" and y[2] == "table_sizes")]
        good = good and bool(eqs)
    if good:
        r.ok(fn, "BadCodeSizeSum", "code-length run overshooting HLIT+HDIST rejected; tables built only under counter == HLIT+HDIST")
    else:
        r.fail(fn, "BadCodeSizeSum", "code lengths are accepted without counter == HLIT + HDIST")
    # distance before start (slow)
    rows = M.arm_rows("HuffDecodeOuterLoop2")
    fails = [x for x in rows if x.target == "DistanceOutOfBounds"]
    passes = [x for x in rows if x.kind == "jump" and x.target != "DistanceOutOfBounds"]
    r_dist(r, fn, "DistanceOutOfBounds/slow", fails, passes, NONWRAP)
    # fast path siblings
    df = c.fn("inflate::core::decompress_fast")
    ctx.touched(df)
    ev = paths.Evaluator(c, effects=ctx.effects(cfg), pure_calls=sm.PURE, inline=["inflate::core::State::begin"], max_paths=6000)
    frows = [x for x in ev.run(df) if x.outcome[0] == "return"]

    def st_of(x):
        ops = tuple_ops(x.ret)
        return (ops[0][2] if ops and ops[0][0] == "enum" else None, ops[1][2] if ops and ops[1][0] == "enum" else None)
    by = {}
    for x in frows:
        by.setdefault(st_of(x), []).append(x)
    cont = [x for x in ev.rows if x.outcome[0] == "backedge"]
    threshold_rule(r, df.name, "InvalidLitlen/fast", by.get(("Failed", "InvalidLitlen"), []),
                   by.get(("Failed", "InvalidDist"), []) + by.get(("Failed", "DistanceOutOfBounds"), []),
                   rfc.EOB + len(rfc.LENGTH_BASE), "an undefined length symbol")
    threshold_rule(r, df.name, "InvalidDist/fast", by.get(("Failed", "InvalidDist"), []),
                   by.get(("Failed", "DistanceOutOfBounds"), []), len(rfc.DIST_BASE) - 1, "an undefined distance symbol")
    okstates = [k for k in by if k[0] == "Done"]
    r_dist(r, df.name, "DistanceOutOfBounds/fast", by.get(("Failed", "DistanceOutOfBounds"), []),
           [x for x in cont if calls_named(x, "inflate::core::apply_match")], NONWRAP)
    extra = [k for k in by if k not in (("Failed", "InvalidLitlen"), ("Failed", "InvalidDist"), ("Failed", "DistanceOutOfBounds"),
                                         ("Done", "DecodeLitlen"), ("Done", "BlockDone"))]
    if extra:
        r.fail(df.name, "fast-exits", "decompress_fast has exits outside the reviewed set: %s" % extra)
    else:
        r.ok(df.name, "fast-exits", "exits: %s" % sorted(by))
    # init_tree
    it = c.fn("inflate::core::init_tree")
    ctx.touched(it)
    HUFFLEN = c.const_int("inflate::core::HUFFLEN_TABLE")
    # decided on the path tables of init_tree (rows from the entry and from every loop head), by value sets — independent of how the
    # tests are spelled (`!=` / `==`, De Morgan, named booleans, `if` / `match`):
    #   over-subscription: a row that returns BadTotalSymbols from inside the counting loop has a quantity proved negative;
    #   completeness: after the counting loop, with T the Kraft total (the term compared with 65536), B the table kind and M the longest
    #   code length: reject  <=>  T != 65536 and (B == code-length table or M > 1).
    E_ = ctx.effects(cfg)
    rows0 = paths.Evaluator(c, effects=E_, pure_calls=sm.PURE, max_paths=6000, max_blocks=80).run(it)
    heads_ = sorted({x.outcome[1] for x in rows0 if x.outcome[0] == "backedge"})
    # rows from the entry run through the loops with zero iterations, where the totals are still the constants they were initialised
    # with (tests on them fold away): the completeness test is therefore judged on the rows that start at a loop head
    allrows = []
    for h_ in heads_:
        allrows += paths.Evaluator(c, effects=E_, pure_calls=sm.PURE, max_paths=6000, max_blocks=80,
                                   stop_blocks=[q for q in heads_ if q != h_]).run(it, start_bb=h_)

    def is_bts(x):
        return x.outcome[0] == "return" and x.ret and x.ret[0] == "agg" and x.ret[2] == "Some" and \
            paths.term_contains(x.ret, lambda y: y and y[0] == "enum" and y[2] == "BadTotalSymbols")

    def subjects(x, const):
        out = []
        for a, sset in x.atoms:
            if a[0] == "bin" and a[1] in CMP_OPS and is_const(a[3]) and const_val(a[3]) == const and not is_const(a[2]):
                out.append(a[2])
        return out
    CMP_OPS = ("Eq", "Ne", "Lt", "Le", "Gt", "Ge")
    n_over = n_inc = n_pass = 0
    bad = None
    for x in allrows:
        if x.outcome[0] == "diverge":
            continue
        T = subjects(x, 1 << 16)
        if not T:
            if is_bts(x):
                neg = [a[2] for a, sset in x.atoms if a[0] == "bin" and a[1] in CMP_OPS and is_const(a[3]) and const_val(a[3]) == 0]
                if any(vs(x, t).hi() is not None and vs(x, t).hi() < 0 for t in neg):
                    n_over += 1
                else:
                    bad = bad or ("a BadTotalSymbols exit is neither under a negative Kraft remainder nor after the total != 65536 test: %s" % x.describe(12))
            continue
        tv = vs(x, T[0])
        incomplete = not tv.contains(1 << 16)
        complete = tv.single() == 1 << 16
        B = [t for t in subjects(x, HUFFLEN)]
        M = [t for t in subjects(x, 1) if t not in B]
        is_cl = any(vs(x, t).single() == HUFFLEN for t in B)
        not_cl = any(not vs(x, t).contains(HUFFLEN) for t in B)
        m_gt1 = any(vs(x, t).lo() is not None and vs(x, t).lo() > 1 for t in M)
        m_le1 = any(vs(x, t).hi() is not None and vs(x, t).hi() <= 1 for t in M)
        if is_bts(x):
            if incomplete and (is_cl or m_gt1):
                n_inc += 1
            else:
                bad = bad or ("a code set is rejected as incomplete outside (total != 65536 ∧ (code-length table ∨ longest code > 1)): %s" % x.describe(14))
        else:
            if complete or (not_cl and m_le1):
                n_pass += 1
            else:
                bad = bad or ("a code set is accepted although total != 65536 is possible and it is not a literal/length or distance set whose "
                              "longest code is a single bit: %s" % x.describe(14))
    if bad:
        r.fail(it.name, "BadTotalSymbols/incomplete-exemption", bad)
    if n_over >= 1 and n_inc >= 1 and n_pass >= 1:
        r.ok(it.name, "BadTotalSymbols", "over-subscription (negative remainder) and incompleteness (total != 65536, except a lone 1-bit litlen/dist code) "
             "both rejected (%d + %d rejecting rows, %d accepting rows)" % (n_over, n_inc, n_pass))
    else:
        r.fail(it.name, "BadTotalSymbols", "init_tree must reject over-subscribed (left < 0) and incomplete (total != 1<<16) code sets; "
               "found %d over-subscription, %d incompleteness and %d accepting rows" % (n_over, n_inc, n_pass))
    # INVALID_CODE filler decodes to an out-of-range symbol with a non-zero length
    inv = c.const("init_tree::INVALID_CODE", required=False)
    if inv is not None and "int" in inv:
        v = int(inv["int"])
        if (v & 511) > rfc.EOB + len(rfc.LENGTH_BASE) and (v >> 9) != 0:
            r.ok(it.name, "INVALID_CODE", "filler %d = length %d, symbol %d (> 285)" % (v, v >> 9, v & 511))
        else:
            r.fail(it.name, "INVALID_CODE", "fast-table filler %d must decode to a symbol > 285 with a non-zero length" % v)
        fills = [t for bb, t in call_sites(it, "slice::<impl [T]>::fill")]
        okfill = False
        for t in fills:
            a = t["args"][1]
            if "k" in a and a["k"].get("item", "").endswith("INVALID_CODE"):
                okfill = True
        if okfill:
            r.ok(it.name, "INVALID_CODE-fill", "look_up.fill(INVALID_CODE)")
        else:
            r.fail(it.name, "INVALID_CODE-fill", "the fast lookup table is not pre-filled with INVALID_CODE")
    else:
        r.fail(it.name, "INVALID_CODE", "constant INVALID_CODE not found in init_tree")


def r_dist(r, fn, key, fails, passes, NONWRAP):
    """distance check: reject iff (dist > position ∧ non-wrapping) ∨ dist > buffer length"""
    if not fails or not passes:
        r.fail(fn, key, "distance-before-start check not found (rejecting rows %d, continuing rows %d)" % (len(fails), len(passes)))
        return

    def atoms_of(x):
        """-> (X, pos, ln, flag): the compared distance term and the truth values of the three tests on this row"""
        cand = {}
        flag = None
        for a, s in x.atoms:
            if a[0] == "bin" and a[1] == "Gt":
                if paths.term_contains(a[3], lambda y: y[0] == "pure" and y[1].endswith("position")):
                    cand.setdefault(a[2], {})["pos"] = s.single()
                elif a[3][0] == "len":
                    cand.setdefault(a[2], {})["len"] = s.single()
            if a[0] == "bin" and a[1] in ("Ne", "Eq") and a[2][0] == "bin" and a[2][1] == "BitAnd" and is_const(a[2][3]) and \
                    const_val(a[2][3]) == NONWRAP and is_const(a[3]) and const_val(a[3]) == 0:
                v = s.single()
                flag = v if a[1] == "Ne" else (None if v is None else 1 - v)
        # either test may be skipped by short-circuit evaluation on a given path; prefer the candidate that has both
        for X, d in sorted(cand.items(), key=lambda kv: -len(kv[1])):
            return X, d.get("pos"), d.get("len"), flag
        return None, None, None, flag
    for x in fails:
        X, pos, ln, flag = atoms_of(x)
        if X is None or not ((pos == 1 and flag == 1) or ln == 1):
            r.fail(fn, key, "a DistanceOutOfBounds path is not guarded by (dist > position ∧ flat buffer) ∨ dist > buffer length: %s" % x.describe(40))
            return
    for x in passes:
        X, pos, ln, flag = atoms_of(x)
        am = calls_named(x, "inflate::core::apply_match", "inflate::core::transfer")
        if X is None or ln != 0 or not (pos == 0 or flag == 0):
            r.fail(fn, key, "a match is applied without excluding a distance before the start of output: %s" % x.describe(40))
            return
        for e in am:
            if e[1].endswith("apply_match") and e[2][2] != X:
                r.fail(fn, key, "the distance handed to apply_match (%s) is not the one that was checked (%s)" % (tstr(e[2][2]), tstr(X)))
                return
    r.ok(fn, key, "reject iff (dist > position ∧ NON_WRAPPING) ∨ dist > out.len(); the checked distance is the applied one")


def dominating_atoms(crate, fn, bb):
    """[(term, value set)] of the switch edges that dominate block bb (local expression reconstruction)."""
    out = []
    ev = paths.Evaluator(crate)
    doms = fn.dominators().get(bb, set())
    for d in sorted(doms):
        t = fn.blocks[d]["t"]
        if "switch" not in t or d == bb:
            continue
        # which successor edge leads to bb exclusively?
        succ_to = []
        for v, tb in t["targets"]:
            if tb == bb or fn.dominates(tb, bb):
                succ_to.append(("v", int(v)))
        if t["otherwise"] == bb or fn.dominates(t["otherwise"], bb):
            succ_to.append(("o", None))
        if len(succ_to) != 1:
            continue
        term = local_expr(crate, fn, d, t["switch"])
        if term is None:
            continue
        isbool = False
        pl = t["switch"].get("c") or t["switch"].get("m")
        if pl is not None and not pl["p"]:
            isbool = fn.locals[pl["l"]]["ty"] == "bool"
        if succ_to[0][0] == "v":
            out.append((term, ISet.of(succ_to[0][1])))
        else:
            s = ISet._norm([(int(v), int(v)) for v, _ in t["targets"]]).compl()
            if isbool:
                s = s.inter(ISet.range(0, 1))
            out.append((term, s))
    return out


def local_expr(crate, fn, bb, operand, depth=0):
    """value term of an operand, expanding single-definition temporaries (no path sensitivity)."""
    from terms import CMP_NEG
    pl = operand.get("c") or operand.get("m")
    if pl is None:
        k = operand.get("k", {})
        if "int" in k:
            return ("int", int(k["int"]))
        return ("unknown", "const")
    if pl["p"] or depth > 8:
        return ("place", fn.name, repr(Place(pl).key()))
    l = pl["l"]
    defs = fn.defs().get(l, [])
    if len(defs) != 1 or defs[0][1] == "t" or l <= fn.argc:
        return ("var", fn.local_name(l) or "_%d" % l)
    if fn.local_name(l):
        # a named single-assignment binding (`let wrapped = flags & X != 0;`) stands for its defining expression, so that a guard
        # reads the same whether or not its parts were given names; bindings that merely copy another variable keep their name
        rv0 = fn.blocks[defs[0][0]]["s"][defs[0][1]]["a"][1]
        if not any(k in rv0 for k in ("bin", "un", "cast")):
            return ("var", fn.local_name(l))
    rv = fn.blocks[defs[0][0]]["s"][defs[0][1]]["a"][1]
    if "use" in rv:
        return local_expr(crate, fn, bb, rv["use"], depth + 1)
    if "bin" in rv:
        return ("bin", rv["bin"][0], local_expr(crate, fn, bb, rv["bin"][1], depth + 1),
                local_expr(crate, fn, bb, rv["bin"][2], depth + 1), None)
    if "un" in rv:
        return ("un", rv["un"][0], local_expr(crate, fn, bb, rv["un"][1], depth + 1), None)
    if "cast" in rv:
        return ("cast", local_expr(crate, fn, bb, rv["cast"][1], depth + 1), rv["cast"][2], "int")
    if "discr" in rv:
        return ("discr", ("place", fn.name, repr(Place(rv["discr"]).key())))
    return ("unknown", "rv")


# ---------------------------------------------------------------------------------------------- R04.2 / R05.3
def rule_failure_absorbing(ctx, cfg, r):
    M = machine(ctx, cfg)
    c = ctx.crate(cfg)
    fn = M.fn.name
    want = set(FAILURE_STATES)
    got = set(M.default_states)
    if got == want:
        r.ok(fn, "default-arm-states", "states without an explicit arm = the 10 failure states")
    else:
        r.fail(fn, "default-arm-states", "states handled by the default arm %s differ from the failure states %s"
               % (sorted(got), sorted(want)))
    # is_failure agrees (absent under rustc-dep-of-std only)
    f = c.fn("inflate::core::State::is_failure", required=False)
    if f is not None:
        ev = paths.Evaluator(c)
        yes = set()
        for row in ev.run(f):
            if row.outcome[0] == "return" and is_const(row.ret) and const_val(row.ret) == 1:
                for v in vs(row, ("discr", P(1))).values():
                    yes.add(M.names[v])
        if yes == want:
            r.ok(f.name, "is_failure", "is_failure() is true exactly on the failure states")
        else:
            r.fail(f.name, "is_failure", "is_failure() is true on %s, failure states are %s" % (sorted(yes), sorted(want)))
    rows = M.arm_rows("<default>")
    okk = rows and all(x.kind == "end" and x.target == "Failed" and not x.stores() and not x.calls() for x in rows)
    if okk:
        r.ok(fn, "default-arm", "failure states: break Failed, no effects")
    else:
        r.fail(fn, "default-arm", "the failure arm must only yield TINFLStatus::Failed without effects: %s" %
               [(x.kind, x.target) for x in rows])
    # every other End(Failed): only with a failure state saved, or from init_tree returning None
    n_none = 0
    for arm, x in all_rows(M):
        if x.kind == "end" and x.target == "Failed":
            st = state_of(M, x)
            if st in want:
                continue
            if calls_named(x, "inflate::core::init_tree"):
                n_none += 1
                continue
            r.fail(fn, "failed-nonsticky/" + arm, "End(Failed) with the resumable state %s saved and no init_tree inconsistency: "
                   "the failure would not be sticky: %s" % (st, x.describe(8)))
    if n_none > 3:
        r.fail(fn, "failed-nonsticky-count", "%d non-sticky End(Failed) exits (reference tree: 3, all init_tree(..).unwrap_or)" % n_none)
    else:
        for arm, x in all_rows(M):
            pass
        r.fail(fn, "init_tree-unwrap_or", "%d exits `init_tree(..).unwrap_or(End(Failed))` leave a resumable state saved" % n_none) \
            if n_none else r.ok(fn, "init_tree-unwrap_or", "none")


# ---------------------------------------------------------------------------------------------- R04.3
def rule_done_origin(ctx, cfg, r):
    M = machine(ctx, cfg)
    c = ctx.crate(cfg)
    fn = M.fn.name
    ZL = c.const_int("inflate_flags::TINFL_FLAG_PARSE_ZLIB_HEADER")
    for arm, x in all_rows(M):
        if x.kind == "end" and x.target == "Done":
            if arm == "DoneForever":
                r.ok(fn, "done-arm", "Done is the result of the DoneForever arm only")
            else:
                r.fail(fn, "done-arm/" + arm, "TINFLStatus::Done leaves the state machine from arm %s" % arm)
        if x.kind == "jump" and x.target == "DoneForever":
            if arm == "BlockDone":
                fin = [t for t in cmp_operands(x) if paths.term_contains(t, lambda y: y[0] == "fld" and y[2] == "finish")]
                okf = any(not vs(x, t).contains(0) for t in fin)
                zl = None
                for a, s in x.atoms:
                    if a[0] == "bin" and a[1] in ("Ne", "Eq") and a[2][0] == "bin" and a[2][1] == "BitAnd" and \
                            is_const(a[2][3]) and const_val(a[2][3]) == ZL:
                        v = s.single()
                        zl = v if a[1] == "Ne" else 1 - v
                if okf and zl == 0:
                    r.ok(fn, "doneforever/BlockDone", "final block ∧ no zlib trailer expected")
                else:
                    r.fail(fn, "doneforever/BlockDone", "BlockDone jumps to DoneForever without (final block ∧ !PARSE_ZLIB_HEADER): %s" % x.describe(10))
            elif arm == "ReadAdler32":
                cn = [t for t in cmp_operands(x) if t[0] == "load" and paths.place_is_field(t[1], "counter")]
                if any(vs(x, t).lo() is not None and vs(x, t).lo() >= 4 for t in cn):
                    r.ok(fn, "doneforever/ReadAdler32", "after 4 trailer bytes")
                else:
                    r.fail(fn, "doneforever/ReadAdler32", "ReadAdler32 finishes before 4 trailer bytes were read: %s" % x.describe(10))
            else:
                r.fail(fn, "doneforever/" + arm, "arm %s jumps to DoneForever" % arm)
    # decompress_fast's internal Done marker never escapes as a loop result
    for x in M.arm_rows("DecodeLitlen"):
        if calls_named(x, "inflate::core::decompress_fast") and x.kind == "end" and x.target == "Done":
            r.fail(fn, "fast-done-escapes", "decompress_fast's Done marker is returned as the decoder status")


# ---------------------------------------------------------------------------------------------- R04.4
def rule_end_of_input(ctx, cfg, r):
    M = machine(ctx, cfg)
    c = ctx.crate(cfg)
    HMI = c.const_int("inflate_flags::TINFL_FLAG_HAS_MORE_INPUT")
    f = c.fn("inflate::core::end_of_input")
    ctx.touched(f)
    ev = paths.Evaluator(c)
    ok = True
    for row in ev.run(f):
        ret = row.ret
        st = ret[4][0] if ret and ret[0] == "agg" and ret[2] == "End" else None
        bit = None
        for a, s in row.atoms:
            if a[0] == "bin" and a[1] in ("Ne", "Eq") and a[2][0] == "bin" and a[2][1] == "BitAnd" and is_const(a[2][3]) and const_val(a[2][3]) == HMI:
                v = s.single()
                bit = v if a[1] == "Ne" else 1 - v
        want = {1: "NeedsMoreInput", 0: "FailedCannotMakeProgress"}.get(bit)
        if st is None or st[0] != "enum" or st[2] != want:
            ok = False
            r.fail(f.name, "mapping", "end_of_input must give NeedsMoreInput iff HAS_MORE_INPUT is set: bit=%r -> %s" % (bit, tstr(ret)))
    if ok:
        r.ok(f.name, "mapping", "HAS_MORE_INPUT ? NeedsMoreInput : FailedCannotMakeProgress")
    # only origin of both statuses
    extra_origin = set()
    for variant in ("NeedsMoreInput", "FailedCannotMakeProgress"):
        sites = [(g, bb, sp) for g, bb, sp in agg_sites(c, "inflate::TINFLStatus", variant)
                 if g.kind in ("fn", "assoc", "closure") and g.name.startswith("inflate::core") and g.id != f.id]
        bad_sites = []
        for g_, bb_, sp_ in sites:
            # a starvation status built elsewhere is accepted when every path of that function that returns it has found the input
            # iterator empty and picks the status by the HAS_MORE_INPUT flag exactly as end_of_input does
            owner = g_
            while owner.kind == "closure" and owner.parent in c.fns:
                owner = c.fns[owner.parent]
            okk = True
            seen_ = 0
            try:
                rows_o = paths.Evaluator(c, effects=ctx.effects(cfg), max_paths=4000).run(owner)
            except Exception:
                rows_o, okk = [], False
            for x in rows_o:
                if not (x.ret and paths.term_contains(x.ret, lambda y: y[0] == "enum" and y[2] == variant)):
                    continue
                seen_ += 1
                bit_ = None
                for k2, v2 in mask_tests(x).items():
                    if k2[1] == HMI:
                        bit_ = v2
                exh = any(a_[0] == "discr" and s_.single() == 0 and paths.term_contains(a_, lambda y: y[0] in ("call", "pure") and str(y[1]).endswith("read_byte"))
                          for a_, s_ in x.atoms)
                if not exh or bit_ != (1 if variant == "NeedsMoreInput" else 0):
                    okk = False
            if not (okk and seen_):
                bad_sites.append((g_, bb_, sp_))
            else:
                if (g_.id, bb_) not in extra_origin:
                    r.ok(g_.name, "eoi-site", "starvation status built in place under input exhaustion and the HAS_MORE_INPUT mapping", sp_)
                extra_origin.add((g_.id, bb_))
        if bad_sites:
            r.fail(bad_sites[0][0].name, "origin-" + variant, "TINFLStatus::%s is constructed outside end_of_input" % variant, bad_sites[0][2])
        else:
            r.ok(f.name, "origin-" + variant, "constructed only in end_of_input")
    # call sites are control dependent on input exhaustion
    callers = callers_of(c, "inflate::core::end_of_input")
    n = 0
    for cn, sites in callers.items():
        g = c.fn(cn)
        for bb, t in sites:
            n += 1
            guards = dominating_atoms(c, g, bb)
            exhausted = False

            def is_bytes_left(t_):
                """a bytes_left() value: the call itself, or a local that holds its result"""
                if t_[0] in ("pure", "call") and str(t_[1]).endswith("bytes_left"):
                    return True
                if t_[0] == "var":
                    ls = [i for i in range(len(g.locals)) if g.local_name(i) == t_[1]]
                    for l_ in ls:
                        for d_ in g.defs().get(l_, []):
                            if d_[1] == "t" and callee_name(g.blocks[d_[0]]["t"]["call"]).endswith("bytes_left"):
                                return True
                return False
            for term, s in guards:
                # discriminant of read_byte() result == None, or bytes_left() == 0 in any spelling
                if term[0] == "discr" and s.single() == 0:
                    exhausted = True
                if term[0] == "bin" and is_const(term[3]) and s.single() is not None:
                    cv, v = const_val(term[3]), s.single()
                    zero = (term[1] == "Gt" and cv == 0 and v == 0) or (term[1] == "Eq" and cv == 0 and v == 1) or \
                        (term[1] == "Ne" and cv == 0 and v == 0) or (term[1] == "Lt" and cv == 1 and v == 1) or (term[1] == "Ge" and cv == 1 and v == 0)
                    if zero and (term[1] == "Gt" or is_bytes_left(term[2])):
                        exhausted = True
            if not exhausted:
                # decide on the paths instead (the call may sit in a closure handed to an Option combinator, or behind another spelling of the
                # test): every path of the enclosing function that reaches end_of_input has found the iterator empty
                owner = g
                while owner.kind == "closure" and owner.parent in c.fns:
                    owner = c.fns[owner.parent]
                rows_o = paths.Evaluator(c, effects=ctx.effects(cfg), inline=["inflate::core::end_of_input"], max_paths=4000).run(owner)
                hits = [x for x in rows_o if any(e[0] == "enter" and e[1].endswith("inflate::core::end_of_input") for e in x.effects)]

                def row_exhausted(x):
                    for a_, s_ in x.atoms:
                        if a_[0] == "discr" and s_.single() == 0 and paths.term_contains(a_, lambda y: y[0] in ("call", "pure") and str(y[1]).endswith("read_byte")):
                            return True
                    for lhs, rel, rhs in rels(x):
                        for p_, q_ in ((lhs, rhs), (rhs, lhs)):
                            if p_[0] in ("pure", "call") and str(p_[1]).endswith("bytes_left") and is_const(q_):
                                if (rel == "Eq" and const_val(q_) == 0) or (rel == "Le" and p_ is lhs and const_val(q_) == 0) or \
                                        (rel == "Lt" and p_ is lhs and const_val(q_) == 1):
                                    return True
                    return False
                exhausted = bool(hits) and all(row_exhausted(x) for x in hits)
            if exhausted:
                r.ok(g.name, "eoi-site", "end_of_input reached only when the input iterator is exhausted", t.get("sp"))
            else:
                r.fail(g.name, "eoi-site", "end_of_input is called on a path that does not establish input exhaustion: %s"
                       % [(tstr(a), repr(s)) for a, s in guards], t.get("sp"))
    if n + len({g for g, _ in extra_origin}) < 2:
        r.fail(f.name, "eoi-site-count", "%d call sites of end_of_input (reference tree: 2)" % n)
    # in the machine: every suspension on input carries the exhausted-input fact or comes from a reader helper
    for arm, x in all_rows(M):
        if x.kind == "end" and x.target in ("NeedsMoreInput", "FailedCannotMakeProgress"):
            bl = [st_ for a, s in x.atoms for st_ in paths.subterms(a) if st_ and st_[0] == "pure" and str(st_[1]).endswith("InputWrapper::bytes_left")]
            src = calls_named(x, "inflate::core::read_bits", "inflate::core::decode_huffman_code",
                              "InputWrapper::read_byte") or any(vs(x, t_).hi() is not None and vs(x, t_).hi() <= 0 for t_ in bl)
            if not src:
                r.fail(M.fn.name, "suspend-without-read/" + arm, "arm %s suspends for input without having tried to read: %s" % (arm, x.describe(8)))


# ---------------------------------------------------------------------------------------------- R04.5 / R09.5
def rule_zlib_header(ctx, cfg, r, exhaustive=True):
    import termeval
    c = ctx.crate(cfg)
    f = c.fn("inflate::core::validate_zlib_header")
    ctx.touched(f)
    NONWRAP = c.const_int("inflate_flags::TINFL_FLAG_USING_NON_WRAPPING_OUTPUT_BUF")
    ev = paths.Evaluator(c)
    rows = [x for x in ev.run(f) if x.outcome[0] == "return"]

    def leaf(t):
        if t[0] == "param":
            return ["cmf", "flg", "flags", "mask"][t[1] - 1]
        raise termeval.Unsupported(tstr(t))
    comp = []
    try:
        for x in rows:
            tgt = x.ret[4][0][2] if x.ret and x.ret[0] == "agg" and x.ret[2] == "Jump" and x.ret[4][0][0] == "enum" else None
            comp.append((termeval.make_fn(termeval.row_condition(x, leaf), ["cmf", "flg", "flags", "mask"]), tgt))
    except termeval.Unsupported as e:
        r.fail(f.name, "compile", "cannot evaluate the header predicate: %s" % e)
        return
    bad = []
    n = 0
    masks = [(NONWRAP, (1 << 64) - 1)] + [(0, (1 << k) - 1) for k in (0, 8, 9, 12, 14, 15, 16)]
    cmfs = range(256)
    flgs = range(256)
    for flags, mask in masks:
        for cmf in cmfs:
            win = rfc.zlib_window(cmf)
            for flg in flgs:
                n += 1
                hit = [tgt for fnc, tgt in comp if fnc(cmf, flg, flags, mask)]
                want_ok = rfc.zlib_header_ok(cmf, flg) and (flags & NONWRAP or mask + 1 >= win)
                want = "ReadBlockHeader" if want_ok else "BadZlibHeader"
                if hit != [want]:
                    bad.append((cmf, flg, flags, mask, hit, want))
                    if len(bad) > 3:
                        break
            if len(bad) > 3:
                break
        if len(bad) > 3:
            break
    if bad:
        r.fail(f.name, "rfc1950", "validate_zlib_header disagrees with RFC 1950 (CM=8, CINFO<=7, FDICT=0, %%31, window<=buffer in ring mode) "
               "e.g. (cmf=%d, flg=%d, flags=%d, mask=%d) -> %s, expected %s" % bad[0])
    else:
        r.ok(f.name, "rfc1950", "%d (CMF, FLG, mode) combinations: accept iff RFC 1950 valid and the declared window fits the ring" % n)
    ctx.extra["zlib_header_pairs_evaluated"] = n
    # the machine feeds it (z_header0, byte, flags, out_buf_size_mask)
    M = machine(ctx, cfg)
    okarg = False
    for x in M.arm_rows("ReadZlibFlg"):
        for e in x.effects:
            if e[0] == "enter" and e[1].endswith("validate_zlib_header"):
                a = e[2]
                okarg = paths.is_load_of(a[0], "z_header0", "DecompressorOxide") and a[2] == P(6)
    if okarg:
        r.ok(M.fn.name, "header-args", "validate_zlib_header(r.z_header0, flg, flags, mask)")
    else:
        r.fail(M.fn.name, "header-args", "ReadZlibFlg does not validate (z_header0, flg) with the call's flags")


# ---------------------------------------------------------------------------------------------- R05.1
def rule_param_validation(ctx, cfg, r):
    """BadParam <=> out_pos > out.len()  or  (ring mode and out.len() is neither 0 nor a power of two); decided by evaluating the path
    conditions of the function prefix (everything before the decode loop) over a grid of buffer geometries — independent of how the
    two tests are written (mask trick, is_power_of_two, one combined or two separate returns)."""
    import termeval
    M = machine(ctx, cfg)
    c = ctx.crate(cfg)
    fn = M.fn.name
    NONWRAP = c.const_int("inflate_flags::TINFL_FLAG_USING_NON_WRAPPING_OUTPUT_BUF")
    ev = paths.Evaluator(c, effects=ctx.effects(cfg), stop_blocks=[M.loop_head], pure_calls=sm.PURE)
    rows = ev.run(M.fn)
    ptr = ev.ptr
    nbad = 0
    compiled = []
    for x in rows:
        if x.outcome[0] == "return":
            ops = tuple_ops(x.ret)
            if ops and is_enum(ops[0], "BadParam") and const_val(ops[1]) == 0 and const_val(ops[2]) == 0 and \
                    not param_stores(x) and not [e for e in x.calls() if not e[1].startswith("core::")]:
                nbad += 1
                r.ok(fn, "badparam-row", "(BadParam, 0, 0) with no store through r / out")
                kind = "bad"
            else:
                r.fail(fn, "early-return", "an early return other than (BadParam,0,0) without effects: %s" % x.describe(8))
                continue
        elif x.outcome[0] == "stop":
            kind = "go"
        elif x.outcome[0] == "diverge":
            continue
        else:
            r.fail(fn, "prefix-outcome", "unexpected outcome in the prefix: %s" % (x.outcome,))
            continue

        def leaf(q):
            if q[0] == "len" and q[1] == ("load", ("deref", P(3)), 0):
                return "L"
            if q == P(4):
                return "Pp"
            if q == P(6):
                return "F"
            if q == P(7):
                return "MX"
            raise termeval.Unsupported(tstr(q))
        try:
            compiled.append((kind, termeval.make_fn(termeval.row_condition(x, leaf, ptr), ["L", "Pp", "F", "MX"]), x))
        except termeval.Unsupported as e:
            # a condition on something other than the buffer geometry / flags before the loop: decoder state is consulted first
            r.fail(fn, "valid-row", "the function prefix branches on %s before the geometry tests are settled: %s" % (e, x.describe(8)))
    if nbad < 1:
        r.fail(fn, "badparam-rows", "no (BadParam, 0, 0) exit found before the decode loop")
    top = (1 << ptr) - 1
    lens = sorted(set(list(range(0, 40)) + [q for k in range(5, ptr) for q in ((1 << k) - 1, 1 << k, (1 << k) + 1)] + [top - 1, top]))
    wrong = None
    n = 0
    for L in lens:
        for Pp in sorted({0, 1, max(0, L - 1), L, min(top, L + 1), top}):
            for F in (0, NONWRAP, NONWRAP | 1, 3):
                want_bad = Pp > L or (not (F & NONWRAP) and L != 0 and (L & (L - 1)) != 0)
                hit = [k for k, g, x in compiled if g(L, Pp, F, 1000)]
                n += 1
                if len(hit) != 1 or (hit[0] == "bad") != want_bad:
                    wrong = wrong or (L, Pp, F, want_bad, hit)
    if wrong:
        r.fail(fn, "valid-row", "buffer geometry len=%d out_pos=%d flags=%#x: BadParam expected %s, the prefix takes %s" % wrong)
    else:
        r.ok(fn, "valid-row", "%d geometries (len x out_pos x ring/flat): BadParam exactly when out_pos > len or a ring buffer whose length is neither 0 "
             "nor a power of two; nothing of *r or out is touched first" % n)


# ---------------------------------------------------------------------------------------------- epilogue table
_epi = {}


def epilogue_rows(ctx, cfg):
    if cfg not in _epi:
        M = machine(ctx, cfg)
        c = ctx.crate(cfg)
        ev = paths.Evaluator(c, effects=ctx.effects(cfg), pure_calls=sm.PURE)
        _epi[cfg] = [x for x in ev.run(M.fn, start_bb=M.exit)]
    return _epi[cfg]


def status_term(M):
    return ("unknown", "local0.%d" % M.status_local)



def undo_event(x):
    """The hand-back of whole look-ahead bytes on a row, whichever way it is written:
       a call undo_bytes(&mut l, max)                      -> ('call', result term, max term, span)
       the same arithmetic in place on l.num_bits            -> ('inline', min term k, M, None)   (nb - 8 * k, k = min(nb >> 3, M), for all nb)
    or None."""
    for e in x.effects:
        if e[0] == "call" and e[1].endswith("inflate::core::undo_bytes"):
            return ("call", call_res(e), e[2][1], e[3])
    for k_, v in x.store.items():
        if isinstance(k_, tuple) and k_ and k_[0] == "fld" and k_[2] == "num_bits" and k_[3].endswith("LocalVars") and isinstance(v, tuple):
            for cand in {q for q in paths.subterms(v) if _is_nb_load(q)}:
                iu = inline_undo(v, lambda q, cand=cand: q == cand)
                if iu:
                    return ("inline", iu[0], iu[1], None)
    return None


def rule_counts_and_undo(ctx, cfg, r4, r6):
    """R05.4 returned counts; R06.1 undo_bytes on every non-starved status."""
    M = machine(ctx, cfg)
    c = ctx.crate(cfg)
    fn = M.fn.name
    ST = discrs(c, "TINFLStatus")
    rows = epilogue_rows(ctx, cfg)
    stt = status_term(M)
    for x in rows:
        if x.outcome[0] != "return":
            r4.fail(fn, "epilogue-outcome", "epilogue path does not return: %s" % (x.outcome,))
            continue
        ops = tuple_ops(x.ret)
        uev = undo_event(x)
        undo = [uev] if uev else []
        sv = vs(x, stt)
        starved = sv.subset_of(ISet.of(ST["NeedsMoreInput"], ST["FailedCannotMakeProgress"]))
        maybe_starved = sv.contains(ST["NeedsMoreInput"]) or sv.contains(ST["FailedCannotMakeProgress"])
        if starved:
            if undo:
                r6.fail(fn, "undo-when-starved", "undo_bytes is applied although the decoder is starved for input: %s" % x.describe(6))
            else:
                r6.ok(fn, "undo-when-starved", None)
        elif not maybe_starved:
            okk = len(undo) == 1
            if okk:
                consumed_arg = uev[2]
                # max = (in_buf.len() - in_iter.bytes_left()) as u32
                okk = paths.term_contains(consumed_arg, lambda y: y[0] == "bin" and y[1] == "Sub" and y[2][0] == "len" and
                                          y[3][0] == "pure" and y[3][1].endswith("InputWrapper::bytes_left"))
            if okk:
                r6.ok(fn, "undo-non-starved", "whole unread bytes handed back (min(num_bits / 8, consumed)) on a non-starved status", uev[3])
            else:
                r6.fail(fn, "undo-non-starved", "a non-starved status returns without giving back whole unread bytes: %s" % x.describe(6))
        else:
            r6.fail(fn, "undo-undecided", "epilogue does not distinguish starved statuses: %s" % x.describe(6))
        # counts
        if not ops or len(ops) != 3:
            r4.fail(fn, "ret-shape", "decompress_with_limit does not return a triple")
            continue
        cin, cout = ops[1], ops[2]
        want_in = "len(in_buf) - in_iter.bytes_left()" + (" - in_undo" if undo else "")

        def is_consumed(t):
            return t[0] == "bin" and t[1] == "Sub" and t[2][0] == "len" and t[3][0] == "pure" and t[3][1].endswith("InputWrapper::bytes_left")
        if undo:
            res = uev[1]
            okin = cin[0] == "bin" and cin[1] == "Sub" and is_consumed(cin[2]) and (cin[3] == res or (cin[3][0] == "cast" and cin[3][1] == res))
        else:
            okin = is_consumed(cin) or (cin[0] == "bin" and cin[1] == "Sub" and is_consumed(cin[2]) and is_const(cin[3]) and const_val(cin[3]) == 0)
        okout = cout[0] == "bin" and cout[1] == "Sub" and cout[2][0] == "pure" and cout[2][1].endswith("OutputBuffer::position") and cout[3] == P(4)
        if okin and okout:
            r4.ok(fn, "counts", "(%s, position - out_pos)" % want_in)
        else:
            r4.fail(fn, "counts", "returned counts are not (%s, out_buf.position() - out_pos): (%s, %s)" % (want_in, tstr(cin), tstr(cout)))
    if not rows:
        r4.fail(fn, "epilogue", "no epilogue rows")


def rule_undo_bytes_value(ctx, cfg, r):
    """undo_bytes(l, max) returns min(l.num_bits / 8, max) and leaves l.num_bits - 8 * result bits (bit_buf untouched); decided by
    evaluating the path table of the function for every num_bits in 0..=64 and a grid of `max` — so `>> 3` / `/ 8`, cmp::min / if-else
    are all the same to the rule."""
    import termeval
    c = ctx.crate(cfg)
    f = c.fn("inflate::core::undo_bytes")
    ctx.touched(f)
    rows = [x for x in paths.Evaluator(c, effects=ctx.effects(cfg)).run(f) if x.outcome[0] == "return"]

    def leaf(q):
        if q[0] == "load" and paths.place_is_field(q[1], "num_bits") and q[2] == 0:
            return "NB"
        if q == P(2):
            return "MX"
        raise termeval.Unsupported(tstr(q))
    comp = []
    try:
        for x in rows:
            cond = termeval.make_fn(termeval.row_condition(x, leaf), ["NB", "MX"])
            ret = termeval.make_fn(termeval.compile_term(x.ret, leaf), ["NB", "MX"])
            st = [e for e in x.stores() if e[1][0] == "fld" and e[1][2] == "num_bits"]
            nb = termeval.make_fn(termeval.compile_term(st[-1][2], leaf), ["NB", "MX"]) if st else (lambda NB, MX: NB)
            other = [e for e in x.stores() if not (e[1][0] == "fld" and e[1][2] == "num_bits")]
            comp.append((cond, ret, nb, other))
    except termeval.Unsupported as e:
        r.fail(f.name, "value", "undo_bytes depends on %s: it must be a function of num_bits and max only" % e)
        return
    wrong = None
    for NB in range(0, 65):
        for MX in (0, 1, 2, 3, 4, 5, 7, 8, 9, 100, 1 << 31):
            hit = [q for q in comp if q[0](NB, MX)]
            want = min(NB // 8, MX)
            if len(hit) != 1 or hit[0][1](NB, MX) != want or hit[0][2](NB, MX) != NB - 8 * want or hit[0][3]:
                wrong = wrong or (NB, MX, want, [(q[1](NB, MX), q[2](NB, MX)) for q in hit])
    if wrong:
        r.fail(f.name, "value", "undo_bytes(num_bits=%d, max=%d) must return %d and keep the remaining bits; the function gives (result, new num_bits) = %s" % wrong)
    else:
        r.ok(f.name, "value", "for all num_bits in 0..=64 and the max grid: result = min(num_bits / 8, max), num_bits -= 8 * result, nothing else written")


def _eval_env(terms_, is_nb):
    """compile terms over shared leaves: the designated num_bits load -> 'nb', every other leaf -> its own variable.
    -> (functions, leaf list) or None"""
    import termeval
    names = {}

    def leaf(q):
        if is_nb(q):
            return "nb"
        if q not in names:
            names[q] = "v%d" % len(names)
        return names[q]
    try:
        exprs = [termeval.compile_term(t, leaf) for t in terms_]
    except Exception:
        return None
    args = ["nb"] + [names[q] for q in names]
    if len(args) > 4:
        return None
    return [termeval.make_fn(e, args) for e in exprs], list(names)


def inline_undo(v, is_nb):
    """(k, M) when the term `v` (the value num_bits is left with) equals nb - 8 * k with k = min(nb >> 3, M) for every nb in 0..=64
    and sample values of the other leaves — the hand-back of whole look-ahead bytes written out in place instead of through undo_bytes"""
    import itertools
    for k in [q for q in paths.subterms(v) if q[0] == "pure" and q[1] == "min" and len(q[2]) == 2]:
        for a, m in ((k[2][0], k[2][1]), (k[2][1], k[2][0])):
            env = _eval_env([v, k, a, m], is_nb)
            if env is None:
                continue
            (fv, fk, fa, fm), others = env
            if paths.term_contains(m, is_nb):
                continue
            good = True
            for vals in itertools.product((0, 1, 3, 8, 100), repeat=len(others)):
                for nb in range(0, 65):
                    mv = fm(nb, *vals)
                    if fa(nb, *vals) != nb >> 3 or fk(nb, *vals) != min(nb >> 3, mv) or fv(nb, *vals) != nb - 8 * min(nb >> 3, mv):
                        good = False
                        break
                if not good:
                    break
            if good:
                return k, m
    return None


def rule_blockdone_order(ctx, cfg, r):
    """R06.1 second half: after the final block the decoder drops the bits of the partially used byte, hands whole look-ahead bytes back
    (undo_bytes or the same arithmetic in place), rebuilds the input iterator at consumed - handed back, and masks bit_buf."""
    import slices
    import termeval
    M = machine(ctx, cfg)
    c = ctx.crate(cfg)
    fn = M.fn.name
    n = 0

    def is_nb_load(q):
        return isinstance(q, tuple) and q and q[0] == "load" and paths.place_is_field(q[1], "num_bits", "LocalVars")
    for x in M.arm_rows("BlockDone"):
        if not (x.kind == "jump" and x.target in ("DoneForever", "ReadAdler32")):
            continue
        n += 1
        order = []
        # pad: read_bits(l, num_bits & 7, ..) — directly or through pad_to_bytes
        pad_at = None
        for i, e in enumerate(x.effects):
            if e[0] == "call" and e[1].endswith("inflate::core::read_bits") and len(e[2]) > 1 and pad_at is None:
                try:
                    g = termeval.make_fn(termeval.compile_term(e[2][1], lambda q: "nb" if is_nb_load(q) else (_ for _ in ()).throw(termeval.Unsupported(tstr(q)))), ["nb"])
                    if all(g(nb) == (nb & 7) for nb in range(0, 65)):
                        pad_at = i
                except Exception:
                    pass
        if pad_at is not None:
            order.append("pad")
        # hand-back: undo_bytes call, or its arithmetic in place
        undo_at = None
        res = mx = None
        for i, e in enumerate(x.effects):
            if e[0] == "call" and e[1].endswith("inflate::core::undo_bytes") and (pad_at is None or i > pad_at):
                undo_at, res, mx = i, call_res(e), e[2][1]
                break
        if undo_at is None:
            for k_, v in x.store.items():
                if isinstance(k_, tuple) and k_ and k_[0] == "fld" and k_[2] == "num_bits" and k_[3].endswith("LocalVars") and isinstance(v, tuple):
                    nbs = [q for q in paths.subterms(v) if is_nb_load(q)]
                    for cand in {q for q in nbs}:
                        iu = inline_undo(v, lambda q, cand=cand: q == cand)
                        if iu:
                            res, mx = iu
                            undo_at = -1
                            break
        if undo_at is not None:
            order.append("undo")
        fs = [(i, e) for i, e in enumerate(x.effects) if e[0] == "call" and e[1].endswith("InputWrapper::from_slice")]
        if fs:
            order.append("rebuild")
        for k_, v in x.store.items():
            if isinstance(k_, tuple) and k_ and k_[0] == "fld" and k_[2] == "bit_buf" and k_[3].endswith("LocalVars") and \
                    isinstance(v, tuple) and v[0] == "bin" and v[1] == "BitAnd" and \
                    paths.term_contains(v[3], lambda y: y[0] == "load" and paths.place_is_field(y[1], "num_bits", "LocalVars") and y[2] != 0 or
                                        (y[0] == "pure" and y[1] == "min")):
                order.append("mask")
                break
        if order == ["pad", "undo", "rebuild", "mask"] and (undo_at == -1 or pad_at < undo_at < fs[-1][0]):
            # the rebuilt iterator starts at consumed - handed back
            reg = slices.region(fs[-1][1][2][0], store=x.store)
            okk = reg is not None and reg.root in (P(2), ("deref", P(2))) and reg.off == slices.lsub(slices.lin(mx), slices.lin(res))
            if okk:
                r.ok(fn, "blockdone-order", "drop num_bits & 7 bits → hand back min(num_bits / 8, consumed) bytes → in_iter = in_buf[consumed - undo ..] → mask bit_buf")
            else:
                r.fail(fn, "blockdone-rewind", "after the final block the input iterator is not rebuilt at consumed - undo: %s" % tstr(fs[-1][1][2][0])[:200])
        else:
            r.fail(fn, "blockdone-order", "final-block sequence is %s, expected pad, undo, rebuild, mask" % order)
    if n == 0:
        r.fail(fn, "blockdone-final", "no final-block path found in BlockDone")


# ---------------------------------------------------------------------------------------------- R07.x
def rule_localvars(ctx, cfg, r):
    """R07.1: every LocalVars field is loaded from the same-named field of *r before the loop and stored back after it."""
    M = machine(ctx, cfg)
    c = ctx.crate(cfg)
    fn = M.fn.name
    lv = c.adt("inflate::core::LocalVars")
    fields = [f["name"] for f in lv["variants"][0]["fields"]]
    # load: the aggregate LocalVars{..} in the prefix
    ev = paths.Evaluator(c, effects=ctx.effects(cfg), stop_blocks=[M.loop_head], pure_calls=sm.PURE)
    pre = [x for x in ev.run(M.fn) if x.outcome[0] == "stop"]
    okl = bool(pre)
    lplace = None
    for x in pre:
        agg = None
        for k, v in x.store.items():
            if isinstance(v, tuple) and v and v[0] == "agg" and v[1].endswith("LocalVars"):
                agg, lplace = v, k
        if agg is None:
            okl = False
            continue
        for name, op in zip(agg[3], agg[4]):
            if not (paths.is_load_of(op, name, "DecompressorOxide") and op[1][1] == ("deref", P(1))):
                okl = False
                r.fail(fn, "load-" + name, "LocalVars.%s is not initialised from r.%s: %s" % (name, name, tstr(op)))
        st = x.store.get(("local", 0, M.state_local))
        if not (st and paths.is_load_of(st, "state", "DecompressorOxide")):
            okl = False
            r.fail(fn, "load-state", "`state` is not initialised from r.state")
    if okl:
        r.ok(fn, "load", "l = LocalVars{%s} from *r; state = r.state" % ", ".join(fields))
    # store back in the epilogue, every row
    oks = True
    for x in epilogue_rows(ctx, cfg):
        if x.outcome[0] != "return":
            continue
        for name in fields + ["state"]:
            sts = store_to_field(x, name, "DecompressorOxide")
            if not sts:
                oks = False
                r.fail(fn, "store-" + name, "r.%s is not written back on an exit path" % name)
                continue
            v = sts[0][2]
            if name == "state":
                good = v == ("unknown", "local0.%d" % M.state_local) or (v[0] == "enum")
            else:
                # the value l.<name> has at that point: a load of the local's field, or what the path itself last assigned to it
                lvals = [val_ for k_, val_ in x.store.items() if isinstance(k_, tuple) and k_ and k_[0] == "fld" and k_[2] == name and k_[3].endswith("LocalVars")]
                good = (v[0] == "load" and paths.place_is_field(v[1], name, "LocalVars")) or (lvals and v == lvals[-1])
            if not good:
                oks = False
                r.fail(fn, "store-" + name, "r.%s is written back from %s instead of l.%s" % (name, tstr(v), name))
    if oks:
        r.ok(fn, "store", "r.{state, %s} written back on every exit" % ", ".join(fields))
    # decompress_fast copies *local_vars in and out on every return
    df = c.fn("inflate::core::decompress_fast")
    ev = paths.Evaluator(c, effects=ctx.effects(cfg), pure_calls=sm.PURE, inline=["inflate::core::State::begin"], max_paths=6000)
    okf = True
    nret = 0
    for x in ev.run(df):
        if x.outcome[0] != "return":
            continue
        nret += 1
        wb = [e for e in x.stores() if e[1] == ("deref", P(5))]
        if not wb:
            okf = False
            r.fail(df.name, "writeback", "decompress_fast returns without `*local_vars = l`: %s" % tstr(x.ret))
    if okf and nret:
        r.ok(df.name, "writeback", "*local_vars = l on all %d return rows" % nret)


def rule_loop_state(ctx, cfg, r):
    """R07.2: no hidden loop-carried state in the decode loop."""
    M = machine(ctx, cfg)
    fn = M.fn
    # blocks of the loop: reachable from the loop head without passing the exit
    loop = fn.reachable(M.loop_head, stop=[M.exit])
    assigned = {}
    used_before_def_at_head = set()
    for bb in loop:
        for s in fn.blocks[bb]["s"]:
            if "a" in s:
                l = s["a"][0]["l"]
                assigned.setdefault(l, 0)
                assigned[l] += 1
        t = fn.blocks[bb]["t"]
        if "call" in t:
            assigned.setdefault(t["dest"]["l"], 0)
            assigned[t["dest"]["l"]] += 1
    # liveness at loop head: backward may-use analysis restricted to the loop
    live = live_in(fn, loop, M.loop_head)
    carried = sorted(l for l in live if l in assigned and not (1 <= l <= fn.argc))
    names = [fn.local_name(l) or "_%d" % l for l in carried]
    allowed = {"state", "l", "in_iter", "out_buf", "status"}
    extra = [n for n in names if n not in allowed]
    if extra:
        r.fail(fn.name, "loop-carried", "locals %s are assigned inside the decode loop and live at its head: they are lost when the "
               "call suspends (only state, l, in_iter, out_buf may carry state)" % extra)
    else:
        r.ok(fn.name, "loop-carried", "loop-carried locals: %s" % names)


def live_in(fn, region, head):
    """locals live at `head` (used before defined on some path inside region)."""
    use, deff = {}, {}
    for bb in region:
        u, d = set(), set()
        blk = fn.blocks[bb]

        def use_op(o):
            pl = o.get("c") or o.get("m")
            if pl is not None:
                if pl["l"] not in d:
                    u.add(pl["l"])
                for p in pl["p"]:
                    if isinstance(p, dict) and "i" in p and p["i"] not in d:
                        u.add(p["i"])

        def use_place(pl):
            if pl["l"] not in d:
                u.add(pl["l"])
        for s in blk["s"]:
            if "a" not in s:
                continue
            rv = s["a"][1]
            for key in ("use",):
                if key in rv:
                    use_op(rv[key])
            if "bin" in rv:
                use_op(rv["bin"][1]); use_op(rv["bin"][2])
            if "un" in rv:
                use_op(rv["un"][1])
            if "cast" in rv:
                use_op(rv["cast"][1])
            if "agg" in rv:
                for o in rv["agg"]["ops"]:
                    use_op(o)
            if "ref" in rv:
                use_place(rv["ref"])
            if "ptr" in rv:
                use_place(rv["ptr"])
            if "discr" in rv:
                use_place(rv["discr"])
            if "repeat" in rv:
                use_op(rv["repeat"][0])
            pl = s["a"][0]
            if pl["p"]:
                use_place(pl)
            else:
                d.add(pl["l"])
        t = blk["t"]
        if "switch" in t:
            use_op(t["switch"])
        if "assert" in t:
            use_op(t["assert"])
        if "call" in t:
            for a in t["args"]:
                use_op(a)
            if "indirect" in t["call"]:
                use_op(t["call"]["indirect"])
            if t["dest"]["p"]:
                use_place(t["dest"])
            else:
                d.add(t["dest"]["l"])
        if "drop" in t:
            use_place(t["drop"])
        use[bb], deff[bb] = u, d
    lin = {bb: set() for bb in region}
    changed = True
    while changed:
        changed = False
        for bb in region:
            out = set()
            for s in fn.succs(bb):
                if s in region:
                    out |= lin[s]
            new = use[bb] | (out - deff[bb])
            if new != lin[bb]:
                lin[bb] = new
                changed = True
    return lin[head]


def rule_override(ctx, cfg, r):
    """R07.3 / R08.5: HasMoreOutput overrides NeedsMoreInput when the output window is full (except while reading the trailer)."""
    M = machine(ctx, cfg)
    c = ctx.crate(cfg)
    fn = M.fn.name
    ST = discrs(c, "TINFLStatus")
    stt = status_term(M)
    n = 0
    for x in epilogue_rows(ctx, cfg):
        if x.outcome[0] != "return":
            continue
        ops = tuple_ops(x.ret)
        if not ops:
            continue
        final = ops[0]
        sv = vs(x, stt)
        full = None
        adl = None
        for a, s in x.atoms:
            if a[0] == "bin" and a[1] == "Eq" and a[2][0] == "pure" and a[2][1].endswith("OutputBuffer::bytes_left") and is_const(a[3]) and const_val(a[3]) == 0:
                full = s.single()
            if a[0] == "bin" and a[1] in ("Ne", "Eq") and a[3][0] == "enum" and a[3][2] == "ReadAdler32":
                v = s.single()
                adl = (1 - v) if a[1] == "Ne" else v
        if final[0] == "enum" and final[2] == "HasMoreOutput":
            if sv.single() == ST["HasMoreOutput"]:
                continue        # the status already was HasMoreOutput: nothing is substituted
            n += 1
            others = [k for k, v in ST.items() if sv.contains(v) and k not in ("NeedsMoreInput", "HasMoreOutput")]
            if sv.contains(ST["NeedsMoreInput"]) and not others and full == 1 and adl == 0:
                r.ok(fn, "override", "NeedsMoreInput ∧ bytes_left()==0 ∧ state≠ReadAdler32 → HasMoreOutput")
            else:
                r.fail(fn, "override", "HasMoreOutput substituted outside (NeedsMoreInput ∧ output full ∧ state≠ReadAdler32)%s: %s"
                       % ((" — it can replace " + "/".join(others)) if others else "", x.describe(8)))
        elif sv.single() == ST["NeedsMoreInput"] and full == 1 and adl == 0:
            r.fail(fn, "override-missing", "NeedsMoreInput is reported although the output window is full: %s" % x.describe(8))
    if n == 0:
        r.fail(fn, "override-missing", "the epilogue never turns NeedsMoreInput into HasMoreOutput when the output window is full")


# ---------------------------------------------------------------------------------------------- R09.4
def rule_adler_epilogue(ctx, cfg, r):
    M = machine(ctx, cfg)
    c = ctx.crate(cfg)
    fn = M.fn.name
    ST = discrs(c, "TINFLStatus")
    ZL = c.const_int("inflate_flags::TINFL_FLAG_PARSE_ZLIB_HEADER")
    IGN = c.const_int("inflate_flags::TINFL_FLAG_IGNORE_ADLER32")
    CMP = c.const_int("inflate_flags::TINFL_FLAG_COMPUTE_ADLER32")
    stt = status_term(M)
    seen_mismatch = 0
    for x in epilogue_rows(ctx, cfg):
        if x.outcome[0] != "return":
            continue
        ops = tuple_ops(x.ret)
        final = ops[0] if ops else None
        sv = vs(x, stt)
        fl = vs(x, ("bin", "BitAnd", P(6), ("int", IGN), "u32"))
        mt = mask_tests(x)
        ign = mt.get((P(6), IGN))
        need = mt.get((P(6), ZL | CMP))
        zl = mt.get((P(6), ZL))
        upd = calls_named(x, "shared::update_adler32")
        mism = None
        for a, s in x.atoms:
            if a[0] == "bin" and a[1] in ("Ne", "Eq") and paths.term_contains(a, lambda y: y[0] == "fld" and y[2] == "z_adler32"):
                v = s.single()
                mism = v if a[1] == "Ne" else 1 - v
                # compared value is the freshly updated checksum
                if upd and not paths.term_contains(a, lambda y: y == call_res(upd[0])):
                    r.fail(fn, "compare-fresh", "the trailer is compared with a stale checksum value: %s" % tstr(a))
        if upd:
            a = upd[0][2]
            from rules.copyrt import lin

            def is_out_range(y):
                # out_pos .. position, whatever way the end is spelled (`position`, `out_pos + (position - out_pos)`, a local holding it)
                if not (y[0] == "agg" and y[1].endswith("ops::range::Range")):
                    return False
                c0, s0 = lin(y[4][0])
                c1, s1 = lin(y[4][1])
                return c0 == 0 and s0 == {P(4): 1} and c1 == 0 and len(s1) == 1 and \
                    all(k[0] == "pure" and k[1].endswith("OutputBuffer::position") and v == 1 for k, v in s1.items())
            rng = paths.term_contains(a[1], is_out_range)
            if not (paths.is_load_of(a[0], "check_adler32", "DecompressorOxide") and rng):
                r.fail(fn, "update-range", "checksum update is not over out[out_pos .. position) starting from r.check_adler32: %s" % [tstr(q) for q in a])
            st = store_to_field(x, "check_adler32", "DecompressorOxide")
            if not st or st[-1][2] != call_res(upd[0]):
                r.fail(fn, "update-store", "the updated checksum is not stored to r.check_adler32")
            if ign == 1 or (sv.hi() is not None and sv.hi() < 0):
                r.fail(fn, "update-when", "checksum updated although IGNORE_ADLER32 is set or the status is a failure: %s" % x.describe(8))
        else:
            # no update: requires ignore, or neither flag, or negative status — or an empty output range
            empty = any(a[0] == "bin" and a[1] in ("Gt", "Ne") and a[2][0] == "pure" and a[2][1].endswith("OutputBuffer::position") and
                        a[3] == P(4) and s.single() == 0 for a, s in x.atoms) or \
                any(a[0] == "bin" and a[1] == "Eq" and a[2][0] == "pure" and a[2][1].endswith("OutputBuffer::position") and
                    a[3] == P(4) and s.single() == 1 for a, s in x.atoms)
            if ign == 0 and need == 1 and sv.lo() is not None and sv.lo() >= 0 and not empty:
                r.fail(fn, "update-missing", "checksum not updated on a row that needs it: %s" % x.describe(8))
        if final is not None and final[0] == "enum" and final[2] == "Adler32Mismatch":
            seen_mismatch += 1
            if sv.single() == ST["Done"] and zl == 1 and mism == 1 and ign == 0:
                r.ok(fn, "mismatch-row", "Done ∧ PARSE_ZLIB_HEADER ∧ check≠trailer ∧ !IGNORE → Adler32Mismatch")
            else:
                r.fail(fn, "mismatch-row", "Adler32Mismatch outside (Done ∧ zlib ∧ mismatch ∧ !ignore): %s" % x.describe(10))
        elif sv.single() == ST["Done"] and zl == 1 and ign == 0 and mism == 1:
            r.fail(fn, "mismatch-accepted", "Done is returned although the trailer differs from the computed Adler-32: %s" % x.describe(10))
        elif sv.contains(ST["Done"]) and ign == 0 and need == 1 and mism is None and zl != 0 and \
                not (final is not None and final[0] == "enum" and final[2] != "Done"):
            r.fail(fn, "mismatch-unchecked", "a row that may return Done in zlib mode never compares the trailer: %s" % x.describe(10))
        else:
            r.ok(fn, "row", None)
    if seen_mismatch == 0:
        r.fail(fn, "mismatch-row", "no epilogue row yields Adler32Mismatch")


# ---------------------------------------------------------------------------------------------- liveness over the automaton (§4.9)
RESUMABLE = ("NeedsMoreInput", "HasMoreOutput", "BlockBoundary")


def scalar_fields(ctx, cfg):
    c = ctx.crate(cfg)
    a = c.adt("inflate::core::DecompressorOxide")
    out = []
    arrays = []
    for f in a["variants"][0]["fields"]:
        if f["tk"].get("k") in ("int", "bool") or (f["tk"].get("k") == "adt" and f["ty"].endswith("State")):
            out.append(f["name"])
        else:
            arrays.append(f["name"])
    return out, arrays


def _field_of(t):
    """field name when t is an epoch-0 load of a DecompressorOxide / LocalVars field"""
    if t and t[0] == "load" and t[2] == 0 and t[1][0] == "fld" and t[1][3].endswith(("inflate::core::DecompressorOxide", "inflate::core::LocalVars")):
        return t[1][2]
    return None


_precise = {}


def precise_field_reads(ctx, cfg, cf):
    """upward-exposed reads of LocalVars / DecompressorOxide scalar fields inside callee `cf`, ignoring identity copy-backs
    (`*local_vars = l` where a field still holds the value it was loaded with)."""
    key = (cfg, cf.id)
    if key in _precise:
        return _precise[key]
    c = ctx.crate(cfg)
    ev = paths.Evaluator(c, effects=ctx.effects(cfg), pure_calls=sm.PURE, inline=["inflate::core::State::begin"], max_paths=8000)
    use = set()

    def fof(t):
        if t and t[0] == "load" and t[2] == 0 and t[1][0] == "fld" and t[1][3].endswith(("inflate::core::DecompressorOxide", "inflate::core::LocalVars")):
            return t[1][2]
        return None
    try:
        rows = ev.run(cf)
    except paths.PathLimit:
        _precise[key] = None
        return None
    for x in rows:
        terms = [a for a, s in x.atoms]
        for e in x.effects:
            if e[0] == "call":
                terms += list(e[2])
            elif e[0] == "store":
                v = e[2]
                # whole-struct write-back: aggregate of fields
                if v[0] == "agg":
                    for name, fv in zip(v[3], v[4]):
                        if fof(fv) == name:
                            continue
                        terms.append(fv)
                elif e[1][0] == "fld" and fof(v) == e[1][2]:
                    continue
                else:
                    terms.append(v)
        if x.ret is not None:
            terms.append(x.ret)
        for t in terms:
            for st in paths.subterms(t):
                f = fof(st)
                if f:
                    use.add(f)
    _precise[key] = use
    return use


def decoder_liveness(ctx, cfg):
    """-> (live_in: {arm: set(fields)}, per-arm details)"""
    M = machine(ctx, cfg)
    c = ctx.crate(cfg)
    E = ctx.effects(cfg)
    scal, arrays = scalar_fields(ctx, cfg)
    F = set(scal)
    arms = list(M.arm_entry) + ["<default>"]
    info = {}
    for arm in arms:
        rows = []
        for x in M.arm_rows(arm):
            use = set()
            written = set()
            # ordered walk over effects
            for e in x.effects:
                if e[0] == "store":
                    for st in paths.subterms(e[2]):
                        f = _field_of(st)
                        if f in F:
                            use.add(f)
                    pt = e[1]
                    if pt[0] == "fld" and pt[3].endswith(("inflate::core::DecompressorOxide", "inflate::core::LocalVars")) and pt[2] in F:
                        written.add(pt[2])
                elif e[0] in ("call", "enter"):
                    for a in e[2]:
                        for st in paths.subterms(a):
                            f = _field_of(st)
                            if f in F:
                                use.add(f)
                    if e[0] == "call":
                        cf = None
                        for g in c.fns.values():
                            if g.name == e[1] and g.kind != "promoted":
                                cf = g
                                break
                        if cf is not None:
                            summ = E.lookup(cf.id)
                            pr = precise_field_reads(ctx, cfg, cf) if (summ and cf.name.endswith("decompress_fast")) else None
                            if pr is not None:
                                use |= {q for q in pr if q in F and q not in written}
                                for (of, fld_) in summ["MW"]:
                                    if of.endswith(("inflate::core::DecompressorOxide", "inflate::core::LocalVars")) and fld_ in F:
                                        written.add(fld_)
                            elif summ:
                                for (of, fld_) in summ["R"]:
                                    if of.endswith(("inflate::core::DecompressorOxide", "inflate::core::LocalVars")) and fld_ in F and fld_ not in written:
                                        use.add(fld_)
                                for (of, fld_) in summ["MW"]:
                                    if of.endswith(("inflate::core::DecompressorOxide", "inflate::core::LocalVars")) and fld_ in F:
                                        written.add(fld_)
            for a, s in x.atoms:
                for st in paths.subterms(a):
                    f = _field_of(st)
                    if f in F:
                        use.add(f)
            # final stores into l.* / r.* (locals are not in effects)
            deff = set(written)
            for k, v in x.store.items():
                if isinstance(v, tuple) and v and v[0] == "agg" and str(v[1]).endswith("inflate::core::LocalVars") and isinstance(k, tuple) and k and k[0] == "local":
                    # `l = LocalVars { .. }`: every field is assigned at once
                    for name_, val_ in zip(v[3], v[4]):
                        if name_ in F:
                            deff.add(name_)
                            for st in paths.subterms(val_) if isinstance(val_, tuple) else ():
                                f = _field_of(st)
                                if f in F:
                                    use.add(f)
                if isinstance(k, tuple) and k and k[0] == "fld" and k[3].endswith(("inflate::core::DecompressorOxide", "inflate::core::LocalVars")) and k[2] in F:
                    deff.add(k[2])
                    if isinstance(v, tuple):
                        for st in paths.subterms(v):
                            f = _field_of(st)
                            if f in F:
                                use.add(f)
            if x.kind == "jump" and isinstance(x.target, str):
                succ = x.target
            elif x.kind == "none":
                succ = arm
            elif x.kind == "end" and x.target in RESUMABLE:
                succ = state_of(M, x) or arm
                if x.target == "BlockBoundary":
                    succ = "ReadBlockHeader"
            else:
                succ = None
            # `state` itself is defined by every jump
            if x.kind == "jump":
                deff.add("state")
            rows.append((use, deff, succ))
        info[arm] = rows
    live = {a: set() for a in arms}
    changed = True
    while changed:
        changed = False
        for arm in arms:
            new = set()
            for use, deff, succ in info[arm]:
                new |= use
                if succ is not None:
                    s_arm = succ if succ in live else "<default>"
                    new |= (live[s_arm] - deff)
            if new != live[arm]:
                live[arm] = new
                changed = True
    return live, info, scal, arrays


def rule_start_liveness(ctx, cfg, r):
    """R18.2: DecompressorOxide::init() writes only `state`; no other scalar field is live-in at Start."""
    M = machine(ctx, cfg)
    c = ctx.crate(cfg)
    E = ctx.effects(cfg)
    live, info, scal, arrays = decoder_liveness(ctx, cfg)
    init = c.fn("inflate::core::DecompressorOxide::init")
    mw = {f for (of, f) in E.lookup(init.id)["MW"] if of.endswith("DecompressorOxide")}
    stale = sorted(f for f in live["Start"] if f not in mw)
    for f in scal:
        if f in mw:
            r.ok(init.name, "init-writes-" + f, "init() sets %s" % f)
        elif f in stale:
            r.fail(M.fn.name, "stale-after-init:" + f, "decoder field `%s` is read on some path from State::Start before it is written: after "
                   "init() (which only sets `state`) its value from the previous stream would influence decoding" % f)
        else:
            r.ok(M.fn.name, "dead-at-start:" + f, "`%s` is written before any read on every path from Start" % f)
    r.note("array fields not analysed by the scalar liveness: %s" % arrays)
    ctx.extra["decoder_arrays_not_analysed"] = arrays
    # whole-array kills that the reference tree relies on
    kills = {"code_size_huffman": "ReadTableSizes"}
    for arr, arm in kills.items():
        okk = False
        for x in M.arm_rows(arm):
            if x.kind == "jump" and x.target == "ReadHufflenTableCodeSize":
                fills = [e for e in x.effects if e[0] == "call" and e[1].endswith("::fill") and
                         paths.term_contains(e[2][0], lambda y: y[0] == "fld" and y[2] == arr) and const_val(e[2][1]) == 0]
                okk = bool(fills)
        if okk:
            r.ok(M.fn.name, "array-kill:" + arr, "%s.fill(0) before the code-length lengths are read" % arr)
        else:
            r.fail(M.fn.name, "array-kill:" + arr, "`%s` is no longer cleared before a dynamic block's code-length lengths are read: lengths "
                   "from a previous block/stream survive" % arr)


def rule_boundary(ctx, cfg, r):
    """R19.2 / R19.3 / R19.4 (block-boundary feature)."""
    M = machine(ctx, cfg)
    c = ctx.crate(cfg)
    fn = M.fn.name
    SOB = c.const_int("inflate_flags::TINFL_FLAG_STOP_ON_BLOCK_BOUNDARY")
    # single origin of End(BlockBoundary)
    n = 0
    for arm, x in all_rows(M):
        if x.kind == "end" and x.target == "BlockBoundary":
            n += 1
            fin = [t for t in cmp_operands(x) if paths.term_contains(t, lambda y: y[0] == "fld" and y[2] == "finish")]
            flag = any(a[0] == "bin" and a[1] == "Ne" and a[2][0] == "bin" and a[2][1] == "BitAnd" and is_const(a[2][3]) and
                       const_val(a[2][3]) == SOB and s.single() == 1 for a, s in x.atoms)
            if arm == "BlockDone" and flag and any(vs(x, t).single() == 0 for t in fin):
                r.ok(fn, "boundary-origin", "End(BlockBoundary) only after a non-final block under STOP_ON_BLOCK_BOUNDARY")
            else:
                r.fail(fn, "boundary-origin/" + arm, "BlockBoundary is reported outside (BlockDone ∧ non-final block ∧ flag): %s" % x.describe(8))
    if n == 0:
        r.fail(fn, "boundary-origin", "no path reports BlockBoundary although the feature is enabled")
    # every block ends in BlockDone: the next block header is reached only from the stream prologue or from BlockDone, and a
    # non-final BlockDone under the flag always stops (never continues silently) — "exactly one stop after each non-final block"
    PROLOGUE = ("Start", "ReadZlibCmf", "ReadZlibFlg")
    T = M.transitions()
    preds = sorted(a for a, outs in T.items() if ("jump", "ReadBlockHeader") in outs)
    extra = [a for a in preds if a not in PROLOGUE + ("BlockDone",)]
    if "BlockDone" in preds and not extra:
        r.ok(fn, "boundary-funnel", "ReadBlockHeader is entered only from %s" % preds)
    else:
        r.fail(fn, "boundary-funnel", "state(s) %s continue with the next block header without passing through BlockDone, the only place "
               "that honours STOP_ON_BLOCK_BOUNDARY: no stop is reported after such a block" % (extra or "(BlockDone missing)"))
    for x in M.arm_rows("BlockDone"):
        if x.kind == "jump" and x.target == "ReadBlockHeader":
            flag_on = any(a[0] == "bin" and a[1] == "Ne" and a[2][0] == "bin" and a[2][1] == "BitAnd" and is_const(a[2][3]) and
                          const_val(a[2][3]) == SOB and s.single() == 1 for a, s in x.atoms)
            if flag_on:
                r.fail(fn, "boundary-skip", "BlockDone continues with the next block although STOP_ON_BLOCK_BOUNDARY is set: %s" % x.describe(8))
    # without the flag the same branch continues with the next block header
    for x in M.arm_rows("BlockDone"):
        if x.kind == "jump" and x.target == "ReadBlockHeader":
            r.ok(fn, "boundary-continue", None)
    # a stop at a block boundary saves state ReadBlockHeader and hands unread bytes back: the state is set either by the arm that reports
    # the boundary (before it leaves the loop) or by the exit path under status == BlockBoundary; undo_bytes runs on the exit path
    ST = discrs(c, "TINFLStatus")
    stt = status_term(M)
    arm_sets = None
    for x in M.arm_rows("BlockDone"):
        if x.kind == "end" and x.target == "BlockBoundary":
            v = x.store.get(("local", 0, M.state_local))
            good_ = v is not None and is_enum(v, "ReadBlockHeader")
            arm_sets = good_ if arm_sets is None else (arm_sets and good_)
    epi_sets = None
    undo_ok = None
    for x in epilogue_rows(ctx, cfg):
        if x.outcome[0] != "return":
            continue
        sv = vs(x, stt)
        if not sv.contains(ST["BlockBoundary"]):
            continue
        undo = [undo_event(x)] if undo_event(x) else []
        undo_ok = bool(undo) if undo_ok is None else (undo_ok and bool(undo))
        if sv.single() == ST["BlockBoundary"]:
            st = store_to_field(x, "state", "DecompressorOxide")
            good_ = bool(st) and is_enum(st[-1][2], "ReadBlockHeader")
            epi_sets = good_ if epi_sets is None else (epi_sets and good_)
    if (arm_sets or epi_sets) and undo_ok:
        r.ok(fn, "boundary-exit", "on BlockBoundary: unread bytes handed back, saved state = ReadBlockHeader (set %s)"
             % ("by the BlockDone arm" if arm_sets else "on the exit path"))
    elif undo_ok is None and arm_sets is None:
        r.fail(fn, "boundary-exit", "no path reports BlockBoundary")
    else:
        r.fail(fn, "boundary-exit", "BlockBoundary exit must save state ReadBlockHeader and hand back unread bytes "
               "(state set in the arm: %s, on the exit path: %s, undo_bytes on every exit that may carry BlockBoundary: %s)" % (arm_sets, epi_sets, undo_ok))
    # record symmetry
    g = c.fn("inflate::core::DecompressorOxide::block_boundary_state")
    h = c.fn("inflate::core::DecompressorOxide::from_block_boundary_state")
    ctx.touched(g, h)
    ev = paths.Evaluator(c, inline=["*"], inline_depth=2)
    rec_fields = None
    for x in ev.run(g):
        if x.outcome[0] != "return" or not x.ret or x.ret[0] != "agg":
            continue
        if x.ret[2] == "Some":
            rec = x.ret[4][0]
            rec_fields = {}
            for name, v in zip(rec[3], rec[4]):
                src = [st[1][2] for st in paths.subterms(v) if st[0] == "load" and st[1][0] == "fld" and st[1][3].endswith("DecompressorOxide")]
                rec_fields[name] = src
            RBH = discr(c, "inflate::core::State", "ReadBlockHeader")
            st_atom = any(a[0] == "bin" and a[1] == "Eq" and a[3][0] == "enum" and a[3][2] == "ReadBlockHeader" and s.single() == 1 for a, s in x.atoms) or \
                any(vs(x, t_).single() == RBH for a, s in x.atoms for t_ in paths.subterms(a)
                    if t_ and ((t_[0] == "load" and paths.place_is_field(t_[1], "state")) or
                               (t_[0] == "discr" and paths.term_contains(t_, lambda y: y[0] == "fld" and y[2] == "state"))))
            if not st_atom:
                r.fail(g.name, "record-gate", "block_boundary_state returns Some outside state == ReadBlockHeader")
    if rec_fields is None:
        r.fail(g.name, "record", "block_boundary_state never returns Some")
        return
    bad = {k: v for k, v in rec_fields.items() if v != [k]}
    if bad:
        r.fail(g.name, "record-fields", "boundary record fields are not read from the same-named decoder fields: %s" % bad)
    else:
        r.ok(g.name, "record-fields", "record = {%s} read from the same-named fields" % ", ".join(sorted(rec_fields)))
    ev = paths.Evaluator(c, inline=["<inflate::core::DecompressorOxide as core::default::Default>::default", "inflate::core::HuffmanTable::new"], inline_depth=3)
    rebuilt = None
    for x in ev.run(h):
        if x.outcome[0] == "return" and x.ret and x.ret[0] == "agg":
            rebuilt = dict(zip(x.ret[3], x.ret[4]))
    if rebuilt is None:
        r.fail(h.name, "rebuild", "from_block_boundary_state does not return a DecompressorOxide aggregate")
        return
    from_rec = {}
    for name, v in rebuilt.items():
        src = [st[1][2] for st in paths.subterms(v) if st[0] == "load" and st[1][0] == "fld" and st[1][3].endswith("BlockBoundaryState")]
        if src:
            from_rec[name] = src
    if {k: v for k, v in from_rec.items()} == {k: [k] for k in rec_fields} and is_enum(rebuilt.get("state"), "ReadBlockHeader"):
        r.ok(h.name, "rebuild", "decoder rebuilt from the record fields one-to-one, state = ReadBlockHeader")
    else:
        r.fail(h.name, "rebuild", "rebuild does not mirror the record: restored %s, record %s, state %s"
               % (from_rec, sorted(rec_fields), tstr(rebuilt.get("state")) if rebuilt.get("state") else None))
    # R19.4: scalars live-in at ReadBlockHeader ⊆ record ∪ fields whose value at every boundary is the constant the rebuild assigns
    live, info, scal, arrays = decoder_liveness(ctx, cfg)
    need = sorted(live["ReadBlockHeader"] - {"state"})
    const_assigned = {k: v for k, v in rebuilt.items() if is_const(v)}
    # arms from which a block boundary can still be reached (the per-block cycle)
    g = {}
    for arm in M.arm_entry:
        g[arm] = {x.target for x in M.arm_rows(arm) if x.kind == "jump" and isinstance(x.target, str)} | \
                 ({arm} if any(x.kind == "none" for x in M.arm_rows(arm)) else set())
    cyc = {"BlockDone"}
    changed = True
    while changed:
        changed = False
        for a, succ in g.items():
            if a not in cyc and succ & cyc:
                cyc.add(a)
                changed = True
    cyc |= {"Start"}

    def constant_at_boundary(f, K):
        for arm in cyc:
            for x in M.arm_rows(arm):
                if arm == "BlockDone" and x.kind == "jump" and x.target in ("DoneForever", "ReadAdler32"):
                    continue      # final block: no boundary afterwards
                for k, v in x.store.items():
                    if isinstance(k, tuple) and k and k[0] == "fld" and k[2] == f and k[3].endswith(("DecompressorOxide", "LocalVars")):
                        if not (is_const(v) and const_val(v) == K):
                            return False
                for e in store_to_field(x, f, "DecompressorOxide"):
                    if not (is_const(e[2]) and const_val(e[2]) == K):
                        return False
        return True
    for f in need:
        if f in rec_fields:
            r.ok(fn, "resume-needs:" + f, "`%s` is carried by the boundary record" % f)
        elif f in const_assigned and constant_at_boundary(f, const_val(const_assigned[f])):
            r.ok(fn, "resume-needs:" + f, "`%s` equals the constant %d at every block boundary, which is what the rebuild assigns" % (f, const_val(const_assigned[f])))
        else:
            r.fail(fn, "resume-needs:" + f, "decoder field `%s` is needed after a block boundary but is neither in the boundary record nor "
                   "provably equal, at every boundary, to the constant from_block_boundary_state assigns" % f)



# ---------------------------------------------------------------------------------------------- R09.7 / R06.4 counted byte collection
def rule_counted_bytes(ctx, cfg, r, arm="ReadAdler32", limit=4, acc_field="z_adler32"):
    """In `arm`, bytes are collected one count at a time: on every path the counter grows by exactly the number of input
    bytes (or whole bytes of bit buffer) taken, the arm is left only once the counter test says `limit` were collected, and each
    collected byte is shifted into the accumulator most-significant first."""
    M = machine(ctx, cfg)
    c = ctx.crate(cfg)
    fn = M.fn.name
    lv = c.adt("inflate::core::LocalVars")["path"]
    n_collect = 0
    for x in M.arm_rows(arm):
        if x.kind not in ("none", "jump", "end"):
            continue
        taken = 0
        unknown_take = None
        for e in x.effects:
            if e[0] == "call" and e[1].endswith("inflate::core::read_bits"):
                amt = e[2][1]
                # the closure ran iff an 'enter' of a closure follows; counted below
            if e[0] == "enter" and "{closure" in e[1] and len(e[2]) > 0:
                taken += 1          # a callback that receives the byte / bits read (closures without parameters carry no data)
            if e[0] == "call" and e[1].endswith("InputWrapper::advance"):
                a = e[2][1]
                if is_const(a):
                    taken += const_val(a)
                else:
                    unknown_take = tstr(a)
            if e[0] == "call" and (e[1].endswith("read_u32_le") or e[1].endswith("read_u16_le")):
                taken += 4 if e[1].endswith("read_u32_le") else 2
        cnt_key = None
        cnt_val = None
        for k, v in x.store.items():
            if isinstance(k, tuple) and k and k[0] == "fld" and k[2] == "counter" and k[3] == lv:
                cnt_key, cnt_val = k, v
        cnt0 = ("load", cnt_key, 0) if cnt_key else None
        if unknown_take:
            r.fail(fn, "%s/take" % arm, "arm %s consumes a data-dependent number of bytes (%s) in one step" % (arm, unknown_take))
            continue
        if taken:
            n_collect += 1
            parts = sum_parts(cnt_val) if cnt_val is not None else []
            consts = sum(const_val(p) for p in parts if is_const(p))
            loads = [p for p in parts if not is_const(p)]
            okc = cnt_val is not None and consts == taken and len(loads) == 1 and loads[0][0] == "load" and \
                paths.place_is_field(loads[0][1], "counter") and loads[0][2] == 0
            if okc:
                r.ok(fn, "%s/count" % arm, "counter += %d for %d byte(s) taken" % (taken, taken))
            else:
                r.fail(fn, "%s/count" % arm, "arm %s takes %d byte(s) but sets counter to %s instead of counter + %d: bytes collected by an "
                       "earlier call would be discarded or recounted" % (arm, taken, tstr(cnt_val) if cnt_val is not None else "<unchanged>", taken))
            # only below the limit
            below = any(a[0] == "bin" and a[1] == "Lt" and is_const(a[3]) and const_val(a[3]) == limit and s.single() == 1 and
                        a[2][0] == "load" and paths.place_is_field(a[2][1], "counter") for a, s in x.atoms)
            if not below:
                r.fail(fn, "%s/below-limit" % arm, "arm %s takes bytes without counter < %d having been established" % (arm, limit))
            if acc_field:
                st = store_to_field(x, acc_field, "DecompressorOxide")
                good = False
                if st:
                    v = st[-1][2]
                    # (acc << 8) | byte
                    good = v[0] == "bin" and v[1] == "BitOr" and any(
                        q[0] == "bin" and q[1] == "Shl" and paths.is_load_of(q[2], acc_field, "DecompressorOxide") and const_val(q[3]) == 8
                        for q in (v[2], v[3]))
                if good:
                    r.ok(fn, "%s/shift-in" % arm, "%s = (%s << 8) | byte" % (acc_field, acc_field))
                else:
                    r.fail(fn, "%s/shift-in" % arm, "collected byte is not shifted into %s most-significant first: %s"
                           % (acc_field, [tstr(e[2]) for e in st]))
        elif x.kind == "jump" and x.target != arm:
            atleast = any(a[0] == "bin" and a[1] == "Lt" and is_const(a[3]) and const_val(a[3]) == limit and s.single() == 0 and
                          a[2][0] == "load" and paths.place_is_field(a[2][1], "counter") and a[2][2] == 0 for a, s in x.atoms)
            if atleast:
                r.ok(fn, "%s/leave" % arm, "left only under counter >= %d" % limit)
            else:
                r.fail(fn, "%s/leave" % arm, "arm %s is left without the test counter >= %d on the persisted counter: %s" % (arm, limit, x.describe(8)))
    if n_collect < 2:
        r.fail(fn, "%s/collect-rows" % arm, "%d collecting paths in %s (reference tree: 2 — from the bit buffer and from the input)" % (n_collect, arm))


# ---------------------------------------------------------------------------------------------- bit-buffer discipline
def _bit_reads(row):
    """[(index term, num_bits load term | None)] for subterms `(bit_buf >> I) & 1` occurring on the row"""
    out = []
    seen = set()
    terms = [a for a, s in row.atoms] + [v for v in row.store.values() if isinstance(v, tuple)]
    for t in terms:
        for st in paths.subterms(t):
            if st[0] == "bin" and st[1] == "BitAnd" and is_const(st[3]) and const_val(st[3]) == 1 and st[2][0] == "bin" and st[2][1] == "Shr" and \
                    st[2][2][0] == "load" and paths.place_is_field(st[2][2][1], "bit_buf"):
                I = st[2][3]
                if repr(I) not in seen:
                    seen.add(repr(I))
                    out.append((I, st[2][2]))
    return out


def rule_bit_reads(ctx, cfg, r):
    """Every single-bit read `(bit_buf >> i) & 1` of the slow Huffman walk happens under i < num_bits (base case from the
    function entry, inductive step over an arbitrary iteration of each loop)."""
    c = ctx.crate(cfg)
    f = c.fn("inflate::core::decode_huffman_code")
    ctx.touched(f)
    E = ctx.effects(cfg)
    inl = ["inflate::core::read_byte", "inflate::core::end_of_input"]
    ev = paths.Evaluator(c, effects=E, pure_calls=sm.PURE, inline=inl)
    rows = ev.run(f)
    heads = sorted({x.outcome[1] for x in rows if x.outcome[0] == "backedge"})
    lvp = c.adt("inflate::core::LocalVars")["path"]
    checked = 0

    def nb_term(bitbuf_load):
        pt = bitbuf_load[1]
        return ("load", ("fld", pt[1], "num_bits", pt[3]), bitbuf_load[2])

    def check(x, base):
        nonlocal checked
        for I, bb_load in _bit_reads(x):
            if not base and I[0] == "unknown":
                continue      # first pass of the inductive run: covered by the base case
            nb = nb_term(bb_load)
            d = x.facts.decide_cmp("Lt", I, nb)
            checked += 1
            if d == 1:
                r.ok(f.name, "bit-read", "bit %s read under %s < num_bits" % (tstr(I)[:40], tstr(I)[:40]))
            else:
                r.fail(f.name, "bit-read", "bit index %s of the bit buffer is read without the fact index < num_bits: a bit that has not been "
                       "loaded yet (reads as 0) can decide the Huffman walk (%s)" % (tstr(I), "base case" if base else "inductive step"))
    for x in rows:
        check(x, True)
    for h in heads:
        ev2 = paths.Evaluator(c, effects=E, pure_calls=sm.PURE, inline=inl, unroll=2, max_blocks=40, max_paths=4000)
        for x in ev2.run(f, start_bb=h):
            check(x, False)
    if checked < 2:
        r.fail(f.name, "bit-read-sites", "%d single-bit reads examined in decode_huffman_code (reference tree: base + inductive)" % checked)
    # tree_lookup: the fast path has >= 15 bits by its caller's contract; its walk starts at FAST_LOOKUP_BITS


# ---------------------------------------------------------------------------------------------- R03.3 / R04.6 code-length run accounting
def _uncast(t):
    while t and t[0] == "cast":
        t = t[1]
    return t


def _flat_sum(t):
    t = _uncast(t)
    if t and t[0] == "bin" and t[1] == "Add":
        return _flat_sum(t[2]) + _flat_sum(t[3])
    return [t]


def _run_parts(parts):
    """classify the addends of a counter/range expression: (n counter loads, n read_bits results, n base-table lookups, others)"""
    cnt = rb = base = 0
    other = []
    for p in parts:
        if p[0] == "load" and paths.place_is_field(p[1], "counter"):
            cnt += 1
        elif p[0] == "unknown" and str(p[1]).startswith("arg:read_bits"):
            rb += 1
        elif p[0] == "pure" and p[1] == "index" and p[2][0][0] == "constarr":
            base += 1
        else:
            other.append(p)
    return cnt, rb, base, other


def _unclamp(t):
    """`min(A, B)` with B a function of the declared table sizes only -> A (equal to A on every valid stream)"""
    u = _uncast(t)
    if u and u[0] == "pure" and u[1] == "min" and len(u[2]) == 2:
        for a, b in ((u[2][0], u[2][1]), (u[2][1], u[2][0])):
            if paths.term_contains(b, lambda y: y[0] == "fld" and y[2] == "table_sizes") and \
                    not paths.term_contains(b, lambda y: y[0] == "fld" and y[2] == "counter"):
                return a
    return t


def rule_repeat_run(ctx, cfg, r, exact=True):
    """Code-length symbols are counted exactly: a literal length advances the counter by one, a repeat symbol (16/17/18) by the
    announced run (extra bits + base) with nothing clamped, and the filled range is that same run.  Necessary for the
    `counter != HLIT + HDIST` test to reject a run that overshoots the declared number of code lengths."""
    M = machine(ctx, cfg)
    fn = M.fn.name
    n = 0
    for x in M.arm_rows("ReadExtraBitsCodeSize"):
        if x.kind != "jump":
            continue
        n += 1
        cv = None
        for k, v in x.store.items():
            if isinstance(k, tuple) and k and k[0] == "fld" and k[2] == "counter":
                cv = v
        what = "ReadExtraBitsCodeSize/advance"
        if cv is None:
            r.fail(fn, what, "a repeat code leaves the code-length counter unchanged", where=first_span(x), path=row_path(x))
            continue
        if not exact:
            cv = _unclamp(cv)
        cnt, rb, base, other = _run_parts(_flat_sum(cv))
        if (cnt, rb, base) == (1, 1, 1) and not other:
            r.ok(fn, what, "counter' = counter + (extra bits read + base[sym-16])")
        else:
            r.fail(fn, what, "after a repeat code the counter becomes %s, not counter + (bits read + base count): a run that "
                   "overshoots HLIT+HDIST would no longer be seen by the code-size-sum test" % tstr(cv), where=first_span(x), path=row_path(x))
        # fill range
        im = [e for e in x.effects if e[0] == "call" and "index_mut" in e[1]]
        fl = [e for e in x.effects if e[0] == "call" and e[1].endswith("::fill")]
        what = "ReadExtraBitsCodeSize/fill"
        okf = False
        why = "no fill of len_codes found"
        if len(im) == 1 and len(fl) == 1 and im[0][2][1][0] == "agg":
            ops = im[0][2][1][4]
            def unmask(t):
                t = _uncast(t)
                if t[0] == "bin" and t[1] == "BitAnd" and is_const(t[3]):
                    return t[2], const_val(t[3])
                return t, None
            lo, mlo = unmask(ops[0])
            hi, mhi = unmask(ops[1])
            if not exact:
                hi = _unclamp(hi)
            clo = _run_parts(_flat_sum(lo))
            chi = _run_parts(_flat_sum(hi))
            okf = clo[:3] == (1, 0, 0) and not clo[3] and chi[:3] == (1, 1, 1) and not chi[3] and mlo == mhi
            why = "range %s" % tstr(im[0][2][1])
            # value filled: previous length for 16, zero otherwise
            val = fl[0][2][1]
            d16 = None
            for t in cmp_operands(x):
                if t[0] == "load" and paths.place_is_field(t[1], "dist"):
                    s = vs(x, t)
                    d16 = True if s.single() == 16 else (False if not s.contains(16) else None)
            if is_const(val) and const_val(val) == 0:
                okf = okf and d16 is False
                why += ", filled with 0 while symbol %s" % ("≠ 16" if d16 is False else "may be 16")
            else:
                prev = any(st[0] == "bin" and st[1] == "Sub" and is_const(st[3]) and const_val(st[3]) == 1 and
                           paths.term_contains(st[2], lambda y: y[0] == "fld" and y[2] == "counter") for st in paths.subterms(val)) and \
                    paths.term_contains(val, lambda y: y[0] == "fld" and y[2] == "len_codes")
                okf = okf and prev and d16 is True
                why += ", filled with %s while symbol %s" % (tstr(val), "= 16" if d16 else "not known to be 16")
        if okf:
            r.ok(fn, what, why)
        else:
            r.fail(fn, what, "repeat-code expansion does not fill exactly [counter, counter + run) with the RFC value: " + why,
                   where=first_span(x), path=row_path(x))
    if n < 2:
        r.fail(fn, "ReadExtraBitsCodeSize/rows", "expected the two expansion rows (repeat previous / repeat zero), found %d" % n)
    # literal code length: one entry, counter + 1
    m = 0
    for x in M.arm_rows("ReadLitlenDistTablesCodeSize"):
        if x.outcome[0] != "backedge" and not (x.kind == "jump" and x.target == "ReadLitlenDistTablesCodeSize"):
            continue
        cv = None
        for k, v in x.store.items():
            if isinstance(k, tuple) and k and k[0] == "fld" and k[2] == "counter":
                cv = v
        if cv is None:
            continue
        m += 1
        parts = _flat_sum(cv)
        consts = [const_val(p) for p in parts if is_const(p)]
        cnt, rb, base, other = _run_parts([p for p in parts if not is_const(p)])
        if cnt == 1 and consts == [1] and not rb and not base and not other:
            r.ok(fn, "ReadLitlenDistTablesCodeSize/advance", "a literal code length advances the counter by one")
        else:
            r.fail(fn, "ReadLitlenDistTablesCodeSize/advance", "a literal code length sets the counter to %s" % tstr(cv),
                   where=first_span(x), path=row_path(x))
    if m < 1:
        r.fail(fn, "ReadLitlenDistTablesCodeSize/rows", "no row storing a literal code length and advancing the counter was found")


# ---------------------------------------------------------------------------------------------- R07.4 clean suspension exits
SUSPEND = ("NeedsMoreInput", "HasMoreOutput", "FailedCannotMakeProgress")
READERS = ("inflate::core::read_bits", "inflate::core::decode_huffman_code", "inflate::core::read_byte",
           "inflate::core::pad_to_bytes", "inflate::core::fill_bit_buffer")


def _bitreader_loc(loc):
    of, field = loc
    return (of.endswith("inflate::core::LocalVars") and field in ("bit_buf", "num_bits")) or \
        of.endswith("output_buffer::InputWrapper") or "{closure" in of


def rule_clean_suspension(ctx, cfg, r):
    """A state that suspends (returns NeedsMoreInput / HasMoreOutput / cannot-make-progress with `state` unchanged) is re-entered
    from its top on the next call.  So on every path from the arm's entry to such an exit nothing persistent may have been
    modified except the bit buffer and the input position (what the bit readers do): any other write would be applied twice."""
    M = machine(ctx, cfg)
    c = ctx.crate(cfg)
    E = ctx.effects(cfg)
    fn = M.fn.name
    # (a) the readers themselves touch only the bit buffer and the input
    for n in READERS:
        fs = [f for f in c.fns.values() if f.name == n]
        if not fs:
            r.fail(n, "reader-present", "bit reader %s not found" % n)
            continue
        bad = sorted(l for l in E.sum[fs[0].id]["W"] if not _bitreader_loc(l))
        if bad:
            r.fail(n, "reader-effects", "bit reader writes %s besides the bit buffer and the input position" % bad)
        else:
            r.ok(n, "reader-effects", "writes only LocalVars.bit_buf / num_bits and the input slice")
    # (b) suspension rows
    byname = {f.name: f for f in c.fns.values() if f.kind != "promoted"}
    n = 0
    for arm in sorted(M.explicit):
        for x in M.arm_rows(arm):
            if x.kind != "end" or x.target not in SUSPEND:
                continue
            n += 1
            bad = []
            badpl = []
            callbad = False
            written = [e[1] for e in x.stores()] + [k for k in x.store if isinstance(k, tuple) and k and k[0] in ("fld", "idx", "cidx", "deref")]
            for pl in written:
                root = paths.root_of(pl)
                inner = pl
                skip = False
                while inner and inner[0] in ("fld", "idx", "cidx", "deref"):
                    if inner[0] == "fld" and _bitreader_loc((inner[3], inner[2])):
                        skip = True
                    inner = inner[1]
                if skip:
                    continue
                if root[0] == "local" and not _persistent_root(M, root):
                    continue
                bad.append(pstr(pl))
                badpl.append(pl)
            for e in x.effects:
                if e[0] != "call":
                    continue
                cf = byname.get(e[1])
                s = E.sum.get(cf.id) if cf is not None else None
                if s is None:
                    continue
                w = sorted(l for l in s["W"] if not _bitreader_loc(l))
                if w:
                    bad.append("%s (writes %s)" % (e[1], w[:3]))
                    callbad = True
            what = "%s/%s" % (arm, x.target)
            if bad and not callbad:
                # idempotent writes are harmless: neither a written value nor a branch condition of this path depends on the
                # entry value of a written location, so re-running the state from its top writes the same values again
                wr = {}
                for pl in badpl:
                    wr[pl] = x.store.get(pl)
                def mentions_written(t):
                    return t is None or paths.term_contains(t, lambda y: y[0] == "load" and any(y[1] == pl or paths.term_contains(y[1], lambda z: z == pl) for pl in wr))
                if all(v is not None and not mentions_written(v) for v in wr.values()) and \
                        not any(mentions_written(a) for a, _ in x.atoms):
                    r.ok(fn, what, "writes before the suspension are idempotent (%s)" % ", ".join(sorted(set(bad))))
                    continue
            if bad:
                r.fail(fn, what, "state %s can suspend with %s after modifying %s: the state is re-entered from its top on the next "
                       "call, so the modification is applied again" % (arm, x.target, ", ".join(sorted(set(bad)))),
                       where=first_span(x), path=row_path(x))
            else:
                r.ok(fn, what, "nothing but the bit buffer / input position is modified before the suspension")
    if n < 30:
        r.fail(fn, "suspension-rows", "only %d suspension rows found (reference tree: 44)" % n)


def _persistent_root(M, root):
    """locals of decompress_with_limit that outlive one dispatch iteration: the register file `l`, `out_buf`, `in_iter`, `state`"""
    if len(root) < 3 or root[1] != 0:
        return False
    nm = M.fn.local_name(root[2])
    return nm in ("l", "out_buf", "in_iter", "state", "status")


# ---------------------------------------------------------------------------------------------- R03.8 tables rebuilt from scratch
def rule_tables_from_scratch(ctx, cfg, r):
    """init_tree builds a table from the code sizes alone: before anything is inserted the whole fast table is overwritten, and —
    for the two tables that can have codes longer than the fast-lookup width — the whole overflow tree is zeroed (the builder treats a
    non-zero slot as an existing child).  A partial clear leaves nodes of the previous block's / stream's table in place."""
    c = ctx.crate(cfg)
    E = ctx.effects(cfg)
    f = c.fn("inflate::core::init_tree")
    ctx.touched(f)
    HUFFLEN = c.const_int("inflate::core::HUFFLEN_TABLE")
    rows = paths.Evaluator(c, effects=E, pure_calls=sm.PURE, max_paths=4000).run(f)

    def whole_field(t, field):
        """t = &mut (place whose last projection is .field of HuffmanTable), possibly unsized"""
        while t and t[0] in ("cast",):
            t = t[1]
        if not t or t[0] not in ("ref", "addr"):
            return False
        pl = t[-1] if t[0] == "ref" and isinstance(t[-1], tuple) else t[1]
        for cand in t[1:]:
            if isinstance(cand, tuple) and cand and cand[0] == "fld":
                pl = cand
        return isinstance(pl, tuple) and pl and pl[0] == "fld" and pl[2] == field and pl[3].endswith("HuffmanTable")
    n = 0
    for x in rows:
        if x.outcome[0] == "diverge":
            continue
        bts = None
        for a, s in x.atoms:
            if a[0] == "cast" and paths.is_load_of(a[1], "block_type"):
                bts = s
        if bts is None or not bts.subset_of(ISet.of(0, 1, 2)):
            continue        # not a table kind: returns None before touching anything
        n += 1
        fills = [e for e in x.effects if e[0] == "call" and e[1].endswith("::fill")]
        stores = x.stores()
        lk = any(whole_field(e[2][0], "look_up") for e in fills)
        tr = any(whole_field(e[2][0], "tree") and is_const(e[2][1]) and const_val(e[2][1]) == 0 for e in fills)
        if not lk:
            r.fail(f.name, "scratch:look_up", "init_tree does not overwrite the whole fast lookup table before building: entries of the previous table survive "
                   "(fills: %s)" % [tstr(e[2][0])[:70] for e in fills], where=first_span(x), path=row_path(x, 6))
        else:
            r.ok(f.name, "scratch:look_up", "whole look_up array filled first")
        if bts.contains(HUFFLEN) and bts.single() is None:
            r.fail(f.name, "scratch:kind", "table kind not decided on this path")
        elif bts.single() == HUFFLEN:
            r.ok(f.name, "scratch:tree-hufflen", "code-length table: codes are at most 7 bits (3-bit length fields), the overflow tree is never used")
        elif tr:
            r.ok(f.name, "scratch:tree", "whole overflow tree zeroed first")
        else:
            r.fail(f.name, "scratch:tree", "init_tree does not zero the whole overflow tree before building a literal/length or distance table: "
                   "nodes left by the previous table are taken for existing children (fills: %s)" % [tstr(e[2][0])[:70] for e in fills],
                   where=first_span(x), path=row_path(x, 6))
    if n < 6:
        r.fail(f.name, "scratch:rows", "only %d table-building rows of init_tree found" % n)


# ---------------------------------------------------------------------------------------------- R06.5 / R07.6 handed-back bytes leave no bits behind
def rule_handback_mask(ctx, cfg, r):
    """undo_bytes hands whole look-ahead bytes back to the caller by lowering num_bits only; the bits themselves stay in bit_buf.  The
    byte-wise readers (read_byte, stored-block copy) bypass the bit buffer and the bit readers OR new bytes in above num_bits — so
    wherever undo_bytes has run, the value of bit_buf that survives must be masked to the new num_bits."""
    from rules.tokens import extraction, uncast
    c = ctx.crate(cfg)
    fn = "inflate::core::decompress_with_limit"
    n = 0
    for x in epilogue_rows(ctx, cfg):
        if x.outcome[0] != "return":
            continue
        un = undo_event(x)
        if not un:
            continue
        n += 1
        st = [e for e in x.stores() if e[1][0] == "fld" and e[1][2] == "bit_buf" and e[1][3].endswith("DecompressorOxide")]
        good = False
        why = "bit_buf is not stored back"
        if st:
            v = st[-1][2]
            ex = extraction(v)
            why = "bit_buf is stored back as %s" % tstr(v)[:100]
            if ex:
                cterm, nterm = uncast(ex[0]), uncast(ex[1])
                nbv = None
                for k_, val_ in x.store.items():
                    if isinstance(k_, tuple) and k_ and k_[0] == "fld" and k_[2] == "num_bits" and k_[3].endswith("LocalVars"):
                        nbv = val_
                good = cterm[0] == "load" and paths.place_is_field(cterm[1], "bit_buf") and \
                    ((nterm[0] == "load" and paths.place_is_field(nterm[1], "num_bits") and nterm[2] >= 1) or (nbv is not None and nterm == uncast(nbv)))
        if good:
            r.ok(fn, "handback-mask/exit", "after undo_bytes the saved bit buffer is bit_buf & ((1 << num_bits) - 1) with the lowered num_bits")
        else:
            r.fail(fn, "handback-mask/exit", "on an exit that hands unread bytes back (undo_bytes lowers num_bits) the saved bit buffer is not masked to the "
                   "new num_bits (%s): the handed-back bytes stay in the buffer and are ORed over when the input is read again" % why,
                   where=first_span(x), path=row_path(x, 6))
    if n < 4:
        r.fail(fn, "handback-mask/rows", "expected at least 4 exit rows that call undo_bytes, found %d" % n)


def _is_nb_load(q):
    return isinstance(q, tuple) and q and q[0] == "load" and paths.place_is_field(q[1], "num_bits", "LocalVars")


def handback_in_row(x):
    """does the row hand whole bytes of the bit buffer back to the input?  -> 'call' (undo_bytes), 'inline' (the same arithmetic on
    l.num_bits written in place) or None"""
    if any(e[0] == "call" and e[1].endswith("inflate::core::undo_bytes") for e in x.effects):
        return "call"
    for k_, v in x.store.items():
        if isinstance(k_, tuple) and k_ and k_[0] == "fld" and k_[2] == "num_bits" and k_[3].endswith("LocalVars") and isinstance(v, tuple):
            for cand in {q for q in paths.subterms(v) if _is_nb_load(q)}:
                if inline_undo(v, lambda q, cand=cand: q == cand):
                    return "inline"
    return None


def rule_handback_mask_arms(ctx, cfg, r):
    """Inside the state machine: an arm that hands look-ahead bytes back (undo_bytes, or the same arithmetic in place) and goes on decoding
    must clear the handed-back bits — bit_buf &= (1 << num_bits) - 1 with the lowered num_bits — because the next refill ORs fresh input
    in above num_bits."""
    from rules.tokens import extraction, uncast
    M = machine(ctx, cfg)
    fn = M.fn.name
    n = 0
    for arm, x in all_rows(M):
        if x.kind not in ("jump", "none"):
            continue
        hb = handback_in_row(x)
        if hb is None:
            continue
        n += 1
        v = None
        nbv = None
        for k_, val in x.store.items():
            if isinstance(k_, tuple) and k_ and k_[0] == "fld" and k_[3].endswith("LocalVars"):
                if k_[2] == "bit_buf":
                    v = val
                elif k_[2] == "num_bits":
                    nbv = val
        ex = extraction(v) if isinstance(v, tuple) else None
        good = False
        if ex:
            cterm, nterm = uncast(ex[0]), uncast(ex[1])
            good = cterm[0] == "load" and paths.place_is_field(cterm[1], "bit_buf") and \
                ((nterm[0] == "load" and paths.place_is_field(nterm[1], "num_bits") and nterm[2] >= 1) or (nbv is not None and nterm == uncast(nbv)))
        if good:
            r.ok(fn, "handback-mask/" + arm, "bytes handed back in state %s: bit_buf masked to the lowered num_bits before decoding goes on" % arm)
        else:
            r.fail(fn, "handback-mask/" + arm, "state %s hands unread bytes back to the input (num_bits lowered by whole bytes) and continues without masking "
                   "bit_buf to the new num_bits: the next refill ORs input over the stale bits (bit_buf left as %s)" % (arm, tstr(v)[:80] if v else "unchanged"),
                   where=first_span(x), path=row_path(x, 6))
    if n == 0:
        r.fail(fn, "handback-mask/arms", "no state of the decoder hands bytes back (reference tree: BlockDone on the final block)")


# ---------------------------------------------------------------------------------------------- R05.2 panic-site census (array indexing)
CENSUS_FNS = ("inflate::core::decompress_fast", "inflate::core::init_tree", "inflate::core::decode_huffman_code", "inflate::core::read_bits",
              "inflate::core::HuffmanTable::lookup", "inflate::core::HuffmanTable::tree_lookup", "inflate::core::HuffmanTable::fast_lookup",
              "inflate::core::start_static_table", "inflate::core::fill_bit_buffer", "inflate::core::read_byte", "inflate::core::pad_to_bytes",
              "inflate::core::undo_bytes", "inflate::core::num_extra_bits_for_distance_code")


def _index_is_param(f, site, param):
    """site = 'copy _N' / 'move _N': is local N (a copy of) parameter `param`?"""
    import re
    m = re.match(r"(?:copy|move) _(\d+)$", site.strip())
    if not m:
        return False
    l = int(m.group(1))
    for _ in range(4):
        if l == param:
            return True
        defs = f.defs().get(l, [])
        if len(defs) != 1 or defs[0][1] == "t":
            return False
        rv = f.blocks[defs[0][0]]["s"][defs[0][1]]["a"][1]
        if "use" in rv and ("c" in rv["use"] or "m" in rv["use"]):
            pl = rv["use"].get("c") or rv["use"].get("m")
            if pl["p"]:
                return False
            l = pl["l"]
        else:
            return False
    return False


def rule_panic_census(ctx, cfg, r):
    """Every index into a fixed-size array on the decode path is either proved in range on every path (mask, dominating guard, table
    range — discharged by the path evaluator) or belongs to the short reviewed residue.  A new undischarged site means corrupt input
    can reach an out-of-range index, i.e. a panic."""
    import re
    c = ctx.crate(cfg)
    E = ctx.effects(cfg)
    M = machine(ctx, cfg)
    residue = {}        # (scope, len) -> set of index operands
    total = 0

    def note(scope, outcome):
        m = re.match(r"assert:BoundsCheck \{ len: const (\d+)_usize, index: (.*) \}", outcome)
        if m:
            residue.setdefault((scope, int(m.group(1))), set()).add(m.group(2))
    for arm in sorted(M.explicit):
        for x in M.arm_rows(arm):
            if x.outcome[0] == "diverge":
                note(M.fn.name + "#" + arm, x.outcome[1])
    for blk in M.fn.blocks:
        t = blk["t"]
        if "assert" in t and t.get("kind", "").startswith("BoundsCheck") and "k" in t.get("len", {}):
            total += 1
    for fname in CENSUS_FNS:
        fs = [g for g in c.fns.values() if g.name == fname]
        if not fs:
            continue
        f = fs[0]
        ctx.touched(f)
        for blk in f.blocks:
            t = blk["t"]
            if "assert" in t and t.get("kind", "").startswith("BoundsCheck") and "k" in t.get("len", {}):
                total += 1
        rows = paths.Evaluator(c, effects=E, pure_calls=sm.PURE, max_paths=6000, max_blocks=80).run(f)
        heads = sorted({x.outcome[1] for x in rows if x.outcome[0] == "backedge"})
        allr = list(rows)
        for h in heads:
            allr += paths.Evaluator(c, effects=E, pure_calls=sm.PURE, max_paths=6000, max_blocks=80,
                                    stop_blocks=[q for q in heads if q != h]).run(f, start_bb=h)
        for x in allr:
            if x.outcome[0] == "diverge":
                note(f.name, x.outcome[1])
    # decode_huffman_code indexes r.tables[table]: `table` is a parameter; discharged when every caller passes a constant below the array length
    dh = [g for g in c.fns.values() if g.name == "inflate::core::decode_huffman_code"]
    for key in [k for k in residue if k[0] == "inflate::core::decode_huffman_code"]:
        ln = key[1]
        consts = []
        okc = bool(dh)
        for g in c.fns.values():
            if g.kind == "promoted":
                continue
            for bb, t in g.calls():
                if callee_name(t["call"]).endswith("inflate::core::decode_huffman_code"):
                    a = t["args"][2] if len(t["args"]) > 2 else {}
                    v = local_expr(c, g, bb, a)
                    if is_const(v) and 0 <= const_val(v) < ln:
                        consts.append(const_val(v))
                    else:
                        okc = False
        # only the sites whose index is the parameter itself
        psites = {s_ for s_ in residue[key] if okc and consts and _index_is_param(dh[0], s_, 3)}
        residue[key] -= psites
        if psites:
            r.ok("inflate::core::decode_huffman_code", "bounds:table-param", "r.tables[table]: every caller passes a constant table number %s < %d" % (sorted(set(consts)), ln))
        if not residue[key]:
            del residue[key]
    nres = sum(len(v) for v in residue.values())
    for (scope, ln), sites in sorted(residue.items()):
        r.fail(scope, "bounds:len=%d:sites=%d" % (ln, len(sites)), "%d index site(s) into a %d-element array in %s are not proved in range by a mask, "
               "a dominating guard or the range of the indexing table: corrupt input may reach an out-of-range index (panic)" % (len(sites), ln, scope))
    if total < 20:
        r.fail(M.fn.name, "bounds:census", "only %d constant-length bounds checks found on the decode path (reference tree: > 40)" % total)
    else:
        r.ok(M.fn.name, "bounds:census", "%d constant-length array index sites on the decode path, %d discharged by mask / guard / table range, %d in the reviewed residue"
             % (total, total - nres, nres))
    ctx.extra["index_sites"] = total


# ---------------------------------------------------------------------------------------------- R04.7 code-length index in init_tree
def rule_codelen_index(ctx, cfg, r):
    """init_tree walks total_symbols (number of codes per length) with an `enumerate` index that it uses as the code length (longest
    length in use -> the "single 1-bit code" exemption of the completeness test; next_code slots).  The index equals the length only
    if enumerate numbers the elements from total_symbols[0], i.e. is applied before any skip / step / reversal of that iterator."""
    c = ctx.crate(cfg)
    E = ctx.effects(cfg)
    f = c.fn("inflate::core::init_tree")
    ctx.touched(f)
    rows = paths.Evaluator(c, effects=E, pure_calls=sm.PURE, max_paths=4000).run(f)
    seen = {}
    for x in rows:
        for e in x.effects:
            if e[0] == "call" and e[1].endswith("Iterator::enumerate"):
                arg = e[2][0]
                shifted = [st[1].split("::")[-1] for st in paths.subterms(arg)
                           if st and st[0] == "call" and st[1].split("::")[-1] in ("skip", "skip_while", "step_by", "rev", "take_while", "filter")]
                src = any(st and st[0] == "call" and st[1].endswith("::iter") for st in paths.subterms(arg))
                seen[(tstr(arg)[:80])] = (shifted, src, e[3])
    if not seen:
        r.ok(f.name, "codelen-index", "init_tree uses no enumerate index for code lengths")
        return
    for a, (shifted, src, sp) in seen.items():
        if shifted or not src:
            r.fail(f.name, "codelen-index", "the enumerate index used as the code length is taken after %s of the per-length counts (%s): it no longer "
                   "equals the code length, so the longest-length / completeness test is off by that shift" % (shifted or "an unrecognised adapter", a), where=sp)
        else:
            r.ok(f.name, "codelen-index", "enumerate numbers total_symbols from length 0 (skip applied afterwards)")


# ---------------------------------------------------------------------------------------------- R07.9 input conservation
_INPUT_READS = ("InputWrapper::read_byte", "InputWrapper::read_u32_le")


def _persistent_place(pt, state_locals):
    """a place that outlives the path: reached through a reference parameter, or a field of one of the decoder's register structs"""
    q = pt
    while isinstance(q, tuple) and q and q[0] in ("fld", "idx", "deref", "cidx", "down"):
        if q[0] == "deref" and isinstance(q[1], tuple) and q[1][0] == "param":
            return True
        if q[0] == "fld" and isinstance(q[1], tuple) and q[1][0] == "local" and q[1] in state_locals:
            return True
        q = q[1]
    return False


def _row_drops_input(x, state_locals):
    """call terms of input reads on the path of row x whose byte(s) reach neither a persistent place, a later call, nor the result"""
    some = set()
    for a, st in x.atoms:
        if a[0] == "discr" and isinstance(a[1], tuple) and a[1][0] == "call" and len(a[1]) > 3 and getattr(st, "iv", None) == ((1, 1),):
            some.add((a[1][1], a[1][3]))
    reads = []
    for i, e in enumerate(x.effects):
        if e[0] != "call" or not any(paths._sfx(e[1], n) for n in _INPUT_READS):
            continue
        seq = e[4]
        if paths._sfx(e[1], "InputWrapper::read_byte") and (e[1], seq) not in some:
            continue        # returned None on this path (or its result was never inspected): nothing was taken
        reads.append((i, e[1], seq, e[3]))
    dropped = []
    for i, name, seq, span in reads:
        def is_it(t):
            return t[0] == "call" and t[1] == name and len(t) > 3 and t[3] == seq
        kept = False
        for e in x.effects[i + 1:]:
            if e[0] == "store" and _persistent_place(e[1], state_locals) and paths.term_contains(e[2], is_it):
                kept = True
            elif e[0] == "call" and any(paths.term_contains(a, is_it) for a in e[2] if isinstance(a, tuple)):
                kept = True
            if kept:
                break
        if not kept and x.ret is not None and paths.term_contains(x.ret, is_it):
            kept = True
        if not kept:
            dropped.append((name, seq, span))
    return len(reads), dropped


def rule_input_conservation(ctx, cfg, r):
    """Every byte a path takes from the input iterator is, when the path leaves the function (return, suspension or next state), held in
    the persistent decoder state, handed to a continuation / callee, or part of the result.  A byte that only lives in a temporary when the
    path returns is counted as consumed but lost: resuming after that suspension decodes a different stream."""
    c = ctx.crate(cfg)
    E = ctx.effects(cfg)
    M = machine(ctx, cfg)
    n = 0
    per = {}
    # helpers that take the input iterator
    helpers = [f for f in c.fns_matching(lambda f: f.kind not in ("promoted", "closure") and f.name.startswith("inflate::core::")
                                         and f.name != M.fn.name
                                         and any("InputWrapper" in l["ty"] for l in f.locals[1:f.argc + 1]))]
    inl = ["inflate::core::read_byte", "inflate::core::end_of_input"]
    for f in sorted(helpers, key=lambda f: f.name):
        ctx.touched(f)
        ev = paths.Evaluator(c, effects=E, pure_calls=sm.PURE, inline=[i for i in inl if not f.name.endswith(i.split("::")[-1])],
                             unroll=3, max_blocks=60, max_paths=6000)
        try:
            rows = ev.run(f)
        except paths.PathLimit:
            rows = paths.Evaluator(c, effects=E, pure_calls=sm.PURE, inline=inl).run(f)
        for x in rows:
            if x.outcome[0] != "return":
                continue
            k, dropped = _row_drops_input(x, ())
            n += k
            per[f.name] = per.get(f.name, 0) + k
            for name, seq, span in dropped:
                r.fail(f.name, "input-dropped/" + name.split("::")[-1], "a value taken from the input by %s is held only in a temporary when this path "
                       "returns: it is counted as consumed but reaches neither the decoder state, a continuation nor the result: %s"
                       % (name.split("::")[-1], x.describe(6)), where=span)
    # the state machine itself: rows of every arm (register struct `l` is persistent: R07.1 proves it is stored back)
    lv = set()
    for i, l in enumerate(M.fn.locals):
        if l["ty"].endswith("LocalVars"):
            lv.add(("local", 0, i))
    for arm, x in all_rows(M):
        if x.kind not in ("jump", "end", "none"):
            continue
        k, dropped = _row_drops_input(x, lv)
        n += k
        per[M.fn.name + "/" + arm] = per.get(M.fn.name + "/" + arm, 0) + k
        for name, seq, span in dropped:
            r.fail(M.fn.name, "input-dropped/%s/%s" % (arm, name.split("::")[-1]), "state %s: a value taken from the input by %s is held only in a "
                   "temporary when the state is left (%s %s)" % (arm, name.split("::")[-1], x.kind, x.target), where=span)
    failed = {v["key"] for v in r.violations} if hasattr(r, "violations") else set()
    for k, v in sorted(per.items()):
        if v:
            r.ok(k, "input-conservation", "%d input reads on the paths of %s examined" % (v, k))
    r.note = "input reads examined: %d" % n
    return n
