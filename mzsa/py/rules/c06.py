"""C06 — end of stream detected exactly (structural clauses: unread whole bytes are handed back, counts forwarded unchanged)."""
from rules import inflate_core as ic


def run(ctx):
    cfgs = ["H1"] + (["T1"] if ctx.thorough() else [])
    for cfg in cfgs:
        sfx = "" if cfg == "H1" else "@" + cfg
        r4 = ctx.rule("R06.1c" + sfx, "returned input count subtracts the bytes handed back", floor=4, config=cfg)
        r1 = ctx.rule("R06.1" + sfx, "undo_bytes on every exit whose status is not a starvation status", floor=4, config=cfg)
        ic.rule_counts_and_undo(ctx, cfg, r4, r1)
        r2 = ctx.rule("R06.1b" + sfx, "final block: pad to byte, hand back unread bytes, rewind the input iterator, mask the bit buffer — in that order", floor=1, config=cfg)
        ic.rule_blockdone_order(ctx, cfg, r2)
        r3 = ctx.rule("R06.3" + sfx, "undo_bytes returns min(num_bits / 8, max) and keeps the remaining bits", floor=1, config=cfg)
        ic.rule_undo_bytes_value(ctx, cfg, r3)
        r5 = ctx.rule("R06.4" + sfx, "zlib trailer: bytes are counted one by one across calls (resuming inside the trailer takes exactly the missing bytes)", floor=4, config=cfg)
        ic.rule_counted_bytes(ctx, cfg, r5)
        r6 = ctx.rule("R06.5" + sfx, "bytes handed back on exit leave no bits behind (saved bit buffer masked to the lowered num_bits)", floor=4, config=cfg)
        ic.rule_handback_mask(ctx, cfg, r6)
        r8 = ctx.rule("R06.7" + sfx, "a state that hands look-ahead bytes back inside the decode loop masks bit_buf to the lowered num_bits", floor=1, config=cfg)
        ic.rule_handback_mask_arms(ctx, cfg, r8)
    # the streaming wrapper forwards the counts of the layer below unchanged, on success and on error returns alike
    from rules import c13
    c13.run_cfg(ctx, "H1", only=("R13.7",), prefix="R06.6/")
