"""R03.9 — the match copy routines `apply_match` and `transfer` (inflate/core.rs).

Specification (RFC 1951 §3.2.3, ring semantics in wrapping mode): for i in 0..len, in increasing i,
        out[pos + i] = out[(pos - dist + i) & mask].
What is decided, on every path of both functions (path tables; loops by their body from the loop head):
  * pairing: every byte store `out[D] = out[S]` has D - unmask(S) equal to the routine's displacement pos - source (the same offset
    on both sides), and the two cursors are stepped by the same amount — so the displacement never changes;
  * the bulk shortcuts are taken only under guards that make them equal to the byte-wise copy: `fill` only with displacement 1 and
    the fill byte out[pos-1]; `copy_within` of 4 bytes only with displacement >= 4, forwards; `copy_from_slice` only with
    len <= dist (no overlap) and source + len inside the slice (no wrap), from/to the right halves of `split_at_mut`;
  * the tail writes exactly len & 3 bytes; the 3-byte special case reads and writes interleaved from (source + k) & mask;
  * apply_match derives the source as (pos - dist) & mask and hands (out, source, pos, len, mask) to transfer in that order.
Not decided: that the loops run the right number of times (R08.7 bounds them from above)."""
import paths
from terms import ISet, tstr, pstr, is_const, const_val
from rules.util import *
from rules.tokens import uncast


def lin(t):
    """linear normal form: (const, {symbolic addend: coefficient})"""
    t = uncast(t)
    if is_const(t):
        return const_val(t), {}
    if t[0] == "bin" and t[1] in ("Add", "Sub"):
        c1, s1 = lin(t[2])
        c2, s2 = lin(t[3])
        sg = 1 if t[1] == "Add" else -1
        out = dict(s1)
        for k, v in s2.items():
            out[k] = out.get(k, 0) + sg * v
            if out[k] == 0:
                del out[k]
        return c1 + sg * c2, out
    return 0, {t: 1}


def lsub(a, b):
    c1, s1 = a
    c2, s2 = b
    out = dict(s1)
    for k, v in s2.items():
        out[k] = out.get(k, 0) - v
        if out[k] == 0:
            del out[k]
    return c1 - c2, out


def unmask(t, mask):
    t = uncast(t)
    if t[0] == "bin" and t[1] == "BitAnd" and uncast(t[3]) == mask:
        return uncast(t[2]), True
    return t, False


def rule_copy_routines(ctx, cfg, r):
    c = ctx.crate(cfg)
    E = ctx.effects(cfg)
    # ------------------------------------------------------------------------------------------------ transfer
    f = c.fn("inflate::core::transfer")
    ctx.touched(f)
    OUT, S0, O0, LEN, MASK = P(1), P(2), P(3), P(4), P(5)
    DISP = lsub(lin(O0), lin(S0))
    loc = {f.local_name(i): i for i in range(len(f.locals)) if f.local_name(i)}
    ev = paths.Evaluator(c, effects=E, max_paths=8000, max_blocks=80)
    rows = ev.run(f)
    heads = sorted({x.outcome[1] for x in rows if x.outcome[0] == "backedge"})
    allrows = [("entry", x) for x in rows]
    for h in heads:
        ev2 = paths.Evaluator(c, effects=E, max_paths=8000, max_blocks=80, stop_blocks=[q for q in heads if q != h])
        allrows += [("head%d" % h, x) for x in ev2.run(f, start_bb=h)]
    n_pair = n_step = n_fill = n_cw = n_tail = 0
    for origin, x in allrows:
        if x.outcome[0] == "diverge":
            continue
        resolve_minmax(x)      # |out_pos - source_pos| written as max - min reads as the difference the path's order test selects
        RL = rels(x)
        disp1 = any(rel == "Eq" and is_const(rhs) and const_val(rhs) == 1 and lin(lhs) == DISP for lhs, rel, rhs in RL)
        fwd = any(rel == "Lt" and uncast(lhs) == S0 and uncast(rhs) == O0 for lhs, rel, rhs in RL)

        def disp_ok(d):
            return d == DISP or (disp1 and fwd and d == (1, {}))
        ok = True
        stores = [e for e in x.stores() if e[1][0] == "idx" and e[1][1] == ("deref", OUT)]
        for e in stores:
            D = e[1][2]
            V = uncast(e[2])
            if not (V[0] == "load" and V[1][0] == "idx" and V[1][1] == ("deref", OUT)):
                r.fail(f.name, "transfer/pairing", "a byte of the output is set to %s, which is not a byte of the output" % tstr(V)[:80],
                       where=first_span(x), path=row_path(x, 6))
                ok = False
                break
            S, masked = unmask(V[1][2], MASK)
            if not masked:
                r.fail(f.name, "transfer/pairing", "the source index %s of a byte copy is not reduced with the ring mask" % tstr(V[1][2])[:80],
                       where=first_span(x), path=row_path(x, 6))
                ok = False
                break
            if not disp_ok(lsub(lin(D), lin(S))):
                r.fail(f.name, "transfer/pairing", "byte copy out[%s] = out[%s]: destination and source are not the same offset from the two cursors "
                       "(displacement %s, expected pos - source)" % (tstr(D)[:60], tstr(V[1][2])[:60], lsub(lin(D), lin(S))),
                       where=first_span(x), path=row_path(x, 6))
                ok = False
                break
            n_pair += 1
        if not ok:
            continue
        # stepping of the cursors
        O1 = x.store.get(("local", 0, 3), O0)
        S1 = x.store.get(("local", 0, 2), S0)
        if not disp_ok(lsub(lin(O1), lin(S1))):
            r.fail(f.name, "transfer/step", "the cursors are stepped to out_pos = %s, source_pos = %s: their displacement changes" % (tstr(O1)[:60], tstr(S1)[:60]),
                   where=first_span(x), path=row_path(x, 6))
            continue
        if O1 != O0:
            n_step += 1
        # copy_within
        for e in calls_named(x, "copy_within"):
            rg, dest = e[2][1], e[2][2]
            ab = None
            if rg[0] == "call" and rg[1].endswith("RangeInclusive::<Idx>::new") or (rg[0] == "call" and "RangeInclusive" in rg[1]):
                ab = rg[2]
            elif rg[0] == "agg" and rg[1].endswith("RangeInclusive"):
                ab = rg[4][:2]
            ge4 = any(a[0] == "bin" and a[1] == "Ge" and is_const(a[3]) and const_val(a[3]) >= 4 and s.single() == 1 and lin(a[2]) == DISP for a, s in x.atoms)
            # the guards are established before the loop; the displacement is invariant (checked above), so they are required on the
            # rows that come from the function entry and carry over to the rows that start at the loop head
            guards = (ge4 and fwd) or origin != "entry"
            good = ab is not None and lsub(lin(ab[1]), lin(ab[0])) == (3, {}) and lsub(lin(dest), lin(ab[0])) == DISP and guards and \
                lsub(lin(O1), lin(dest)) == (4, {})
            if good:
                n_cw += 1 if origin == "entry" else 0
                r.ok(f.name, "transfer/copy_within", "4-byte copy_within(source..=source+3 -> pos) only with displacement >= 4, forwards; cursors += 4")
            else:
                r.fail(f.name, "transfer/copy_within", "copy_within(%s -> %s) is not the 4-byte chunk at the cursors under displacement >= 4 "
                       "(range ok %s, displacement>=4 %s, forward %s)" % (tstr(rg)[:80], tstr(dest)[:40], ab is not None, ge4, fwd),
                       where=e[3], path=row_path(x, 6))
        # fill
        for e in [q for q in x.effects if q[0] == "call" and q[1].endswith("::fill")]:
            recv, val = e[2][0], uncast(e[2][1])
            rng = None
            for st in paths.subterms(recv):
                if st and st[0] == "call" and "index_mut" in st[1] and st[2][1][0] == "agg" and st[2][1][1].endswith("Range"):
                    rng = st[2][1][4]
            # the fill byte is the byte just before pos: written as out[pos - 1], or as out[source] once displacement == 1 is known
            v_ok = val[0] == "load" and val[1][0] == "idx" and val[1][1] == ("deref", OUT) and \
                (lsub(lin(O0), lin(val[1][2])) == (1, {}) or (disp1 and fwd and lin(val[1][2]) == lin(S0)))
            good = rng is not None and uncast(rng[0]) == O0 and disp1 and fwd and v_ok and lin(O1) == lin(rng[1]) and lsub(lin(O1), lin(S1)) == (1, {})
            if good:
                n_fill += 1
                r.ok(f.name, "transfer/fill", "fill(out[pos..end], out[pos-1]) only with displacement 1, forwards; cursors moved to (end, end-1)")
            else:
                r.fail(f.name, "transfer/fill", "the memset shortcut is not fill(out[pos..end], out[pos-1]) under displacement == 1 "
                       "(range %s, value %s, displacement==1 %s, forward %s)" % ([tstr(q)[:40] for q in rng] if rng else None, tstr(val)[:60], disp1, fwd),
                       where=e[3], path=row_path(x, 6))
        # tail: rows that leave a loop (or skip both) and return
        if x.outcome[0] == "return" and origin != "entry":
            rem = [s for a, s in x.atoms if uncast(a)[0] == "bin" and uncast(a)[1] == "BitAnd" and uncast(uncast(a)[2]) == LEN and is_const(uncast(a)[3]) and const_val(uncast(a)[3]) == 3]
            if rem and rem[-1].single() is not None:
                if len(stores) == rem[-1].single():
                    n_tail += 1
                    r.ok(f.name, "transfer/tail", None)
                else:
                    r.fail(f.name, "transfer/tail", "with len & 3 == %d the tail writes %d byte(s)" % (rem[-1].single(), len(stores)), path=row_path(x, 6))
    if n_pair < 8 or n_step < 3 or n_fill < 1 or n_cw < 1 or n_tail < 4:
        r.fail(f.name, "transfer/rows", "expected byte copies (%d), cursor steps (%d), fill (%d), copy_within (%d) and tail rows (%d) in transfer"
               % (n_pair, n_step, n_fill, n_cw, n_tail))
    else:
        r.ok(f.name, "transfer/pairing", "%d byte copies pair the same offset; %d cursor steps keep the displacement" % (n_pair, n_step))
    # ------------------------------------------------------------------------------------------------ apply_match
    g = c.fn("inflate::core::apply_match")
    ctx.touched(g)
    POS, DIST, ALEN, AMASK = P(2), P(3), P(4), P(5)

    def is_src(t):
        t = uncast(t)
        if not (t[0] == "bin" and t[1] == "BitAnd" and uncast(t[3]) == AMASK):
            return False
        w = uncast(t[2])
        return w[0] == "pure" and w[1] == "wrapping_sub" and tuple(uncast(q) for q in w[2]) == (POS, DIST)
    nt = ncp = n3 = 0
    for x in paths.Evaluator(c, effects=E, max_paths=6000, max_blocks=80).run(g):
        if x.outcome[0] == "diverge":
            continue
        for e in calls_named(x, "inflate::core::transfer"):
            a = e[2]
            if is_src(a[1]) and uncast(a[2]) == POS and uncast(a[3]) == ALEN and uncast(a[4]) == AMASK:
                nt += 1
                r.ok(g.name, "apply_match/transfer-args", "transfer(out, (pos - dist) & mask, pos, len, mask)")
            else:
                r.fail(g.name, "apply_match/transfer-args", "apply_match calls transfer(%s): expected (out, (pos - dist) & mask, pos, len, mask)"
                       % ", ".join(tstr(q)[:40] for q in a[1:]), where=e[3], path=row_path(x, 6))
        cps = calls_named(x, "copy_from_slice")
        if cps:
            sp = calls_named(x, "split_at_mut")
            im = [e for e in x.effects if e[0] == "call" and "index_mut" in e[1]]
            ix = [e for e in x.effects if e[0] == "call" and e[1].endswith("::index") and e not in im]
            noov = any(a[0] == "bin" and a[1] == "Le" and uncast(a[2]) == ALEN and uncast(a[3]) == DIST and s.single() == 1 for a, s in x.atoms)
            nowrap = any(a[0] == "bin" and a[1] == "Lt" and s.single() == 1 and uncast(a[3])[0] == "len" and
                         lsub(lin(a[2]), lin(ALEN))[1] and any(is_src(k) for k in lsub(lin(a[2]), lin(ALEN))[1]) for a, s in x.atoms)
            good = len(sp) == 1 and len(im) == 1 and len(ix) == 1 and noov and nowrap
            if good:
                mid = uncast(sp[0][2][1])
                res = call_res(sp[0])
                to_half = [st for st in paths.subterms(im[0][2][0]) if st and st[0] == "field" and st[1] == res]
                from_half = [st for st in paths.subterms(ix[0][2][0]) if st and st[0] == "field" and st[1] == res]
                th = str(to_half[0][2]) if to_half else None
                fh = str(from_half[0][2]) if from_half else None
                tr, fr = im[0][2][1], ix[0][2][1]
                src_lt = [s.single() for a, s in x.atoms if a[0] == "bin" and a[1] == "Ge" and is_src(a[2]) and uncast(a[3]) == POS]

                def rng(t):
                    if t[0] == "agg" and t[1].endswith("RangeTo"):
                        return ("to", uncast(t[4][0]))
                    if t[0] == "agg" and t[1].endswith("Range"):
                        return ("range", uncast(t[4][0]), uncast(t[4][1]))
                    return None
                tr, fr = rng(tr), rng(fr)
                if mid == POS:
                    # source below pos: to = upper[..len], from = lower[src..src+len]
                    good = th == "1" and fh == "0" and tr == ("to", ALEN) and fr and fr[0] == "range" and is_src(fr[1]) and \
                        lsub(lin(fr[2]), lin(fr[1])) == lin(ALEN) and src_lt and src_lt[-1] == 0
                elif is_src(mid):
                    good = th == "0" and fh == "1" and fr == ("to", ALEN) and tr and tr[0] == "range" and tr[1] == POS and \
                        lsub(lin(tr[2]), lin(tr[1])) == lin(ALEN) and src_lt and src_lt[-1] == 1
                else:
                    good = False
            if good:
                ncp += 1
                r.ok(g.name, "apply_match/copy_from_slice", "whole-match copy only with len <= dist and source + len inside the slice; halves of split_at_mut in the right roles")
            else:
                r.fail(g.name, "apply_match/copy_from_slice", "the whole-match copy_from_slice is not guarded by len <= dist ∧ source + len < out.len(), or copies "
                       "between the wrong ranges (no-overlap %s, no-wrap %s)" % (noov, nowrap), where=cps[0][3], path=row_path(x, 8))
        sets = [e for e in x.effects if e[0] == "call" and e[1].endswith("Cell::<T>::set")]
        if sets:
            gets = [e for e in x.effects if e[0] == "call" and e[1].endswith("slice::<impl [T]>::get")]
            good = len(sets) == 3 and len(gets) == 4
            if good:
                d = gets[0][2][1]
                good = d[0] == "agg" and d[1].endswith("Range") and uncast(d[4][0]) == POS and lsub(lin(d[4][1]), lin(POS)) == (3, {})
                srcs = [uncast(e[2][1]) for e in gets[1:]]
                good = good and is_src(srcs[0])
                for k in (1, 2):
                    u, m = unmask(srcs[k], AMASK)
                    cc, ss = lin(u)
                    good = good and m and cc == k and len(ss) == 1 and is_src(next(iter(ss)))
                # interleaving and order: set k takes Cell::get of the k-th source, read immediately before
                for k, e in enumerate(sets):
                    v = e[2][1]
                    dst = tstr(e[2][0])
                    g_ = gets[k + 1]
                    want = ("field", ("field", ("call", g_[1], g_[2], g_[4]), "as Some"), "0")
                    good = good and dst.endswith("[%d]" % k) and v[0] == "call" and v[1].endswith("Cell::<T>::get") and \
                        paths.term_contains(v[2][0], lambda y: y == want) and (k == 0 or v[3] > sets[k - 1][4])
            if good:
                n3 += 1
                r.ok(g.name, "apply_match/len3", "3-byte case: out[pos+k] = out[(source+k) & mask], read and written interleaved, k = 0, 1, 2")
            else:
                r.fail(g.name, "apply_match/len3", "the 3-byte special case does not copy out[(source+k) & mask] to out[pos+k] for k = 0, 1, 2 with interleaved "
                       "reads and writes", where=sets[0][3], path=row_path(x, 8))
    import facts as _facts
    x86 = not any(a.startswith("thumb") for a in _facts.CONFIGS[cfg][1])
    # on targets other than x86 / x86_64 apply_match hands every match (except the 3-byte case) to transfer (`cfg!` constant)
    if (x86 and (nt < 3 or ncp < 2 or n3 < 1)) or (not x86 and (nt < 1 or n3 < 1)):
        r.fail(g.name, "apply_match/rows", "expected transfer calls (%d), whole-match copies (%d) and the 3-byte case (%d) in apply_match" % (nt, ncp, n3))
