"""Decision tables of the streaming-deflate control functions, shared by C02 / C10 / C12 / C14."""
import paths
from terms import ISet, tstr, pstr, is_const, const_val
from rules.util import *

COMPRESS_ROUTINES = ("deflate::core::compress_normal", "deflate::core::compress_fast", "deflate::stored::compress_stored")

_cache = {}


def inner_rows(ctx, cfg):
    k = ("inner", cfg)
    if k not in _cache:
        c = ctx.crate(cfg)
        f = c.fn("deflate::core::compress_inner")
        ev = paths.Evaluator(c, effects=ctx.effects(cfg))
        _cache[k] = (f, ev.run(f))
        ctx.touched(f)
    return _cache[k]


def T(c):
    """commonly used terms of compress_inner(d=P1, callback=P2, flush=P3)"""
    d = P(1)
    return {
        "flush": P(3),
        "pflush0": path_load(c, d, [("CompressorOxide", "params"), ("ParamsOxide", "flush")]),
        "prev0": path_load(c, d, [("CompressorOxide", "params"), ("ParamsOxide", "prev_return_status")]),
        "rem0": path_load(c, d, [("CompressorOxide", "params"), ("ParamsOxide", "flush_remaining")]),
        "fin0": path_load(c, d, [("CompressorOxide", "params"), ("ParamsOxide", "finished")]),
    }


def rule_sticky(ctx, cfg, r):
    """R02.3 / R14.4: gate of compress_inner."""
    c = ctx.crate(cfg)
    f, rows = inner_rows(ctx, cfg)
    t = T(c)
    TF = discrs(c, "TDEFLFlush")
    TS = discrs(c, "TDEFLStatus")
    fn = f.name
    for row in rows:
        if row.outcome[0] != "return":
            r.fail(fn, "row-outcome", "compress_inner has a non-returning path: %s" % row.describe())
            continue
        work = calls_named(row, *COMPRESS_ROUTINES) + calls_named(row, "deflate::core::flush_block")
        fob = calls_named(row, "deflate::core::flush_output_buffer")
        prev = vs(row, t["prev0"])
        pf = vs(row, t["pflush0"])
        fl = vs(row, t["flush"])
        # params.flush = flush on every row
        sf = [e for e in store_to_field(row, "flush", "ParamsOxide")]
        if sf and sf[0][2] == t["flush"]:
            r.ok(fn, "flush-recorded", None)
        else:
            r.fail(fn, "flush-recorded", "params.flush is not overwritten with the requested flush on a row: %s" % row.describe())
        bad = (not prev.contains(TS["Okay"])) or (pf.single() == TF["Finish"] and not fl.contains(TF["Finish"]))
        maybe_bad = prev.single() != TS["Okay"] or (pf.contains(TF["Finish"]) and fl.single() != TF["Finish"])
        ops = tuple_ops(row.ret)
        if bad:
            sp = store_to_field(row, "prev_return_status", "ParamsOxide")
            good = (ops and is_enum(ops[0], "BadParam") and const_val(ops[1]) == 0 and const_val(ops[2]) == 0
                    and not work and not fob and sp and is_enum(sp[-1][2], "BadParam"))
            if good:
                r.ok(fn, "bad-row", "prev≠Okay or (Finish given before ∧ flush≠Finish) -> (BadParam,0,0), no work", first_span(row))
            else:
                r.fail(fn, "bad-row", "a call after an error / a non-Finish call after Finish must return (BadParam,0,0) "
                       "and reach no compress routine: %s" % row.describe())
            continue
        if (work or fob) and maybe_bad:
            r.fail(fn, "gate-undecided", "work is reached without establishing prev==Okay ∧ (params.flush≠Finish ∨ flush==Finish): %s"
                   % row.describe())
            continue
        rem = vs(row, t["rem0"])
        fin = vs(row, t["fin0"])
        pending = (not rem.contains(0)) or fin.single() == 1
        if pending:
            okp = (not work and len(fob) == 1 and row.ret == call_res(fob[0]))
            sp = store_to_field(row, "prev_return_status", "ParamsOxide")
            okp = okp and sp and sp[-1][2] == ("field", call_res(fob[0]), "0")
            if okp:
                r.ok(fn, "pending-row", "flush_remaining≠0 ∨ finished -> only flush_output_buffer, result returned and recorded")
            else:
                r.fail(fn, "pending-row", "with output pending (or finished) only flush_output_buffer may run and its result "
                       "must be returned and recorded: %s" % row.describe())
            continue
        if work and (rem.contains(0) is False or fin.contains(1) and fin.single() is None and False):
            r.fail(fn, "pending-undecided", "compress routine reached with pending output: %s" % row.describe())
            continue
        if work:
            if rem.single() == 0 and fin.single() == 0:
                r.ok(fn, "work-row", None)
            else:
                r.fail(fn, "work-row", "a compress routine is reached without flush_remaining==0 ∧ !finished: %s" % row.describe())


def rule_final_block(ctx, cfg, r, r_full=None, r_one_final=None):
    """R02.4 / R12.3: gating of the final flush_block; R12.2 Full flush clears history; R10.5 final flag."""
    c = ctx.crate(cfg)
    f, rows = inner_rows(ctx, cfg)
    t = T(c)
    TF = discrs(c, "TDEFLFlush")
    fn = f.name
    # the closure given to map_or must be |buf| buf.len()
    lenclosure = None
    for cid in c.children(f.id):
        cf = c.fns[cid]
        ev = paths.Evaluator(c)
        rr = [x for x in ev.run(cf) if x.outcome[0] == "return"]
        if len(rr) == 1 and rr[0].ret and rr[0].ret[0] == "len":
            lenclosure = cid
    def is_in_left(st):
        """in_left = (length of the input slice, 0 without one) - src_pos (after the compress routine) — whether the Option is
        unwrapped by map_or (kept as a call when its closure is unknown) or by the control flow the evaluator derives from it"""
        if not (isinstance(st, tuple) and st and st[0] == "bin" and st[1] == "Sub" and paths.is_load_of(st[3], "src_pos", "ParamsOxide") and st[3][2] != 0):
            return False
        X = st[2]
        if X[0] == "call" and X[1].endswith("map_or"):
            cl = X[2][2]
            return is_const(X[2][1]) and const_val(X[2][1]) == 0 and cl[0] == "closure" and cl[1] == lenclosure and \
                paths.is_load_of(X[2][0], "in_buf", "CallbackOxide")
        if X[0] == "len":
            return paths.term_contains(X, lambda y: y[0] == "fld" and y[2] == "in_buf")
        return is_const(X) and const_val(X) == 0

    def gate_facts(row):
        fl = vs(row, t["flush"])
        facts_ok = []
        facts_ok.append(("flush≠None", not fl.contains(TF["None"])))
        la = [x for x in loads_of(row, "lookahead_size", "DictOxide") if x[2] != 0]
        facts_ok.append(("lookahead_size==0", any(vs(row, x).single() == 0 for x in la)))
        fr = [x for x in loads_of(row, "flush_remaining", "ParamsOxide") if x[2] != 0]
        facts_ok.append(("flush_remaining==0", any(vs(row, x).single() == 0 for x in fr)))
        # in_left = map_or(in_buf, 0, |b| b.len()) - src_pos
        inl = False
        for a, s in row.atoms:
            for st in paths.subterms(a):
                if is_in_left(st) and vs(row, st).single() == 0:
                    inl = True
        facts_ok.append(("in_left==0", inl))
        return facts_ok
    def legit_skip(row):
        """why a row that ran a compress routine may return without the final flush_block (decided on value sets, so the spelling of
        the tests — `x != 0`, `!(x == 0)`, a local holding the conjunction — does not matter)"""
        fl = vs(row, t["flush"])
        if fl.single() == TF["None"]:
            return "flush == None"
        for a, s in row.atoms:
            if a[0] == "call" and any(paths._sfx(a[1], q) for q in COMPRESS_ROUTINES) and s.single() == 0:
                return "the compress routine reported failure / suspension"
        for x in loads_of(row, "lookahead_size", "DictOxide"):
            if x[2] != 0 and not vs(row, x).contains(0):
                return "lookahead not empty"
        for x in loads_of(row, "flush_remaining", "ParamsOxide"):
            if x[2] != 0 and not vs(row, x).contains(0):
                return "output pending"
        for a, s in row.atoms:
            for st in paths.subterms(a):
                if st and is_in_left(st) and not vs(row, st).contains(0):
                    return "input left"
        return None
    n_fb = 0
    n_live = 0
    for row in rows:
        if row.outcome[0] != "return":
            continue
        fb = calls_named(row, "deflate::core::flush_block")
        work = calls_named(row, *COMPRESS_ROUTINES)
        fl = vs(row, t["flush"])
        if fb:
            n_fb += 1
            call = fb[0]
            # ordering: a compress routine ran before, on the same row
            if not work:
                r.fail(fn, "final-after-compress", "final flush_block without a preceding compress routine: %s" % row.describe())
                continue
            # flush argument is the requested flush
            if call[2][2] != t["flush"]:
                if r_one_final:
                    r_one_final.fail(fn, "final-flush-arg", "final flush_block is not given the requested flush: %s" % tstr(call[2][2]))
            elif r_one_final:
                r_one_final.ok(fn, "final-flush-arg", "flush_block(d, callback, flush)")
            facts_ok = gate_facts(row)
            missing = [n for n, okk in facts_ok if not okk]
            if missing:
                r.fail(fn, "final-gate", "final flush_block reached without %s: %s" % (", ".join(missing), row.describe(40)))
            else:
                r.ok(fn, "final-gate", "flush≠None ∧ lookahead_size==0 ∧ in_left==0 ∧ flush_remaining==0", call[3])
            # after the call
            res = call_res(call)
            dis = vs(row, ("discr", res))
            okv = ("field", ("field", res, "as Ok"), "0")
            fins = store_to_field(row, "finished", "ParamsOxide")
            ops = tuple_ops(row.ret)
            if dis.single() == 1:
                # Err -> PutBufFailed
                sp = store_to_field(row, "prev_return_status", "ParamsOxide")
                if ops and is_enum(ops[0], "PutBufFailed") and sp and is_enum(sp[-1][2], "PutBufFailed") and not fins:
                    r.ok(fn, "final-err", None)
                else:
                    r.fail(fn, "final-err", "Err from the final flush_block must give PutBufFailed without marking finished: %s" % row.describe())
            elif vs(row, okv).hi() is not None and vs(row, okv).hi() < 0:
                if not fins and ops and ops[0][0] == "load":
                    r.ok(fn, "final-neg", None)
                else:
                    r.fail(fn, "final-neg", "negative flush_block result must return early without marking finished: %s" % row.describe())
            elif vs(row, okv).lo() is None or vs(row, okv).lo() < 0:
                r.fail(fn, "final-neg-undecided", "the result of the final flush_block is used as success without excluding "
                       "negative values (%r): %s" % (vs(row, okv), row.describe()))
            else:
                want = 1 if fl.single() == TF["Finish"] else (0 if not fl.contains(TF["Finish"]) else None)
                good = fins and ((is_const(fins[-1][2]) and const_val(fins[-1][2]) == want) or
                                 fins[-1][2] == ("bin", "Eq", t["flush"], enum_term(c, "TDEFLFlush", "Finish"), "bool"))
                if good:
                    r.ok(fn, "final-finished", "finished = (flush == Finish) after a non-negative flush_block")
                else:
                    r.fail(fn, "final-finished", "finished must be set to (flush == Finish) after the final block: %s stores=%s"
                           % (row.describe(), [tstr(e[2]) for e in fins]))
                if r_full is not None:
                    fills = calls_named(row, "slice::<impl [T]>::fill")
                    fh = [e for e in fills if paths.term_contains(e[2][0], lambda x: x[0] == "fld" and x[2] == "hash" and x[3].endswith("HashBuffers")) and const_val(e[2][1]) == 0]
                    fnx = [e for e in fills if paths.term_contains(e[2][0], lambda x: x[0] == "fld" and x[2] == "next" and x[3].endswith("HashBuffers")) and const_val(e[2][1]) == 0]
                    sz = [e for e in store_to_field(row, "size", "DictOxide") if is_const(e[2]) and const_val(e[2]) == 0]
                    if fl.single() == TF["Full"]:
                        if fh and fnx and sz:
                            r_full.ok(fn, "full-clears", "Full: hash.fill(0), next.fill(0), dict.size = 0", fh[0][3])
                        else:
                            r_full.fail(fn, "full-clears", "Full flush must clear hash, next and dict.size (hash=%d next=%d size=%d): %s"
                                        % (len(fh), len(fnx), len(sz), row.describe()))
                    elif not fl.contains(TF["Full"]):
                        r_full.ok(fn, "nonfull-row", None)
                    else:
                        r_full.fail(fn, "full-undecided", "row does not distinguish Full: %s" % row.describe())
        else:
            # no final block: finished must not be set
            fins = store_to_field(row, "finished", "ParamsOxide")
            if fins:
                r.fail(fn, "finished-without-final", "finished is written on a row without the final flush_block: %s" % row.describe())
            # ... and the gate is exact: once a compress routine has run, a flush request with nothing left to compress and nothing
            # pending always reaches flush_block (otherwise the requested flush point is silently not produced)
            if work and not legit_skip(row):
                r.fail(fn, "final-gate-live", "a call that ran the compress routine returns without the final flush_block for a reason other than "
                       "flush == None, a failed / suspended compress routine, a non-empty lookahead, input left or output pending: the block / "
                       "flush marker asked for is silently not emitted: %s" % row.describe(40),
                       where=first_span(row))
            elif work:
                n_live += 1
    if n_fb == 0:
        r.fail(fn, "no-final-block", "no row of compress_inner reaches flush_block")
    if n_live:
        r.ok(fn, "final-gate-live", "%d rows that skip the final flush_block each have flush == None, a non-empty lookahead, input left or output pending" % n_live)


def rule_done_origin(ctx, cfg, r):
    """R14.4: TDEFLStatus::Done is produced only by flush_output_buffer under finished ∧ flush_remaining == 0."""
    c = ctx.crate(cfg)
    sites = agg_sites(c, "TDEFLStatus", "Done", lambda f: f.kind in ("fn", "assoc", "closure") and
                      "fmt" not in f.name and "clone" not in f.name.lower() and "deflate" in f.name)
    fob = c.fn("deflate::core::flush_output_buffer")
    ctx.touched(fob)
    for f, bb, sp in sites:
        if f.id == fob.id or f.kind == "promoted":
            continue
        # comparisons against Done live in promoted bodies; constructing one elsewhere is a second origin
        r.fail(f.name, "done-origin", "TDEFLStatus::Done is constructed outside flush_output_buffer", sp)
    ev = paths.Evaluator(c, effects=ctx.effects(cfg))
    rows = ev.run(fob)
    p = P(2)
    for row in rows:
        if row.outcome[0] != "return":
            continue
        ops = tuple_ops(row.ret)
        if not ops:
            r.fail(fob.name, "ret-shape", "flush_output_buffer does not return a tuple: %s" % row.describe())
            continue
        fin = vs(row, fld(c, p, "ParamsOxide", "finished", 0))
        # the flush_remaining value tested is the one after the update
        rems = store_to_field(row, "flush_remaining", "ParamsOxide")
        rem_after = rems[-1][2] if rems else fld(c, p, "ParamsOxide", "flush_remaining", 0)
        zero = vs(row, rem_after).single() == 0
        if is_enum(ops[0], "Done"):
            if fin.single() == 1 and zero:
                r.ok(fob.name, "done-row", "Done under finished ∧ flush_remaining==0")
            else:
                r.fail(fob.name, "done-row", "Done without finished ∧ flush_remaining==0: %s" % row.describe())
        elif is_enum(ops[0], "Okay"):
            if fin.single() == 1 and zero:
                r.fail(fob.name, "okay-row", "finished ∧ flush_remaining==0 must report Done: %s" % row.describe())
            else:
                r.ok(fob.name, "okay-row", None)
        else:
            r.fail(fob.name, "status", "unexpected status %s" % tstr(ops[0]))


def _unlin(lf):
    """linear form back to a term (for cast normalisation of region offsets / lengths)"""
    cst, sym = lf
    t = None
    for k, co in sorted(sym.items(), key=lambda kv: repr(kv[0])):
        for _ in range(abs(co)):
            if t is None:
                t = k if co > 0 else ("bin", "Sub", ("int", 0), k, "")
            else:
                t = ("bin", "Add" if co > 0 else "Sub", t, k, "")
    if t is None:
        return ("int", cst)
    if cst:
        t = ("bin", "Add", t, ("int", cst), "")
    return t


def rule_flush_output_conservation(ctx, cfg, r):
    """R02.7 (flush_output_buffer half): one and the same n is copied, added to out_buf_ofs / flush_ofs, removed from
    flush_remaining; the copy reads local_buf[flush_ofs .. flush_ofs+n] into out_buf[out_buf_ofs .. out_buf_ofs+n]."""
    c = ctx.crate(cfg)
    fob = c.fn("deflate::core::flush_output_buffer")
    ev = paths.Evaluator(c, effects=ctx.effects(cfg))
    rows = ev.run(fob)
    p = P(2)
    ofs0 = fld(c, p, "ParamsOxide", "out_buf_ofs", 0)
    fo0 = fld(c, p, "ParamsOxide", "flush_ofs", 0)
    rem0 = fld(c, p, "ParamsOxide", "flush_remaining", 0)
    seen = 0
    for row in rows:
        if row.outcome[0] != "return":
            continue
        so = store_to_field(row, "out_buf_ofs", "ParamsOxide")
        if not so:
            # callback-function output: nothing to copy here
            if store_to_field(row, "flush_ofs", "ParamsOxide") or store_to_field(row, "flush_remaining", "ParamsOxide"):
                r.fail(fob.name, "nobuf-row", "bookkeeping changes without a buffer: %s" % row.describe())
            else:
                r.ok(fob.name, "nobuf-row", None)
            continue
        seen += 1

        def N(t):
            # compare quantities, not the widths of the temporaries that carry them
            return normcasts(c, row, t)
        ofs0n, fo0n, rem0n = N(ofs0), N(fo0), N(rem0)
        v = so[-1][2]
        vn = N(v)
        parts = sum_parts(vn)
        n = [x for x in parts if x != ofs0n]
        if len(parts) != 2 or len(n) != 1:
            r.fail(fob.name, "out_buf_ofs", "out_buf_ofs is not advanced by a single amount: %s" % tstr(v))
            continue
        n = n[0]
        # n = min(len(out_buf) - out_buf_ofs, flush_remaining)
        okn = n[0] == "pure" and n[1] == "min" and len(n[2]) == 2
        if okn:
            a, b = n[2]
            def is_space(x):
                return x[0] == "bin" and x[1] == "Sub" and x[2][0] == "len" and x[3] == ofs0n
            okn = (is_space(a) and b == rem0n) or (is_space(b) and a == rem0n)
        sfo = store_to_field(row, "flush_ofs", "ParamsOxide")
        srem = store_to_field(row, "flush_remaining", "ParamsOxide")
        okf = bool(sfo) and sorted(map(repr, sum_parts(N(sfo[-1][2])))) == sorted(map(repr, [fo0n, n]))
        sr = N(srem[-1][2]) if srem else None
        okr = bool(srem) and sr[0] == "bin" and sr[1] == "Sub" and sr[2] == rem0n and sr[3] == n
        ops = tuple_ops(row.ret)
        okret = ops and ops[2] == v and paths.is_load_of(ops[1], "src_pos", "ParamsOxide")
        # the copy, when n != 0
        cp = calls_named(row, "slice::<impl [T]>::copy_from_slice")
        okc = True
        if vs(row, n).contains(0) is False or cp:
            okc = False
            if len(cp) == 1:
                import slices
                dst, src = slices.region(cp[0][2][0], store=row.store), slices.region(cp[0][2][1], store=row.store)

                def same(lf, t):
                    return lf == slices.lin(t)
                okc = dst is not None and src is not None and \
                    slices.lin(N(_unlin(dst.off))) == slices.lin(ofs0n) and slices.lin(N(_unlin(src.off))) == slices.lin(fo0n) and \
                    slices.lin(N(_unlin(dst.length))) == slices.lin(n) and slices.lin(N(_unlin(src.length))) == slices.lin(n) and \
                    paths.term_contains(src.root, lambda y: y[0] == "fld" and y[2] == "b" and y[3].endswith("LocalBuf")) and \
                    paths.term_contains(dst.root, lambda y: y[0] == "fld" and y[2] == "out_buf")
        if okn and okf and okr and okret and okc:
            r.ok(fob.name, "conservation", "n=min(len-ofs, flush_remaining): copied, +=out_buf_ofs, +=flush_ofs, -=flush_remaining")
        else:
            r.fail(fob.name, "conservation", "pending-output bookkeeping is not conservative (n ok=%s flush_ofs ok=%s remaining ok=%s "
                   "ret ok=%s copy ok=%s): n=%s" % (okn, bool(okf), bool(okr), bool(okret), okc, tstr(n)))
    if seen == 0:
        r.fail(fob.name, "no-buffer-row", "flush_output_buffer has no row that advances out_buf_ofs")


# ---------------------------------------------------------------------------------------------- history bound (R12.6 / R10.7)

_fmc = {}


def find_match_clamps_with_size(ctx, cfg):
    """True when DictOxide::find_match itself limits its distance bound (2nd explicit argument) to the history it holds: every
    comparison in the function that involves that argument sees it only inside min(self.size, argument)."""
    if cfg in _fmc:
        return _fmc[cfg]
    c = ctx.crate(cfg)
    g = c.fn("deflate::core::DictOxide::find_match")
    ctx.touched(g)
    A = P(3)

    def is_self_size(t):
        return t[0] == "load" and paths.place_is_field(t[1], "size", "DictOxide") and t[1][1] == ("deref", P(1))

    def is_clamp(t):
        return t[0] == "pure" and t[1] == "min" and len(t[2]) == 2 and A in [q if q[0] != "cast" else q[1] for q in t[2]] and any(is_self_size(q if q[0] != "cast" else q[1]) for q in t[2])

    def strip(t):
        if not isinstance(t, tuple) or not t:
            return t
        if isinstance(t[0], str) and is_clamp(t):
            return ("clamped",)
        return tuple(strip(q) if isinstance(q, tuple) else q for q in t)
    seen_clamp = False
    bare = False
    try:
        rows = paths.Evaluator(c, effects=ctx.effects(cfg), max_paths=6000, max_blocks=80).run(g)
        heads = sorted({x.outcome[1] for x in rows if x.outcome[0] == "backedge"})
        for h in heads:
            rows += paths.Evaluator(c, effects=ctx.effects(cfg), max_paths=6000, max_blocks=80, stop_blocks=[q for q in heads if q != h]).run(g, start_bb=h)
    except Exception:
        _fmc[cfg] = False
        return False
    for x in rows:
        for a, s_ in x.atoms:
            if paths.term_contains(a, is_clamp):
                seen_clamp = True
            if paths.term_contains(strip(a), lambda y: y == A):
                bare = True
        for k, v in x.store.items():
            if isinstance(v, tuple) and paths.term_contains(v, is_clamp):
                seen_clamp = True
    # evaluations that start at a loop head see the clamped local as an unknown: the argument must simply never be compared bare
    _fmc[cfg] = seen_clamp and not bare
    return _fmc[cfg]


def rule_history_bound(ctx, cfg, r):
    """Every match the compressor admits reaches back at most `dict.size` bytes — the amount of history the dictionary holds,
    which a Full flush (and a fresh stream) sets to zero.  Necessary for "a Full flush cuts history" and for "distances never
    reach before the start of the data"."""
    from rules import c11
    from terms import ISet
    c = ctx.crate(cfg)
    E = ctx.effects(cfg)

    def is_size(t):
        return t[0] == "load" and paths.place_is_field(t[1], "size", "DictOxide")

    def bounded_by_size(t):
        while t[0] == "cast":
            t = t[1]
        if is_size(t):
            return True
        if t[0] == "pure" and t[1] == "min":
            return any(bounded_by_size(a) for a in t[2])
        return False
    adm = c11.admission_terms(ctx, cfg)
    for rt, (xs, ung) in sorted(adm.items()):
        ctx.touched(rt)
        if not xs:
            r.fail(rt, "history:admission-site", "no distance admission test / find_match call found in %s" % rt)
        for x in xs:
            if bounded_by_size(x):
                r.ok(rt, "history:admission", "distances admitted against %s, which is at most dict.size" % tstr(x))
            else:
                r.fail(rt, "history:admission", "distances in %s are admitted against %s, which is not bounded by dict.size: a match can reach "
                       "behind the history the dictionary holds (before the start of the stream, or across a Full flush)" % (rt.split("::")[-1], tstr(x)))
    # run-length branch of compress_normal: the previous byte is used only when there is history
    cn = c.fn("deflate::core::compress_normal")
    RLE = c.const_int("deflate_flags::TDEFL_RLE_MATCHES")
    ev = paths.Evaluator(c, effects=E, max_paths=20000, max_blocks=70)
    rows = ev.run(cn)
    heads = sorted({x.outcome[1] for x in rows if x.outcome[0] == "backedge"})
    allrows = list(rows)
    for h in heads:
        ev2 = paths.Evaluator(c, effects=E, max_paths=20000, max_blocks=70, stop_blocks=[q for q in heads if q != h])
        allrows += ev2.run(cn, start_bb=h)
    n = 0
    for x in allrows:
        rle = None
        for a, s in x.atoms:
            if a[0] == "bin" and a[1] == "Ne" and a[2][0] == "bin" and a[2][1] == "BitAnd" and is_const(a[2][3]) and const_val(a[2][3]) == RLE and \
                    paths.is_load_of(a[2][2], "flags", "ParamsOxide"):
                rle = s.single() if rle is None else rle
        if rle != 1:
            continue
        fresh = [k for k, v in x.store.items() if isinstance(k, tuple) and k and k[0] == "local" and k[1] == 0 and
                 (cn.local_name(k[2]) or "") == "cur_match_dist" and is_const(v) and const_val(v) == 1]
        if not fresh:
            continue
        n += 1
        # current value(s) of dict.size on this path: the entry load, or what the path has stored into the field
        sizes = [t for t in cmp_operands_of(x) if is_size(t)]
        sizes += [e[2] for e in x.stores() if e[1][0] == "fld" and e[1][2] == "size" and e[1][3].endswith("DictOxide")]
        has_hist = any(not x.facts.get(t).contains(0) for t in sizes)
        if has_hist:
            r.ok(cn.name, "history:rle", "the run-length branch takes a distance-1 match only under dict.size != 0")
        else:
            r.fail(cn.name, "history:rle", "the run-length branch of compress_normal can emit a distance-1 match while dict.size may be 0 "
                   "(first byte of a stream, or first byte after a Full flush): the match reaches behind the history",
                   where=first_span(x), path=row_path(x))
    if n < 1:
        r.fail(cn.name, "history:rle-rows", "no path of the run-length branch producing a distance-1 match was found")


def cmp_operands_of(x):
    out = []
    for a, _ in x.atoms:
        if a[0] == "bin":
            out.append(a[2])
            out.append(a[3])
        else:
            out.append(a)
    return out


# ---------------------------------------------------------------------------------------------- window accounting (R01.9)
def _read_places(item):
    """places read by a statement / terminator (operands only)"""
    out = []

    def op(o):
        if isinstance(o, dict):
            pl = o.get("c") or o.get("m")
            if pl is not None:
                out.append(pl)
    if "a" in item:
        rv = item["a"][1]
        for k in ("use",):
            if k in rv:
                op(rv[k])
        if "bin" in rv:
            op(rv["bin"][1]); op(rv["bin"][2])
        if "un" in rv:
            op(rv["un"][1])
        if "cast" in rv:
            op(rv["cast"][1])
        if "agg" in rv:
            for o in rv["agg"]["ops"]:
                op(o)
        if "repeat" in rv:
            op(rv["repeat"][0])
        if "discr" in rv:
            out.append(rv["discr"])
    if "call" in item:
        for o in item.get("args", []):
            op(o)
    if "switch" in item:
        op(item["switch"])
    return out


def rule_window_accounting(ctx, cfg, r):
    """The dictionary is a 32 KiB ring shared by history and lookahead: after new input has been copied in (lookahead_size grows), the
    amount of valid history, dict.size, must be clamped to LZ_DICT_SIZE - lookahead_size before it is used again to admit a match
    distance — otherwise a distance can point at ring bytes that the new input has just overwritten.  Must-pass-through rule on the
    CFG: every path from a statement that increases `lookahead_size` to a distance-admitting use of `dict.size` passes the clamp."""
    from mir import Place, callee_name
    from rules.inflate_core import local_expr
    c = ctx.crate(cfg)
    E = ctx.effects(cfg)
    SIZE = c.const_int("deflate::core::LZ_DICT_SIZE")
    for fname in ("deflate::core::compress_fast", "deflate::core::compress_normal"):
        f = c.fn(fname)
        ctx.touched(f)
        la = {i for i in range(len(f.locals)) if f.local_name(i) == "lookahead_size"}

        def is_size(pl):
            return any(cl[0] == "loc" and cl[1].endswith("DictOxide") and cl[2] == "size" for cl in E.classify(f, Place(pl)))
        size_stores = {(bb, i) for bb, i, s in stores_to(E, f, "DictOxide", "size")}
        stored_from = set()        # locals whose value is stored into dict.size
        for bb, i in size_stores:
            for pl in _read_places(f.blocks[bb]["s"][i]):
                if not pl["p"]:
                    stored_from.add(pl["l"])
        refills, clamps, uses = [], [], []
        for bb, blk in enumerate(f.blocks):
            for i, s in enumerate(blk["s"]):
                if "a" in s and not s["a"][0]["p"] and s["a"][0]["l"] in la and "bin" in s["a"][1] and s["a"][1]["bin"][0] in ("Add", "AddWithOverflow"):
                    ops = s["a"][1]["bin"][1:3]
                    if any((o.get("c") or o.get("m") or {}).get("l") in la and not (o.get("c") or o.get("m"))["p"] for o in ops if isinstance(o, dict) and ("c" in o or "m" in o)):
                        refills.append((bb, i))
                if "a" in s and "bin" in s["a"][1] and s["a"][1]["bin"][0] in ("Ne", "Eq"):
                    ops = s["a"][1]["bin"][1:3]
                    if any(isinstance(o, dict) and (o.get("c") or o.get("m")) is not None and is_size(o.get("c") or o.get("m")) for o in ops) and \
                            any(isinstance(o, dict) and "k" in o and o["k"].get("int") in (0, "0") for o in ops):
                        uses.append((bb, i, "dict.size != 0 (run-length look-back)", s.get("sp")))
                if "a" in s and "bin" in s["a"][1] and s["a"][1]["bin"][0] in ("Le", "Lt", "Ge", "Gt"):
                    # a distance compared directly against dict.size (`dist <= d.dict.size`)
                    ops = s["a"][1]["bin"][1:3]
                    def reads_size(o):
                        pl = o.get("c") or o.get("m") if isinstance(o, dict) else None
                        if pl is None:
                            return False
                        if is_size(pl):
                            return True
                        if not pl["p"]:
                            ds = f.defs().get(pl["l"], [])
                            if len(ds) == 1 and ds[0][1] != "t":
                                rv = f.blocks[ds[0][0]]["s"][ds[0][1]]["a"][1]
                                if "use" in rv:
                                    q = rv["use"].get("c") or rv["use"].get("m")
                                    return q is not None and is_size(q)
                        return False
                    if any(reads_size(o) for o in ops):
                        uses.append((bb, i, "distance compared against dict.size", s.get("sp")))
            t = blk["t"]
            if "call" in t and callee_name(t["call"]).endswith("cmp::min"):
                args = [local_expr(c, f, bb, a) for a in t["args"]]
                reads_size = any("DictOxide" in repr(a) and "size" in repr(a) for a in args) or \
                    any((a.get("c") or a.get("m")) is not None and is_size(a.get("c") or a.get("m")) for a in t["args"] if isinstance(a, dict))
                # operands may be temporaries copied from dict.size in this block
                if not reads_size:
                    for s in blk["s"]:
                        if any(is_size(pl) for pl in _read_places(s)):
                            reads_size = True
                if not reads_size:
                    continue
                def is_clamp_arg(a):
                    return a[0] == "bin" and a[1] == "Sub" and is_const(a[2]) and const_val(a[2]) == SIZE and a[3] == ("var", "lookahead_size")
                dest = t["dest"]["l"] if not t["dest"]["p"] else None
                if any(is_clamp_arg(a) for a in args) and dest in stored_from:
                    clamps.append(bb)
                elif dest in stored_from:
                    pass            # growth: dict.size = min(dict.size + n, LZ_DICT_SIZE)
                else:
                    uses.append((bb, len(blk["s"]), "min(dict.size, ..) as a distance bound", t.get("sp")))
        if find_match_clamps_with_size(ctx, cfg):
            for bb, t in call_sites(f, "DictOxide::find_match"):
                uses.append((bb, len(f.blocks[bb]["s"]), "find_match limits distances to dict.size", t.get("sp")))
        if not refills or not clamps or not uses:
            r.fail(f.name, "window/anchors", "expected refill (%d), clamp (%d) and distance-admission (%d) sites in %s" % (len(refills), len(clamps), len(uses), fname.split("::")[-1]))
            continue
        bad = []
        for rb, ri in refills:
            # blocks reachable from the refill statement without passing a clamp block
            start = [rb]
            seen = set()
            work = list(f.succs(rb)) if rb not in clamps else []
            # uses later in the same block as the refill
            for ub, ui, what, sp in uses:
                if ub == rb and ui > ri and rb not in clamps:
                    bad.append((rb, ub, what, sp))
            while work:
                b = work.pop()
                if b in seen:
                    continue
                seen.add(b)
                if b in clamps:
                    continue
                work.extend(f.succs(b))
            for ub, ui, what, sp in uses:
                if ub in seen and ub not in clamps:
                    bad.append((rb, ub, what, sp))
        if bad:
            rb, ub, what, sp = bad[0]
            r.fail(f.name, "window/clamp", "%s: after lookahead_size is increased (bb%d) the use `%s` (bb%d) can be reached without "
                   "`dict.size = min(LZ_DICT_SIZE - lookahead_size, dict.size)` in between: a match may be admitted into ring bytes the new "
                   "input has overwritten" % (fname.split("::")[-1], rb, what, ub), where=sp)
        else:
            r.ok(f.name, "window/clamp", "%d refill site(s), %d clamp(s), %d distance-admitting use(s): every refill -> use path passes a clamp"
                 % (len(refills), len(clamps), len(uses)))
