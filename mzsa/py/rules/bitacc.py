"""Bit-accumulator capacity of compress_lz_codes (R01.10 / R02.11 / R10.9).

compress_lz_codes gathers Huffman codes and extra bits in a 64-bit accumulator (`BitBuffer`) and writes whole bytes out with
`BitBuffer::flush`, which leaves at most 7 bits behind.  `put_fast` does not check for room: if the bits appended between two
flushes plus the leftover exceed the accumulator's width, the top bits of a code are shifted out (corrupt stream) and the next
flush shifts by >= 64 (panic in debug builds).  Decided here, for every path from one flush to the next (inner constant-range loops
executed concretely):

    leftover_max + sum over put_fast calls of (upper bound of the length argument)  <=  width of BitBuffer.bit_buffer

with the upper bounds taken from the source: code sizes are at most the largest `code_size_limit` any `optimize_table` call passes
(and the constants of the fixed tables), extra-bit counts are entries of constant tables, masks bound what they mask.
"""
import paths
from mir import callee_name
from terms import tstr, is_const, const_val
from rules.util import *


def _natural_loop(fn, head):
    L = {head}
    work = [p for p in fn.preds(head) if fn.dominates(head, p)]
    while work:
        b = work.pop()
        if b in L:
            continue
        L.add(b)
        work.extend(p for p in fn.preds(b) if fn.dominates(head, p))
    return L


def code_size_limit(ctx, cfg, r):
    """largest value a Huffman code size of the compressor can take, from the code: max `code_size_limit` argument of optimize_table"""
    c = ctx.crate(cfg)
    g = c.fn("deflate::core::HuffmanOxide::optimize_table")
    pidx = None
    for i in range(1, g.argc + 1):
        if g.local_name(i) == "code_size_limit":
            pidx = i - 1
    if pidx is None:
        r.fail(g.name, "bitacc/limit", "optimize_table has no `code_size_limit` parameter any more: the bound on code sizes cannot be established")
        return None
    lims = []
    for f in c.fns.values():
        if f.kind == "promoted":
            continue
        for bb, t in f.calls():
            if callee_name(t["call"]).endswith("HuffmanOxide::optimize_table") and pidx < len(t["args"]):
                o = t["args"][pidx]
                if isinstance(o, dict) and "k" in o and "int" in o["k"]:
                    lims.append(int(o["k"]["int"]))
                else:
                    r.fail(f.name, "bitacc/limit", "optimize_table is called with a code size limit that is not a constant")
                    return None
    if not lims:
        r.fail(g.name, "bitacc/limit", "no call of optimize_table found")
        return None
    return max(lims)


def upper(t, limit):
    """upper bound of an unsigned term, or None"""
    while isinstance(t, tuple) and t and t[0] == "cast":
        t = t[1]
    if is_const(t):
        return const_val(t)
    if t[0] == "pure" and t[1] == "index" and t[2][0][0] == "constarr":
        return max(t[2][0][2])
    if t[0] == "load" and paths.term_contains(t[1], lambda y: y[0] == "fld" and y[2] == "code_sizes" and y[3].endswith("HuffmanOxide")):
        return limit
    if t[0] == "bin" and t[1] == "BitAnd":
        a, b = upper(t[2], limit), upper(t[3], limit)
        cands = [q for q in (a, b) if q is not None]
        return min(cands) if cands else None
    if t[0] == "pure" and t[1] == "min":
        cands = [upper(q, limit) for q in t[2]]
        cands = [q for q in cands if q is not None]
        return min(cands) if cands else None
    return None


def rule_accumulator(ctx, cfg, r):
    import termeval
    c = ctx.crate(cfg)
    E = ctx.effects(cfg)
    f = c.fn("deflate::core::compress_lz_codes")
    ctx.touched(f)
    limit = code_size_limit(ctx, cfg, r)
    if limit is None:
        return
    # width of the accumulator and what a flush leaves behind
    bb_adt = c.adt("deflate::core::BitBuffer")
    width = None
    for fld_ in bb_adt["variants"][0]["fields"]:
        if fld_["name"] == "bit_buffer" and fld_["ty"] in ("u64", "u32", "u128"):
            width = int(fld_["ty"][1:])
    fl = c.fn("deflate::core::BitBuffer::flush")
    left = None
    for x in paths.Evaluator(c, effects=E).run(fl):
        if x.outcome[0] != "return":
            continue
        st = [v for k, v in x.store.items() if isinstance(k, tuple) and k and k[0] == "fld" and k[2] == "bits_in" and k[3].endswith("BitBuffer")]
        if not st:
            if x.ret and x.ret[0] == "agg" and x.ret[2] == "Err":
                continue
            left = None
            break
        try:
            g = termeval.make_fn(termeval.compile_term(st[-1], lambda q: "nb" if (q[0] == "load" and paths.place_is_field(q[1], "bits_in")) else
                                                       (_ for _ in ()).throw(termeval.Unsupported(tstr(q)))), ["nb"])
            m = max(g(nb) for nb in range(0, 129))
            left = m if left is None else max(left, m)
        except Exception:
            left = None
            break
    if width is None or left is None or left >= 64:
        r.fail(fl.name, "bitacc/flush", "cannot establish the accumulator's width (%s) or that a flush leaves a bounded number of bits behind (%s)" % (width, left))
        return
    r.ok(fl.name, "bitacc/flush", "a flush leaves at most %d of %d bits in the accumulator" % (left, width))
    # put_fast adds exactly `len` bits
    pf = c.fn("deflate::core::BitBuffer::put_fast")
    okpf = False
    for x in paths.Evaluator(c, effects=E).run(pf):
        st = [v for k, v in x.store.items() if isinstance(k, tuple) and k and k[0] == "fld" and k[2] == "bits_in"]
        okpf = bool(st) and st[-1][0] == "bin" and st[-1][1] == "Add" and P(3) in (st[-1][2], st[-1][3])
    if not okpf:
        r.fail(pf.name, "bitacc/put", "put_fast does not advance bits_in by its length argument")
        return
    heads = [b for b in range(len(f.blocks)) if any(f.dominates(b, p) for p in f.preds(b))]
    fl_blocks = [bb for bb, t in f.calls() if callee_name(t["call"]).endswith("BitBuffer::flush")]
    n_iter = 0
    for h in heads:
        L = _natural_loop(f, h)
        if not any(b in L for b in fl_blocks):
            continue
        if any(h2 != h and h in _natural_loop(f, h2) and any(b in _natural_loop(f, h2) for b in fl_blocks) for h2 in heads):
            continue        # an inner loop of a loop that already contains the flush
        inner = {b for b in heads if b in L and b != h}
        exits = {s for b in L for s in f.succs(b) if s not in L}
        ev = paths.Evaluator(c, effects=E, unroll=12, concrete_ranges=True, max_paths=6000, stop_blocks=list(exits))
        ev.unroll_heads = set().union(*[_natural_loop(f, b) for b in inner]) if inner else set()
        for x in ev.run(f, start_bb=h):
            if x.outcome[0] == "diverge":
                continue
            # segments between flushes
            seg = 0
            worst = 0
            unknown = None
            flushed = False
            for e in x.effects:
                if e[0] != "call":
                    continue
                if e[1].endswith("BitBuffer::put_fast"):
                    u = upper(e[2][2], limit)
                    if u is None:
                        unknown = e
                    else:
                        seg += u
                    worst = max(worst, seg)
                elif e[1].endswith("BitBuffer::flush"):
                    seg = 0
                    flushed = True
            if x.outcome[0] == "backedge" and x.outcome[1] != h:
                r.fail(f.name, "bitacc/iteration", "an inner loop of compress_lz_codes has no constant bound: the number of codes appended between two "
                       "flushes is not limited", where=first_span(x), path=row_path(x, 8))
                continue
            n_iter += 1
            if unknown is not None:
                r.fail(f.name, "bitacc/iteration", "the length argument %s of a put_fast call has no upper bound derivable from the code" % tstr(unknown[2][2])[:80],
                       where=unknown[3], path=row_path(x, 8))
            elif x.outcome[0] == "backedge" and not flushed and worst > 0:
                r.fail(f.name, "bitacc/iteration", "an iteration appends bits without flushing the accumulator", where=first_span(x), path=row_path(x, 8))
            elif left + worst > width:
                r.fail(f.name, "bitacc/iteration", "between two flushes up to %d bits are appended to an accumulator that may still hold %d: more than its "
                       "%d bits — the top bits of a code are lost (corrupt stream; shift overflow in the next flush)" % (worst, left, width),
                       where=first_span(x), path=row_path(x, 8))
            else:
                r.ok(f.name, "bitacc/iteration", "at most %d + %d <= %d bits between two flushes" % (left, worst, width))
    if n_iter < 4:
        r.fail(f.name, "bitacc/rows", "expected at least 4 flush-to-flush paths in compress_lz_codes, found %d" % n_iter)
