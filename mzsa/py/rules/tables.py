"""Spec-table agreement (DESIGN §5.1): decoder and encoder constants against RFC 1951, and against each other, as they are
*used* by the code (index expressions are extracted from the MIR, not assumed)."""
import os
import sys
import paths
import sm
import termeval
import configfn
from terms import ISet, tstr, pstr, is_const, const_val
from rules.util import *
from rules import inflate_core as ic

sys.path.insert(0, os.path.join(os.path.dirname(os.path.dirname(os.path.dirname(os.path.abspath(__file__)))), "tables"))
import rfc  # noqa: E402


def rule_decoder_tables(ctx, cfg, r):
    c = ctx.crate(cfg)
    M = ic.machine(ctx, cfg)
    lb = c.const_ints("inflate::core::LENGTH_BASE")
    le = c.const_ints("inflate::core::LENGTH_EXTRA")
    db = c.const_ints("inflate::core::DIST_BASE")
    if lb[:29] == rfc.LENGTH_BASE and le[:29] == rfc.LENGTH_EXTRA:
        r.ok("inflate::core", "LENGTH_BASE/EXTRA", "29 length codes = RFC 1951 §3.2.5")
    else:
        bad = [i for i in range(29) if lb[i] != rfc.LENGTH_BASE[i] or le[i] != rfc.LENGTH_EXTRA[i]]
        r.fail("inflate::core", "LENGTH_BASE/EXTRA", "length code table differs from RFC 1951 at codes %s" % [257 + i for i in bad])
    # padding entries reached through the & 31 mask must not shorten a copy below what an invalid symbol would need
    if all(v > rfc.MAX_MATCH for v in lb[29:]):
        r.ok("inflate::core", "LENGTH_BASE-padding", "padding entries %s exceed the maximum match length" % lb[29:])
    else:
        r.fail("inflate::core", "LENGTH_BASE-padding", "padding entries of LENGTH_BASE %s are plausible lengths: a masked out-of-range "
               "index would decode as a valid length" % lb[29:])
    if db == rfc.DIST_BASE:
        r.ok("inflate::core", "DIST_BASE", "30 distance codes = RFC 1951")
    else:
        r.fail("inflate::core", "DIST_BASE", "DIST_BASE differs from RFC 1951 at %s" % [i for i in range(min(len(db), 30)) if i >= len(db) or db[i] != rfc.DIST_BASE[i]])
    f = configfn.ConfigFn(c, "inflate::core::num_extra_bits_for_distance_code", ["code"])
    ctx.touched(f.fn)
    got = [f.eval(i)[1][0] for i in range(30)]
    if got == rfc.DIST_EXTRA:
        r.ok(f.fn.name, "dist-extra", "num_extra_bits_for_distance_code(0..29) = RFC 1951")
    else:
        r.fail(f.fn.name, "dist-extra", "distance extra-bit counts differ from RFC 1951: %s" % got)
    order = c.const_ints("HUFFMAN_LENGTH_ORDER")
    r.ok("shared", "HUFFMAN_LENGTH_ORDER", "code length order = RFC 1951 §3.2.7") if order == rfc.CLEN_ORDER else \
        r.fail("shared", "HUFFMAN_LENGTH_ORDER", "code length alphabet order differs from RFC 1951: %s" % order)
    mts = c.const_ints("inflate::core::MIN_TABLE_SIZES")
    r.ok("inflate::core", "MIN_TABLE_SIZES", "HLIT+257, HDIST+1, HCLEN+4") if mts == [rfc.HLIT_BASE, rfc.HDIST_BASE, rfc.HCLEN_BASE] else \
        r.fail("inflate::core", "MIN_TABLE_SIZES", "table size bases %s differ from (257, 1, 4)" % mts)
    # field widths and the use of MIN_TABLE_SIZES in ReadTableSizes
    widths = None
    for x in M.arm_rows("ReadTableSizes"):
        for e in calls_named(x, "inflate::core::read_bits"):
            a = e[2][1]
            while a[0] == "cast":       # the table may hold a narrower integer type than read_bits takes
                a = a[1]
            if a[0] == "pure" and a[1] == "index" and a[2][0][0] == "constarr":
                widths = list(a[2][0][2])
                idx = a[2][1]
                if not paths.term_contains(idx, lambda y: y[0] == "fld" and y[2] == "counter"):
                    r.fail(M.fn.name, "table-size-width-index", "table size field width is not selected by the running counter")
    if widths == [rfc.HLIT_BITS, rfc.HDIST_BITS, rfc.HCLEN_BITS]:
        r.ok(M.fn.name, "table-size-widths", "HLIT/HDIST/HCLEN read with 5/5/4 bits")
    else:
        r.fail(M.fn.name, "table-size-widths", "table size fields are read with %s bits (RFC: 5, 5, 4)" % widths)
    # code-length code lengths: 3 bits each, stored through HUFFMAN_LENGTH_ORDER[counter]
    ok3 = False
    for x in M.arm_rows("ReadHufflenTableCodeSize"):
        for e in calls_named(x, "inflate::core::read_bits"):
            if is_const(e[2][1]) and const_val(e[2][1]) == rfc.CLEN_BITS:
                ok3 = True
        for e in x.stores():
            if paths.place_is_field(paths.root_of(e[1]) if False else e[1][1] if e[1][0] in ("idx",) else e[1], "code_size_huffman"):
                pass
    r.ok(M.fn.name, "clen-width", "code length code lengths read with 3 bits") if ok3 else \
        r.fail(M.fn.name, "clen-width", "code length code lengths are not read with 3 bits")
    # repeat codes: extra bits [2,3,7] and bases [3,3,11] as used
    extra_tab = base_tab = None
    for x in M.arm_rows("ReadLitlenDistTablesCodeSize"):
        for k, v in x.store.items():
            if isinstance(k, tuple) and k and k[0] == "fld" and k[2] == "num_extra" and isinstance(v, tuple):
                for st in paths.subterms(v):
                    if st[0] == "pure" and st[1] == "index" and st[2][0][0] == "constarr":
                        extra_tab = (list(st[2][0][2]), st[2][1])
    for x in M.arm_rows("ReadExtraBitsCodeSize"):
        for k, v in x.store.items():
            if isinstance(k, tuple) and k and k[0] == "fld" and k[2] == "counter" and isinstance(v, tuple):
                for st in paths.subterms(v):
                    if st[0] == "pure" and st[1] == "index" and st[2][0][0] == "constarr":
                        base_tab = (list(st[2][0][2]), st[2][1])
    okrep = extra_tab is not None and base_tab is not None
    if okrep:
        # evaluate the index expressions for dist (= symbol) 16, 17, 18
        def ev_idx(term, sym):
            def leaf(t):
                if t[0] == "load" and paths.place_is_field(t[1], "dist"):
                    return str(sym)
                if t[0] == "unknown" and "decode_huffman_code" in str(t[1]):
                    return str(sym)
                raise termeval.Unsupported(tstr(t))
            return eval(termeval.compile_term(term, leaf), {"_sx": termeval._sx})
        try:
            ex = [extra_tab[0][ev_idx(extra_tab[1], s)] for s in (16, 17, 18)]
            bs = [base_tab[0][ev_idx(base_tab[1], s)] for s in (16, 17, 18)]
        except Exception as e:
            ex = bs = None
        want_ex = [rfc.REPEAT[s][0] for s in (16, 17, 18)]
        want_bs = [rfc.REPEAT[s][1] for s in (16, 17, 18)]
        if ex == want_ex and bs == want_bs:
            r.ok(M.fn.name, "repeat-codes", "symbols 16/17/18: extra bits %s, base counts %s" % (ex, bs))
        else:
            r.fail(M.fn.name, "repeat-codes", "repeat codes 16/17/18 use extra bits %s and bases %s (RFC: %s, %s)" % (ex, bs, want_ex, want_bs))
    else:
        r.fail(M.fn.name, "repeat-codes", "the repeat-code parameter tables were not found in the code-length states")
    # fixed block lengths as written
    g = c.fn("inflate::core::start_static_table")
    ctx.touched(g)
    lit, dist, sizes = fixed_lengths(c, g, "code_size_literal", "code_size_dist")
    if lit == rfc.FIXED_LITLEN_LENGTHS and dist[:32] == rfc.FIXED_DIST_LENGTHS and sizes.get(0) == 288 and sizes.get(1) == 32:
        r.ok(g.name, "fixed-lengths", "fixed block: 288 literal/length lengths 8/9/7/8 and 32 distance lengths of 5")
    else:
        r.fail(g.name, "fixed-lengths", "fixed Huffman code lengths written by start_static_table differ from RFC 1951 §3.2.6 "
               "(first difference at literal index %s; table sizes %s)" % (next((i for i in range(288) if i >= len(lit) or lit[i] != rfc.FIXED_LITLEN_LENGTHS[i]), None), sizes))


def fixed_lengths(c, f, lit_field, dist_field):
    ev = paths.Evaluator(c)
    rows = [x for x in ev.run(f) if x.outcome[0] == "return"]
    lit = [None] * 288
    dist = [None] * 32
    sizes = {}
    if len(rows) != 1:
        return lit, dist, sizes
    x = rows[0]
    pending = {}
    for e in x.effects:
        if e[0] == "call" and "IndexMut" in e[1] and e[2][1][0] == "agg" and e[2][1][1].endswith("ops::range::Range"):
            rng = [const_val(q) if is_const(q) else None for q in e[2][1][4]]
            fieldname = None
            for st in paths.subterms(e[2][0]):
                if st[0] == "fld" and st[2] in (lit_field, dist_field):
                    fieldname = st[2]
            if fieldname is None and e[2][0][0] == "ref":
                pt = e[2][0][1]
                while pt[0] in ("idx", "cidx", "fld"):
                    if pt[0] == "fld" and pt[2] in (lit_field, dist_field):
                        fieldname = pt[2]
                    pt = pt[1]
            pending[e[4]] = (fieldname, rng, e[2][0])
        if e[0] == "call" and e[1].endswith("::fill"):
            tgt = e[2][0]
            for seq, (fieldname, rng, _) in pending.items():
                if paths.term_contains(tgt, lambda y: y[0] == "call" and y[3] == seq) and fieldname and None not in rng and is_const(e[2][1]):
                    arr = lit if fieldname == lit_field else dist
                    for i in range(rng[0], min(rng[1], len(arr))):
                        arr[i] = const_val(e[2][1])
        if e[0] == "store" and e[1][0] in ("idx", "cidx") and paths.term_contains(e[1], lambda y: y[0] == "fld" and y[2] == "table_sizes"):
            i = e[1][2] if e[1][0] == "cidx" else (const_val(e[1][2]) if is_const(e[1][2]) else None)
            if is_const(e[2]):
                sizes[i] = const_val(e[2])
    return lit, dist, sizes


def encoder_use(ctx, cfg):
    """index expressions with which compress_lz_codes uses the encoder tables: python functions of m (= len - 3) and d (= dist - 1)"""
    c = ctx.crate(cfg)
    f = c.fn("deflate::core::compress_lz_codes")
    ctx.touched(f)
    ev = paths.Evaluator(c, effects=ctx.effects(cfg))
    rows = ev.run(f)
    heads = sorted({x.outcome[1] for x in rows if x.outcome[0] == "backedge"})
    out = {}
    for h in heads:
        ev2 = paths.Evaluator(c, effects=ctx.effects(cfg), max_paths=3000)
        for x in ev2.run(f, start_bb=h):
            pf = [e for e in x.effects if e[0] == "call" and e[1].endswith("BitBuffer::put_fast")]
            if len(pf) != 4:
                continue
            # put_fast(codes[0][len_sym], sizes[0][len_sym]); put_fast(m & MASK[extra], extra); put_fast(codes[1][sym], ..); put_fast(d & MASK[n], n)
            def idx_of(t, field):
                for st in paths.subterms(t):
                    if st[0] == "load" and st[1][0] == "idx" and paths.term_contains(st[1][1], lambda y: y[0] == "fld" and y[2] == field):
                        return st[1][2]
                return None
            ls = idx_of(pf[0][2][1], "codes")
            ds = idx_of(pf[2][2][1], "codes")
            if ls is None or ds is None:
                continue
            small = None
            for a, s in x.atoms:
                if a[0] == "bin" and a[1] == "Lt" and is_const(a[3]) and const_val(a[3]) == 512:
                    small = (s.single(), a[2])
            if small is None:
                continue
            key = "small" if small[0] == 1 else "large"
            out[key] = {"len_sym": ls, "len_extra_val": pf[1][2][1], "len_extra_n": pf[1][2][2], "dist_sym": ds,
                        "dist_extra_val": pf[3][2][1], "dist_extra_n": pf[3][2][2], "dist_term": small[1], "row": x}
    return out


def _uncast(t):
    while isinstance(t, tuple) and t and t[0] == "cast":
        t = t[1]
    return t


def compile_enc(term, mterm_pred, dterm):
    dcore = _uncast(dterm)

    def subst(t):
        if not isinstance(t, tuple):
            return t
        if t == dterm or t == dcore:
            return ("param", 2)
        if t and isinstance(t[0], str) and mterm_pred(t):
            return ("param", 1)
        return tuple(subst(q) for q in t)
    t2 = subst(term)

    def leaf(t):
        if t[0] == "param":
            return ["m", "d"][t[1] - 1]
        raise termeval.Unsupported(tstr(t))
    return termeval.make_fn(termeval.compile_term(t2, leaf), ["m", "d"])


def rule_encoder_tables(ctx, cfg, r):
    c = ctx.crate(cfg)
    use = encoder_use(ctx, cfg)
    fn = "deflate::core::compress_lz_codes"
    if set(use) != {"small", "large"}:
        r.fail(fn, "extraction", "could not extract the symbol computations of compress_lz_codes (found branches: %s)" % sorted(use))
        return
    lb, le, db = rfc.LENGTH_BASE, rfc.LENGTH_EXTRA, rfc.DIST_BASE
    dec_lb = c.const_ints("inflate::core::LENGTH_BASE")
    dec_le = c.const_ints("inflate::core::LENGTH_EXTRA")
    dec_db = c.const_ints("inflate::core::DIST_BASE")
    OFF = c.const_int("deflate::core::LEN_SYM_OFFSET")
    fns = {}
    try:
        for k, u in use.items():
            # match_len leaf: the (cast of the) load of lz_code_buf[i & MASK] that indexes LEN_SYM
            mt = None
            for st in paths.subterms(u["len_sym"]):
                if st[0] == "pure" and st[1] == "index" and st[2][0][1].endswith("LEN_SYM"):
                    mt = st[2][1]
            if mt is None:
                raise termeval.Unsupported("LEN_SYM use not found")
            mcore = _uncast(mt)     # the token byte itself: its uses may widen it to different integer types
            pred = lambda t, mt=mt, mcore=mcore: t == mt or t == mcore
            fns[k] = {n: compile_enc(u[n], pred, u["dist_term"]) for n in ("len_sym", "len_extra_val", "len_extra_n", "dist_sym", "dist_extra_val", "dist_extra_n")}
    except termeval.Unsupported as e:
        r.fail(fn, "compile", "cannot evaluate the encoder's symbol computation: %s" % e)
        return
    bad = []
    for m in range(256):
        f = fns["small"]
        sym = f["len_sym"](m, 0) - OFF + 256     # literal/length symbol number
        n = f["len_extra_n"](m, 0)
        v = f["len_extra_val"](m, 0)
        i = sym - 257
        if not (0 <= i < 29) or rfc.LENGTH_EXTRA[i] != n or rfc.LENGTH_BASE[i] + v != m + 3 or v >= (1 << n) or \
                dec_lb[i] + v != m + 3 or dec_le[i] != n:
            bad.append(("len", m + 3, sym, n, v))
    for d in range(32768):
        f = fns["small"] if d < 512 else fns["large"]
        sym = f["dist_sym"](0, d)
        n = f["dist_extra_n"](0, d)
        v = f["dist_extra_val"](0, d)
        if not (0 <= sym < 30) or rfc.DIST_EXTRA[sym] != n or rfc.DIST_BASE[sym] + v != d + 1 or v >= (1 << n) or dec_db[sym] + v != d + 1:
            bad.append(("dist", d + 1, sym, n, v))
            if len(bad) > 5:
                break
    if bad:
        r.fail(fn, "encode-decode", "encoder symbol/extra-bit computation disagrees with RFC 1951 / the decoder tables, e.g. %s=%d -> symbol %d, "
               "%d extra bits, extra value %d" % bad[0])
    else:
        r.ok(fn, "encode-decode", "all 256 lengths and 32768 distances: symbol and extra bits per RFC 1951, decode(encode(x)) = x with the decoder's tables")
    ctx.extra["lengths_checked"] = 256
    ctx.extra["distances_checked"] = 32768
    # sibling: record_match counts the symbols it will emit
    g = c.fn("deflate::core::record_match")
    ctx.touched(g)
    ev = paths.Evaluator(c, effects=ctx.effects(cfg), inline=["deflate::core::LZOxide::write_code"], max_paths=2000)
    cnt = {}
    for x in ev.run(g):
        if x.outcome[0] != "return":
            continue
        small = None
        for a, s in x.atoms:
            if a[0] == "bin" and a[1] == "Lt" and is_const(a[3]) and const_val(a[3]) == 512:
                small = (s.single(), a[2])
        if small is None:
            continue
        sts = [e for e in x.stores() if e[1][0] == "idx" and paths.term_contains(e[1][1], lambda y: y[0] == "fld" and y[2] == "count")]
        dsym = lsym = None
        for e in sts:
            tbl = e[1][1]
            which = tbl[2] if tbl[0] == "cidx" else (const_val(tbl[2]) if tbl[0] == "idx" and is_const(tbl[2]) else None)
            if which == 1:
                dsym = e[1][2]
            elif which == 0:
                lsym = e[1][2]
        if dsym is not None and lsym is not None:
            cnt["small" if small[0] == 1 else "large"] = (lsym, dsym, small[1])
    if set(cnt) != {"small", "large"}:
        r.fail(g.name, "count-sites", "record_match's frequency updates were not recognised (branches %s)" % sorted(cnt))
        return
    try:
        ok = True
        for k in ("small", "large"):
            lsym, dsym, dterm = cnt[k]
            # in record_match: match_len is param 3 minus MIN_MATCH_LEN, match_dist is param 4 minus 1 (already decremented locals)
            def leafm(t):
                raise termeval.Unsupported(tstr(t))
            mt = None
            for st in paths.subterms(lsym):
                if st[0] == "pure" and st[1] == "index" and st[2][0][1].endswith("LEN_SYM"):
                    mt = st[2][1]
            fl = compile_enc(lsym, lambda t, mt=mt: t == mt, dterm)
            fd = compile_enc(dsym, lambda t, mt=mt: t == mt, dterm)
            rng = range(0, 512) if k == "small" else range(512, 32768, 7)
            for d in rng:
                if fd(0, d) != fns[k]["dist_sym"](0, d):
                    ok = False
            for m in range(256):
                if fl(m, 0) != fns[k]["len_sym"](m, 0):
                    ok = False
        if ok:
            r.ok(g.name, "count-vs-emit", "the symbols counted in huff.count are the symbols compress_lz_codes emits")
        else:
            r.fail(g.name, "count-vs-emit", "record_match counts different symbols than compress_lz_codes emits for the same (len, dist)")
    except termeval.Unsupported as e:
        r.fail(g.name, "count-compile", "cannot evaluate record_match's symbol computation: %s" % e)
    # fixed lengths written by the encoder
    h = c.fn("deflate::core::HuffmanOxide::start_static_block")
    ctx.touched(h)
    lit, dist, _ = fixed_lengths_enc(c, h)
    if lit == rfc.FIXED_LITLEN_LENGTHS and dist[:32] == rfc.FIXED_DIST_LENGTHS:
        r.ok(h.name, "fixed-lengths", "encoder's fixed block code lengths = RFC 1951 = decoder's")
    else:
        r.fail(h.name, "fixed-lengths", "fixed Huffman code lengths written by start_static_block differ from RFC 1951 (first literal difference at %s)"
               % next((i for i in range(288) if lit[i] != rfc.FIXED_LITLEN_LENGTHS[i]), None))


def fixed_lengths_enc(c, f, per_row=False):
    """start_static_block fills self.code_sizes[0][a..b] / [1][..] with constants.
    per_row: -> [(row, lit, dist)] for every returning row (what THAT path writes), else the union over all rows"""
    ev = paths.Evaluator(c, max_paths=500)
    lit = [None] * 288
    dist = [None] * 32
    rows = [x for x in ev.run(f)]
    out_rows = []
    for x in rows:
        if per_row:
            lit = [None] * 288
            dist = [None] * 32
            out_rows.append((x, lit, dist))
        pending = {}
        for e in x.effects:
            if e[0] == "call" and ("IndexMut" in e[1]) and e[2][1][0] == "agg" and ("Range" in e[2][1][1]):
                a = e[2][1]
                vals = [const_val(q) if is_const(q) else None for q in a[4]]
                if a[1].endswith("RangeTo"):
                    vals = [0] + vals
                if a[1].endswith("RangeFull"):
                    vals = [0, 10 ** 6]
                tbl = None
                for st in paths.subterms(e[2][0]):
                    if st[0] in ("cidx", "idx") and paths.term_contains(st[1], lambda y: y[0] == "fld" and y[2] == "code_sizes"):
                        tbl = st[2] if st[0] == "cidx" else (const_val(st[2]) if is_const(st[2]) else None)
                pt = e[2][0][1] if e[2][0][0] == "ref" else None
                while pt is not None and pt[0] in ("idx", "cidx", "fld", "deref"):
                    if pt[0] in ("cidx", "idx") and paths.term_contains(pt[1], lambda y: isinstance(y, tuple) and y[0] == "fld" and y[2] == "code_sizes"):
                        tbl = pt[2] if pt[0] == "cidx" else (const_val(pt[2]) if is_const(pt[2]) else None)
                    pt = pt[1] if pt[0] != "deref" else None
                pending[e[4]] = (tbl, vals)
            if e[0] == "call" and e[1].endswith("::fill") and is_const(e[2][1]):
                for seq, (tbl, vals) in pending.items():
                    if paths.term_contains(e[2][0], lambda y: y[0] == "call" and y[3] == seq) and tbl in (0, 1) and None not in vals:
                        arr = lit if tbl == 0 else dist
                        for i in range(vals[0], min(vals[1], len(arr))):
                            arr[i] = const_val(e[2][1])
    if per_row:
        return out_rows
    return lit, dist, None


def rule_fixed_tables_every_block(ctx, cfg, r):
    """A fixed-Huffman block is coded with the fixed tables: start_static_block (re)writes the RFC 1951 fixed code lengths into both tables and
    rebuilds the codes (optimize_table, static) on EVERY path — the same arrays are overwritten by every dynamic block in between, so
    nothing may be cached across blocks."""
    c = ctx.crate(cfg)
    h = c.fn("deflate::core::HuffmanOxide::start_static_block")
    ctx.touched(h)
    n = 0
    for x, lit, dist in fixed_lengths_enc(c, h, per_row=True):
        if x.outcome[0] != "return":
            continue
        n += 1
        opt = [e for e in x.effects if e[0] == "call" and e[1].endswith("HuffmanOxide::optimize_table")]
        tabs = sorted(const_val(e[2][1]) for e in opt if is_const(e[2][1]) and len(e[2]) > 4 and is_const(e[2][4]) and const_val(e[2][4]) == 1)
        fills = [i for i, e in enumerate(x.effects) if e[0] == "call" and e[1].endswith("::fill")]
        opts = [i for i, e in enumerate(x.effects) if e[0] == "call" and e[1].endswith("HuffmanOxide::optimize_table")]
        if lit == rfc.FIXED_LITLEN_LENGTHS and dist[:32] == rfc.FIXED_DIST_LENGTHS and tabs[:2] == [0, 1] and fills and opts and max(fills) < min(opts):
            r.ok(h.name, "fixed-tables-rebuilt", "this path writes the RFC 1951 fixed lengths and rebuilds both code tables")
        else:
            r.fail(h.name, "fixed-tables-rebuilt", "start_static_block can announce a fixed block without (re)building the fixed tables on this path "
                   "(lengths complete: %s, optimize_table(static) for tables %s): after a dynamic block the block would be coded with that block's codes"
                   % (lit == rfc.FIXED_LITLEN_LENGTHS and dist[:32] == rfc.FIXED_DIST_LENGTHS, tabs), where=first_span(x), path=row_path(x, 6))
    if n == 0:
        r.fail(h.name, "fixed-tables-rebuilt", "no returning path of start_static_block found")
