"""C10 — compressor output is valid and honours level/strategy (structural clauses)."""
import os
import sys
import paths
import termeval
import configfn
from mir import callee_name, Place
from terms import ISet, tstr, pstr, is_const, const_val
from rules.util import *
from rules import tables
from rules import deflate_proto as dp
from rules import deflate_cfg as dc
from rules.inflate_core import local_expr, dominating_atoms

sys.path.insert(0, os.path.join(os.path.dirname(os.path.dirname(os.path.dirname(os.path.abspath(__file__)))), "tables"))
import rfc  # noqa: E402

_route = {}


def routing(ctx, cfg):
    """-> function flags -> sorted list of compress routines reachable from compress_inner"""
    if cfg in _route:
        return _route[cfg]
    c = ctx.crate(cfg)
    f, rows = dp.inner_rows(ctx, cfg)
    conds = []

    def leaf(t):
        if t[0] == "load" and paths.place_is_field(t[1], "flags", "ParamsOxide"):
            return "flags"
        raise termeval.Unsupported(tstr(t))
    for x in rows:
        work = calls_named(x, *dp.COMPRESS_ROUTINES)
        if not work:
            continue
        parts = []
        # only atoms evaluated before the routine call and depending on flags alone
        for a, s in x.atoms:
            if not paths.term_contains(a, lambda y: y[0] == "load" and paths.place_is_field(y[1], "flags", "ParamsOxide") and y[2] == 0):
                continue
            if paths.term_contains(a, lambda y: y[0] == "call"):
                continue
            try:
                e = termeval.compile_term(a, leaf)
            except termeval.Unsupported:
                continue
            alts = " or ".join("(%s) == %d" % (e, lo) for lo, hi in s.iv if lo == hi)
            if alts:
                parts.append("(" + alts + ")")
        conds.append((termeval.make_fn(" and ".join(parts) or "True", ["flags"]), work[0][1]))

    def route(flags):
        return sorted({name for fnc, name in conds if fnc(flags)})
    _route[cfg] = route
    return route


def reach(E, c, start_name, targets):
    """does the call graph from `start_name` reach any function whose name ends with one of targets"""
    seen = set()
    st = [c.fn(start_name).id]
    hits = set()
    while st:
        x = st.pop()
        if x in seen:
            continue
        seen.add(x)
        s = E.lookup(x)
        if not s:
            continue
        for callee in s["calls"]:
            nm = c.fns[callee].name if callee in c.fns else callee
            for t in targets:
                if nm.endswith(t):
                    hits.add(t)
            if callee in c.fns:
                st.append(callee)
    return hits


def rule_routing(ctx, cfg, r, r_strategy):
    c = ctx.crate(cfg)
    E = ctx.effects(cfg)
    route = routing(ctx, cfg)
    RAW = c.const_int("deflate_flags::TDEFL_FORCE_ALL_RAW_BLOCKS")
    RLE = c.const_int("deflate_flags::TDEFL_RLE_MATCHES")
    FILT = c.const_int("deflate_flags::TDEFL_FILTER_MATCHES")
    MASK = c.const_int("deflate::core::MAX_PROBES_MASK")
    n = 0
    bad = {}
    for cf in dc.space(ctx, cfg):
        if cf["panic"]:
            continue
        n += 1
        rt = route(cf["flags"])
        if len(rt) != 1:
            bad.setdefault("ambiguous", cf)
            continue
        rt = rt[0]
        if cf["level"] == 0 and rt != "deflate::stored::compress_stored":
            bad.setdefault("level0->" + rt.split("::")[-1], cf)
        if cf["flags"] & RAW and rt != "deflate::stored::compress_stored":
            bad.setdefault("raw->" + rt.split("::")[-1], cf)
        if cf["flags"] & RLE and not cf["flags"] & RAW and rt == "deflate::core::compress_fast":
            bad.setdefault("rle->compress_fast", cf)
        if cf["flags"] & FILT and rt == "deflate::core::compress_fast":
            bad.setdefault("filtered->compress_fast", cf)
    ctx.extra["configurations_routed"] = n
    for k, cf in bad.items():
        if k == "rle->compress_fast":
            r_strategy.fail("deflate::core::compress_inner", "route:" + k,
                            "run-length mode is routed to compress_fast, which searches the whole window: e.g. %s level %d strategy %s window_bits %d "
                            "(flags %#x) emits ordinary long-distance matches instead of distance-1 runs" % (cf["fmt"], cf["level"], cf["strategy"], cf["wb"], cf["flags"]))
        elif k == "filtered->compress_fast":
            r_strategy.fail("deflate::core::compress_inner", "route:" + k, "filtered mode is routed to compress_fast (no short-match filter): %s" % cf)
        else:
            r.fail("deflate::core::compress_inner", "route:" + k, "unexpected routing for %s" % cf)
    if "rle->compress_fast" not in bad:
        r_strategy.ok("deflate::core::compress_inner", "route:rle", "RLE configurations never reach compress_fast")
    if "filtered->compress_fast" not in bad:
        r_strategy.ok("deflate::core::compress_inner", "route:filtered", "Filtered configurations never reach compress_fast")
    if not [k for k in bad if k not in ("rle->compress_fast", "filtered->compress_fast")]:
        r.ok("deflate::core::compress_inner", "route", "%d configurations: level 0 / raw flag -> compress_stored only; exactly one routine per configuration" % n)
    # stored routine records no matches or literals
    hits = reach(E, c, "deflate::stored::compress_stored", ["deflate::core::record_match", "deflate::core::record_literal", "LZOxide::write_code",
                                                             "DictOxide::find_match"])
    if hits:
        r.fail("deflate::stored::compress_stored", "stored-pure", "the stored routine can reach %s" % sorted(hits))
    else:
        r.ok("deflate::stored::compress_stored", "stored-pure", "compress_stored reaches no match/literal recording function")
    # static forcing, decided on the paths of flush_block (compress_block, where it exists, evaluated inline): every path that reaches
    # start_dynamic_block has established that FORCE_ALL_STATIC_BLOCKS is clear
    STATIC = c.const_int("deflate_flags::TDEFL_FORCE_ALL_STATIC_BLOCKS")
    fb = c.fn("deflate::core::flush_block")
    rows_sf = paths.Evaluator(c, effects=E, max_paths=30000, inline=["deflate::core::compress_block"]).run(fb)
    n_dyn = 0
    bad_sf = None
    for x in rows_sf:
        if not calls_named(x, "HuffmanOxide::start_dynamic_block"):
            continue
        n_dyn += 1
        clear = any(v == 0 and k[1] == STATIC and paths.is_load_of(k[0], "flags", "ParamsOxide") for k, v in mask_tests(x).items())
        if not clear:
            for a_, s_ in x.atoms:
                for st_ in paths.subterms(a_):
                    if st_ and st_[0] == "bin" and st_[1] == "BitAnd" and is_const(st_[3]) and const_val(st_[3]) == STATIC and \
                            paths.is_load_of(st_[2], "flags", "ParamsOxide") and vs(x, st_).single() == 0:
                        clear = True
        if not clear:
            bad_sf = x
    if n_dyn and bad_sf is None:
        r_strategy.ok(fb.name, "static-forcing", "every path of flush_block to start_dynamic_block has FORCE_ALL_STATIC_BLOCKS clear (%d paths)" % n_dyn)
    else:
        r_strategy.fail(fb.name, "static-forcing", "the fixed strategy can reach start_dynamic_block (%d paths to it%s)"
                        % (n_dyn, "; one without the flag test: " + bad_sf.describe(8) if bad_sf is not None else ""))
    # HuffmanOnly: zero probes -> max_probes [1,1] -> find_match returns its input at the first probe
    pf = configfn.ConfigFn(c, "deflate::core::probes_from_flags", ["flags"])
    okh = True
    for cf in dc.space(ctx, cfg, levels=(1, 6, 10), wbs=(9, 13, 15)):
        if cf["panic"] or cf["strategy"] != "HuffmanOnly" or cf["level"] == 0:
            continue
        st, pr = pf.eval(cf["flags"])
        if st != "ok" or pr != [1, 1] or cf["flags"] & MASK:
            okh = False
        if route(cf["flags"]) != ["deflate::core::compress_normal"]:
            okh = False
    fm = c.fn("deflate::core::DictOxide::find_match")
    ev = paths.Evaluator(c, effects=E, max_paths=3000, max_blocks=40)
    first_ret = False
    for x in ev.run(fm):
        if x.outcome[0] == "return":
            z = [a for a, s in x.atoms if a[0] == "bin" and a[1] == "Eq" and is_const(a[3]) and const_val(a[3]) == 0 and s.single() == 1 and
                 a[2][0] == "bin" and a[2][1] == "Sub" and const_val(a[2][3]) == 1 and paths.term_contains(a[2][2], lambda y: y[0] == "fld" and y[2] == "max_probes")]
            ops = tuple_ops(x.ret)
            if z and ops and ops[0] == P(5):
                first_ret = True
    if okh and first_ret:
        r_strategy.ok(fm.name, "huffman-only", "HuffmanOnly: probes = 0 -> max_probes [1,1]; find_match returns the incoming (dist, len) when the first probe budget is exhausted")
    else:
        r_strategy.fail(fm.name, "huffman-only", "Huffman-only mode can still find matches (probe table ok=%s, early return ok=%s)" % (okh, first_ret))
    # Filtered: matches of length <= 5 are discarded; RLE branch uses distance 1 and no hash search
    cn = c.fn("deflate::core::compress_normal")
    ev = paths.Evaluator(c, effects=E, max_paths=20000, max_blocks=70)
    rows = ev.run(cn)
    heads = sorted({x.outcome[1] for x in rows if x.outcome[0] == "backedge"})
    rle_ok = filt_ok = None
    for x in rows:
        rle = None
        for a, s in x.atoms:
            if a[0] == "bin" and a[1] == "Ne" and a[2][0] == "bin" and a[2][1] == "BitAnd" and is_const(a[2][3]) and const_val(a[2][3]) == RLE and \
                    paths.is_load_of(a[2][2], "flags", "ParamsOxide"):
                rle = s.single() if rle is None else rle
        if rle == 1:
            fmc = calls_named(x, "DictOxide::find_match")
            rm = calls_named(x, "deflate::core::record_match")
            good = not fmc and all(vs(x, e[2][3]).subset_of(ISet.of(0, 1)) for e in rm if e[2][3][0] != "load")
            rle_ok = good if rle_ok is None else (rle_ok and good)
    if rle_ok:
        r_strategy.ok(cn.name, "rle-branch", "under RLE_MATCHES compress_normal never calls find_match; freshly found matches have distance 1")
    else:
        r_strategy.fail(cn.name, "rle-branch", "compress_normal's run-length branch can use the hash search or a distance other than 1 (%s)" % rle_ok)
    for x in rows:
        # freshly found match lengths (terms built on a call result) that this path has proved to be at most 5 — by whatever test
        # (`<= 5`, `< 6`, `!(>= 6)`): decided on the value set of the term
        shorts = []
        for a, s in x.atoms:
            if a[0] == "bin" and a[1] in ("Le", "Lt", "Gt", "Ge") and is_const(a[3]) and paths.term_contains(a[2], lambda y: y[0] == "call"):
                hi = vs(x, a[2]).hi()
                if hi is not None and hi <= 5 and a[2] not in shorts:
                    shorts.append(a[2])
        for a2 in shorts:
            a = ("bin", "Le", a2, ("int", 5), "bool")
            if True:
                # FILTER_MATCHES set on this path (value set of the masked flags excludes 0)
                fl = [q for q, sq in x.atoms for stq in paths.subterms(q)
                      if stq and stq[0] == "bin" and stq[1] == "BitAnd" and is_const(stq[3]) and const_val(stq[3]) == FILT and not vs(x, stq).contains(0)]
                if fl:
                    rm = calls_named(x, "deflate::core::record_match")
                    short = [e for e in rm if e[2][2] == a[2]]
                    saved = [v for k, v in x.store.items() if isinstance(k, tuple) and k and k[0] == "local" and v == a[2] and
                             (cn.local_name(k[2]) or "").startswith("saved_match_len")]
                    filt_ok = (not short and not saved) if filt_ok is None else (filt_ok and not short and not saved)
    if filt_ok:
        r_strategy.ok(cn.name, "filter-small", "under FILTER_MATCHES a match of length <= 5 is never recorded")
    else:
        r_strategy.fail(cn.name, "filter-small", "filtered mode can record a match of length <= 5 (%s)" % filt_ok)


def rule_limits(ctx, cfg, r):
    c = ctx.crate(cfg)
    f = c.fn("deflate::core::HuffmanOxide::start_dynamic_block")
    ctx.touched(f)
    want_opt = {0: (rfc.NUM_LITLEN_CODES + 2, rfc.MAX_CODE_LEN), 1: (32, rfc.MAX_CODE_LEN), 2: (rfc.NUM_CLEN_CODES, rfc.MAX_CLEN_CODE_LEN)}
    got = {}
    for bb, t in call_sites(f, "HuffmanOxide::optimize_table"):
        a = [local_expr(c, f, bb, x) for x in t["args"][1:4]]
        if all(is_const(q) for q in a):
            got[const_val(a[0])] = (const_val(a[1]), const_val(a[2]))
    # each table is rebuilt on every path through start_dynamic_block (optimize_table is also what clears the code sizes of the
    # previous block: a skipped rebuild leaves the previous block's lengths in this block's header)
    cond = []
    # success exits: the blocks that build `Ok(())` (the `?` error exits of the code-length packing leave earlier)
    ok_blocks = [b for b, blk in enumerate(f.blocks) for st_ in blk["s"]
                 if "a" in st_ and not st_["a"][0]["p"] and st_["a"][0]["l"] == 0 and "agg" in st_["a"][1] and st_["a"][1]["agg"].get("variant") == "Ok"]
    for bb, t in call_sites(f, "HuffmanOxide::optimize_table"):
        a0 = local_expr(c, f, bb, t["args"][1])
        if not ok_blocks or not all(f.dominates(bb, rb) for rb in ok_blocks):
            cond.append(const_val(a0) if is_const(a0) else tstr(a0))
    if cond:
        r.fail(f.name, "tables-rebuilt", "optimize_table for table(s) %s is not called on every path through start_dynamic_block: the code sizes of the "
               "previous block would be packed into this block's header" % cond)
    else:
        r.ok(f.name, "tables-rebuilt", "all three code tables are rebuilt unconditionally for every dynamic block")
    if got == want_opt:
        r.ok(f.name, "code-size-limits", "length-limited codes: 15 / 15 / 7 bits for the three alphabets")
    else:
        r.fail(f.name, "code-size-limits", "optimize_table limits %s differ from (288,15)/(32,15)/(19,7)" % got)
    pbs = []
    for bb, t in call_sites(f, "OutputBufferOxide::put_bits", "OutputBufferOxide::put_bits_no_flush"):
        v = local_expr(c, f, bb, t["args"][1])
        n = local_expr(c, f, bb, t["args"][2])
        pbs.append((v, n, t.get("sp")))
    def has(pred):
        return any(pred(v, n) for v, n, _ in pbs)
    okhdr = has(lambda v, n: is_const(v) and const_val(v) == rfc.BTYPE_DYNAMIC and is_const(n) and const_val(n) == 2)
    ok5 = sum(1 for v, n, _ in pbs if is_const(n) and const_val(n) == 5 and paths.term_contains(v, lambda y: y[0] == "bin" and y[1] == "Sub")) >= 2
    ok4 = has(lambda v, n: is_const(n) and const_val(n) == 4 and paths.term_contains(v, lambda y: y[0] == "bin" and y[1] == "Sub" and is_const(y[3]) and const_val(y[3]) == 4))
    ok3 = has(lambda v, n: is_const(n) and const_val(n) == 3)
    subs = sorted(const_val(y[3]) for v, n, _ in pbs if is_const(n) and const_val(n) == 5 for y in paths.subterms(v)
                  if y[0] == "bin" and y[1] == "Sub" and is_const(y[3]))
    if okhdr and ok5 and ok4 and ok3 and subs == [1, 257]:
        r.ok(f.name, "dynamic-header", "BTYPE=2 (2 bits), HLIT-257 and HDIST-1 (5 bits), HCLEN-4 (4 bits), code length lengths (3 bits)")
    else:
        r.fail(f.name, "dynamic-header", "dynamic block header fields do not match RFC 1951 (btype %s, 5-bit fields %s offsets %s, 4-bit %s, 3-bit %s)"
               % (okhdr, ok5, subs, ok4, ok3))
    # repeat code extra bits as emitted
    reps = [v for v, n, _ in pbs if n[0] in ("pure", "place", "var", "unknown") or True]
    found = False
    for bb, blk in enumerate(f.blocks):
        for s in blk["s"]:
            if "a" in s and "agg" in s["a"][1] and s["a"][1]["agg"].get("kind") == "array":
                vals = [int(o["k"]["int"]) for o in s["a"][1]["agg"]["ops"] if "k" in o and "int" in o["k"]]
                if vals == [rfc.REPEAT[16][0], rfc.REPEAT[17][0], rfc.REPEAT[18][0]]:
                    found = True
    for k, v in c.consts.items():
        pass
    prom = [p for p in c.fns.values() if p.kind == "promoted" and p.parent == f.id]
    for p in prom:
        for s in p.blocks[0]["s"]:
            if "a" in s and "agg" in s["a"][1] and s["a"][1]["agg"].get("kind") == "array":
                vals = [int(o["k"]["int"]) for o in s["a"][1]["agg"]["ops"] if "k" in o and "int" in o["k"]]
                if vals == [2, 3, 7]:
                    found = True
    if found:
        r.ok(f.name, "repeat-extra", "repeat codes 16/17/18 are followed by 2/3/7 extra bits")
    else:
        r.fail(f.name, "repeat-extra", "the extra-bit widths [2,3,7] of the repeat codes were not found in start_dynamic_block")
    # stored block header — decided on the paths of flush_block (helpers introduced later are evaluated inline): wherever the 16-bit
    # LEN field is written, the sequence is BTYPE=00 (2 bits), pad to a byte, LEN = total_bytes & 0xFFFF, NLEN = !total_bytes & 0xFFFF
    fb = c.fn("deflate::core::flush_block")
    rows_fb = paths.Evaluator(c, effects=ctx.effects(cfg), max_paths=20000).run(fb)

    def tb_field(v, negated):
        v = v[1] if v[0] == "cast" else v
        if not (v[0] == "bin" and v[1] == "BitAnd" and is_const(v[3]) and const_val(v[3]) == 0xFFFF):
            return False
        inner = v[2]
        if negated:
            if not (inner[0] == "un" and inner[1] == "Not"):
                return False
            inner = inner[2]
        return inner[0] == "load" and paths.place_is_field(inner[1], "total_bytes")
    n_hdr = 0
    bad_hdr = None
    for x in rows_fb:
        evs = [e for e in x.effects if e[0] == "call" and e[1].split("::")[-1] in ("put_bits", "put_bits_no_flush", "pad_to_bytes", "write_bytes")]
        for i, e in enumerate(evs):
            if e[1].endswith("put_bits") and len(e[2]) > 2 and tb_field(e[2][1], False):
                n_hdr += 1
                good = is_const(e[2][2]) and const_val(e[2][2]) == 16 and i >= 2 and i + 1 < len(evs) and \
                    evs[i - 1][1].endswith("pad_to_bytes") and evs[i - 2][1].endswith("put_bits") and is_const(evs[i - 2][2][1]) and \
                    const_val(evs[i - 2][2][1]) == rfc.BTYPE_STORED and is_const(evs[i - 2][2][2]) and const_val(evs[i - 2][2][2]) == 2 and \
                    evs[i + 1][1].endswith("put_bits") and tb_field(evs[i + 1][2][1], True) and is_const(evs[i + 1][2][2]) and const_val(evs[i + 1][2][2]) == 16
                if not good:
                    bad_hdr = x
    if n_hdr and bad_hdr is None:
        r.ok(fb.name, "stored-header", "stored block: BTYPE=00, pad, LEN = total_bytes & 0xFFFF, NLEN = !total_bytes & 0xFFFF, 16 bits each")
    else:
        r.fail(fb.name, "stored-header", "stored block header is not BTYPE=00 / pad / LEN / !LEN as 16-bit fields (%d LEN sites seen)" % n_hdr,
               where=first_span(bad_hdr) if bad_hdr is not None else None)
    # BFINAL: the 1-bit field that opens a block is 1 exactly when flush == Finish — decided on the paths (the value is either the
    # comparison itself, in any width, or the constant the path's decision about `flush` implies)
    FIN = discr(c, "TDEFLFlush", "Finish")
    n_bf = 0
    bad_bf = None
    for x in rows_fb:
        for e in x.effects:
            if e[0] == "call" and e[1].endswith("put_bits") and len(e[2]) > 2 and is_const(e[2][2]) and const_val(e[2][2]) == 1:
                n_bf += 1
                v = normcasts(c, x, e[2][1])
                fl = vs(x, ("discr", P(3)))
                if is_const(v):
                    good = fl.single() is not None and const_val(v) == (1 if fl.single() == FIN else 0) or \
                        (const_val(v) == 0 and not fl.contains(FIN))
                else:
                    good = v[0] == "bin" and v[1] == "Eq" and {v[2], v[3]} >= {P(3)} and any(q[0] == "enum" and q[2] == "Finish" for q in (v[2], v[3]))
                if not good:
                    bad_bf = (x, e)
                break       # the first 1-bit field of the path is the block's BFINAL
    if n_bf and bad_bf is None:
        r.ok(fb.name, "bfinal", "block header bit = (flush == Finish), 1 bit")
    else:
        r.fail(fb.name, "bfinal", "BFINAL is not emitted as a 1-bit field derived from flush == Finish (%d sites seen%s)"
               % (n_bf, (": " + tstr(bad_bf[1][2][1])[:60]) if bad_bf else ""))
    # auxiliary (unclaimed) C15 lint: stored cut vs mz_deflateBound divisor
    r.note("auxiliary C15 lint: compress_stored flushes a block when bytes_written > 31*1024 (mz_deflateBound assumes one 5-byte header per 31744 bytes)")


def rule_length_limit(ctx, cfg, r):
    """Length limiting is applied to every code set that can need it, and its rebalancing step keeps the code complete.
    (a) must-pass-through: every exit of enforce_max_code_size has merged the counts of all over-long codes into the limit bucket,
        unless there is at most one symbol;  (b) the rebalancing step is the Kraft-neutral exchange of miniz (drop one code of the
        limit length, split one shorter code into two codes one bit longer): the number of symbols is unchanged and the Kraft sum
        falls by exactly one unit per iteration;  (c) optimize_table runs it, with its own limit, before any code size is assigned."""
    import sm
    c = ctx.crate(cfg)
    E = ctx.effects(cfg)
    f = c.fn("deflate::core::HuffmanOxide::enforce_max_code_size")
    ctx.touched(f)
    rows = paths.Evaluator(c, effects=E, pure_calls=sm.PURE, max_paths=3000).run(f)
    ARR, N, LIM = P(1), P(2), P(3)

    def merge_store(x):
        """store (*num_codes)[limit] = (*num_codes)[limit] + sum(num_codes[limit+1..])"""
        sums = {}
        idx_from = {}
        for e in x.effects:
            if e[0] != "call":
                continue
            if "Index" in e[1] and e[1].endswith("::index") and len(e[2]) == 2 and e[2][1][0] == "agg" and e[2][1][1].endswith("RangeFrom"):
                lo = e[2][1][4][0]
                if lo == ("bin", "Add", LIM, ("int", 1)) or (lo[0] == "bin" and lo[1] == "Add" and lo[2] == LIM and is_const(lo[3]) and const_val(lo[3]) == 1):
                    idx_from[call_res(e)] = True
            if e[1].endswith("Iterator::sum"):
                sums[call_res(e)] = e
        for e in x.stores():
            if e[1] == ("idx", ("deref", ARR), LIM):
                parts = sum_parts(e[2])
                has_self = any(p[0] == "load" and p[1] == e[1] for p in parts)
                has_sum = any(p in sums and paths.term_contains(p, lambda y: y in idx_from) for p in parts)
                if has_self and has_sum and len(parts) == 2:
                    return True
        return False

    n_exit = 0
    for x in rows:
        if x.outcome[0] == "diverge":
            continue
        n_exit += 1
        few = x.facts.decide_cmp("Le", N, ("int", 1)) == 1
        if few:
            r.ok(f.name, "merge/skipped-single", "returns untouched only when there is at most one symbol")
        elif merge_store(x):
            r.ok(f.name, "merge/%s" % x.outcome[0], "counts of codes longer than the limit are merged into the limit bucket")
        else:
            r.fail(f.name, "merge/%s" % x.outcome[0], "enforce_max_code_size can finish without merging the counts of all codes longer than "
                   "the limit into num_codes[limit] although more than one symbol is in use: symbols whose optimal code is longer than the "
                   "limit would keep code size 0 (incomplete code set, literals emitted with zero bits)", where=first_span(x), path=row_path(x))
    if n_exit < 4:
        r.fail(f.name, "merge/rows", "expected at least 4 non-panicking rows of enforce_max_code_size, found %d" % n_exit)
    # (b) rebalancing step
    steps = 0
    for x in rows:
        if x.outcome[0] != "backedge":
            continue
        deltas = []
        for e in x.stores():
            if e[1][0] == "idx" and e[1][1] == ("deref", ARR):
                deltas.append(e)
        # the last stores of the row after the merge: limit -= 1 ; i -= 1 ; i+1 += 2
        tail = deltas[1:] if deltas and merge_store(x) else deltas
        if len(tail) < 3:
            continue
        steps += 1
        def delta(e):
            v = e[2]
            if v[0] == "bin" and v[1] in ("Add", "Sub") and is_const(v[3]):
                return e[1][2], (const_val(v[3]) if v[1] == "Add" else -const_val(v[3])), v[2]
            return e[1][2], None, None
        d = [delta(e) for e in tail[-3:]]
        ok = d[0][0] == LIM and d[0][1] == -1 and d[1][1] == -1 and d[2][1] == 2 and \
            d[2][0] == ("bin", "Add", d[1][0], ("int", 1)) or (d[2][0][0] == "bin" and d[2][0][1] == "Add" and d[2][0][2] == d[1][0] and is_const(d[2][0][3]) and const_val(d[2][0][3]) == 1
                                                               and d[0][0] == LIM and d[0][1] == -1 and d[1][1] == -1 and d[2][1] == 2)
        # the exchanged code is non-empty and shorter than the limit
        nz = any(a[0] == "bin" and a[1] == "Ne" and a[2][0] == "load" and a[2][1] == ("idx", ("deref", ARR), d[1][0]) and is_const(a[3]) and const_val(a[3]) == 0
                 and s.single() == 1 for a, s in x.atoms)
        if ok and nz:
            r.ok(f.name, "rebalance-step", "num_codes[limit] -= 1; num_codes[i] -= 1 (non-zero, i < limit); num_codes[i+1] += 2: symbol count "
                 "unchanged, Kraft sum falls by one unit of 2^-limit")
        else:
            r.fail(f.name, "rebalance-step", "the rebalancing step is not the symbol-count-neutral exchange (-1 at limit, -1 at i, +2 at i+1 with "
                   "num_codes[i] != 0): deltas %s" % [(tstr(a), b) for a, b, _ in d], where=first_span(x), path=row_path(x))
    if steps < 1:
        r.fail(f.name, "rebalance-rows", "the rebalancing step of enforce_max_code_size was not found")
    # (c) optimize_table applies it before assigning sizes
    g = c.fn("deflate::core::HuffmanOxide::optimize_table")
    ctx.touched(g)
    sites = call_sites(g, "HuffmanOxide::enforce_max_code_size")
    if len(sites) != 1:
        r.fail(g.name, "limit-applied", "optimize_table calls enforce_max_code_size %d times (expected once, in the non-static branch)" % len(sites))
    else:
        bb, t = sites[0]
        lim = local_expr(c, g, bb, t["args"][2])
        okarg = lim == ("var", "code_size_limit")
        st = stores_to(E, g, "HuffmanOxide", "code_sizes")
        fills = [b for b, tt in call_sites(g, "::fill")]
        undominated = [b for b, i, s in st if not g.dominates(bb, b)]
        if okarg and st and not undominated:
            r.ok(g.name, "limit-applied", "the limit passed is code_size_limit and the call dominates all %d code-size assignments" % len(st))
        else:
            r.fail(g.name, "limit-applied", "enforce_max_code_size(limit=%s) does not dominate every assignment to code_sizes (%d stores, %d not dominated)"
                   % (tstr(lim), len(st), len(undominated)), where=t.get("sp"))


def rule_flags_probes(ctx, cfg, r):
    """The probe budget of the match finder (DictOxide.max_probes) is what makes Huffman-only emit no matches and what the level
    promises; it is derived from the flags.  It must therefore change exactly when ParamsOxide.flags changes, to the same flags:
    the two update_flags calls are paired on every path, and constructors build both from one flags value."""
    c = ctx.crate(cfg)
    E = ctx.effects(cfg)
    PU, DU = "ParamsOxide::update_flags", "DictOxide::update_flags"
    PN, DN = "ParamsOxide::new", "DictOxide::new"
    cl = callers_of(c, PU, DU)
    n = 0
    for fname in sorted(cl):
        f = c.fn(fname)
        ctx.touched(f)
        for x in paths.Evaluator(c, effects=E, max_paths=3000).run(f):
            if x.outcome[0] != "return":
                continue
            pa = [e[2][1] for e in calls_named(x, PU)]
            da = [e[2][1] for e in calls_named(x, DU)]
            n += 1
            if pa == da:
                r.ok(f.name, "flags-probes/paired", "params.update_flags / dict.update_flags called together with the same flags" if pa else None)
            else:
                r.fail(f.name, "flags-probes/paired", "%s can return having updated %s but not %s with the same flags (params: %s, dict: %s): the probe "
                       "budget no longer matches the flags in force" % (fname.split("::")[-1], "the probe table" if len(da) > len(pa) else "the flags",
                                                                       "the flags" if len(da) > len(pa) else "the probe table",
                                                                       [tstr(a)[:50] for a in pa], [tstr(a)[:50] for a in da]),
                       where=first_span(x), path=row_path(x, 6))
    if n < 2:
        r.fail("deflate::core::CompressorOxide::set_format_and_level", "flags-probes/rows", "no caller of the update_flags pair was found")
    cn = callers_of(c, PN, DN)
    k = 0
    for fname in sorted(cn):
        f = c.fn(fname)
        for x in paths.Evaluator(c, effects=E, max_paths=3000).run(f):
            if x.outcome[0] != "return":
                continue
            pa = [e[2][0] for e in calls_named(x, PN)]
            da = [e[2][0] for e in calls_named(x, DN)]
            if not pa and not da:
                continue
            k += 1
            if pa == da:
                r.ok(f.name, "flags-probes/ctor", "ParamsOxide::new and DictOxide::new receive the same flags")
            else:
                r.fail(f.name, "flags-probes/ctor", "%s builds params from flags %s but the dictionary from %s" %
                       (fname.split("::")[-1], [tstr(a)[:50] for a in pa], [tstr(a)[:50] for a in da]), where=first_span(x))
    if k < 2:
        r.fail("deflate::core::CompressorOxide::new", "flags-probes/ctor-rows", "constructors pairing ParamsOxide::new / DictOxide::new not found")
    # single writers
    for of, field, allowed in (("DictOxide", "max_probes", ("DictOxide::update_flags", "DictOxide::new")),
                               ("ParamsOxide", "flags", ("ParamsOxide::update_flags", "ParamsOxide::new"))):
        adt = c.adt("deflate::core::" + of)["path"]
        direct = []
        for g in c.fns.values():
            if g.kind == "promoted":
                continue
            if stores_to(E, g, of, field) or any("agg" in s.get("a", [None, {}])[1] and s["a"][1]["agg"].get("kind") == "adt" and
                                                  s["a"][1]["agg"]["def"].endswith(of) for blk in g.blocks for s in blk["s"] if "a" in s):
                direct.append(g.name)
        # a field-wise Clone of the same type copies the pair together
        extra = [w for w in direct if not any(w.endswith(a) for a in allowed) and not (("::%s as core::clone::Clone>::clone" % of) in w)]
        if extra:
            r.fail(extra[0], "flags-probes/writer:" + field, "%s.%s is written outside %s: %s" % (of, field, list(allowed), extra[:4]))
        else:
            r.ok("<crate>", "flags-probes/writer:" + field, "%s.%s is written only by %s" % (of, field, list(allowed)))


def run(ctx):
    cfg = "H1"
    r1 = ctx.rule("R10.1", "encoder tables = RFC 1951; symbols counted are the symbols emitted; fixed-block lengths", floor=3, config=cfg)
    tables.rule_encoder_tables(ctx, cfg, r1)
    r2 = ctx.rule("R10.2", "routing: level 0 / raw -> stored blocks only, one routine per configuration", floor=2, config=cfg)
    r3 = ctx.rule("R10.3", "strategy is honoured: fixed -> no dynamic blocks, Huffman-only -> no matches, RLE -> distance 1 only, filtered -> no match <= 5", floor=5, config=cfg)
    rule_routing(ctx, cfg, r2, r3)
    r4 = ctx.rule("R10.4", "structural limits: code-length limits 15/15/7, header field widths, stored LEN/NLEN, BFINAL", floor=5, config=cfg)
    rule_limits(ctx, cfg, r4)
    from rules import tables as _tables
    r10 = ctx.rule("R10.10", "a fixed block rewrites the RFC 1951 lengths and rebuilds both code tables on every path (nothing cached across blocks)", floor=1, config=cfg)
    _tables.rule_fixed_tables_every_block(ctx, cfg, r10)
    from rules import lzbuf as _lzbuf
    rcap = ctx.rule("R10.11", "LZ token buffer capacity: the bytes one loop iteration may append never exceed the margin of its fullness test", floor=4, config=cfg)
    _lzbuf.rule_token_buffer_capacity(ctx, cfg, rcap)
    r6 = ctx.rule("R10.6", "length limiting: over-long codes always merged into the limit bucket, Kraft-neutral rebalancing step, applied before sizes are assigned", floor=6, config=cfg)
    rule_length_limit(ctx, cfg, r6)
    r7 = ctx.rule("R10.7", "distances never reach before the start: every admitted match distance is at most dict.size", floor=3, config=cfg)
    dp.rule_history_bound(ctx, cfg, r7)
    r8 = ctx.rule("R10.8", "the probe budget follows the flags: update_flags pairs and constructors use one flags value; single writers", floor=6, config=cfg)
    rule_flags_probes(ctx, cfg, r8)
    from rules import bitacc
    r9 = ctx.rule("R10.9", "bit accumulator of compress_lz_codes: the bits appended between two flushes, plus what a flush leaves behind, fit its width", floor=6, config=cfg)
    bitacc.rule_accumulator(ctx, cfg, r9)
    r5 = ctx.rule("R10.5", "exactly one final block: in-loop blocks use flush None; the final block carries the requested flush", floor=4, config=cfg)
    from rules import c02
    c02.rule_result_discipline(ctx, cfg, r5)
    dp.rule_final_block(ctx, cfg, ctx.rule("R10.5b", "final flush_block gating / finished only after success", floor=4, config=cfg), r_one_final=r5)
