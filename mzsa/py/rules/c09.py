"""C09 — zlib framing produced correctly and verified on decode."""
import os
import sys
import paths
import slices
import writeback
from mir import callee_name
from terms import ISet, tstr, pstr, is_const, const_val
from rules.util import *
from rules import inflate_core as ic
from rules import deflate_cfg as dc
from rules import c12

sys.path.insert(0, os.path.join(os.path.dirname(os.path.dirname(os.path.dirname(os.path.abspath(__file__)))), "tables"))
import rfc  # noqa: E402


def rule_header_values(ctx, cfg, r):
    c = ctx.crate(cfg)
    t = dc.tables(ctx, cfg)
    ZL = c.const_int("deflate_flags::TDEFL_WRITE_ZLIB_HEADER")
    n = 0
    bad = 0
    seen = set()
    for cf in dc.space(ctx, cfg):
        n += 1
        if cf["panic"]:
            r.fail("deflate::core::CompressorOxide::with_params", "panic", "with_params can panic for %s" % cf)
            bad += 1
            continue
        if not cf["flags"] & ZL:
            continue
        st, hv = t["header"].eval(cf["flags"], cf["wbmax"])
        if st != "ok":
            r.fail("deflate::zlib::header_from_flags", "panic", "header_from_flags can panic for %s" % cf)
            bad += 1
            continue
        cmf, flg = hv
        seen.add((cmf, flg))
        if not rfc.zlib_header_ok(cmf, flg):
            bad += 1
            if bad < 4:
                r.fail("deflate::zlib::header_from_flags", "rfc1950", "configuration %s/%d/%s/wb=%d yields header %02x %02x which is "
                       "invalid per RFC 1950" % (cf["fmt"], cf["level"], cf["strategy"], cf["wb"], cmf, flg))
    # CompressorOxide::new(any flags): header depends on flags only via level class; window 15
    for probes in (0, 1, 2, 767, 768, 4095):
        for g in (0, 0x4000):
            for rl in (0, 0x10000):
                flags = probes | g | rl | ZL
                st, nv = t["new"].eval(flags)
                st2, hv = t["header"].eval(nv[0], nv[1])
                n += 1
                if st2 != "ok" or not rfc.zlib_header_ok(*hv):
                    bad += 1
                    r.fail("deflate::zlib::header_from_flags", "rfc1950-new", "CompressorOxide::new(%#x) yields an invalid header %s" % (flags, hv))
    if not bad:
        r.ok("deflate::zlib::header_from_flags", "rfc1950", "%d configurations; %d distinct headers, all CM=8, CINFO<=7, FDICT=0, multiple of 31: %s"
             % (n, len(seen), sorted("%02x%02x" % h for h in seen)[:12]))
    ctx.extra["configurations_evaluated"] = n
    # levels above 10 and window bits above 15 are clamped
    c10 = {}
    okc = True
    for fmt in discrs(c, "DataFormat").values():
        for sv in discrs(c, "deflate::core::CompressionStrategy").values():
            for wb in (8, 12, 15):
                base = t["with_params"].eval(fmt, 10, sv, wb)
                for lv in (11, 12, 100, 255):
                    if t["with_params"].eval(fmt, lv, sv, wb) != base:
                        okc = False
            for lv in (0, 1, 6, 10):
                base = t["with_params"].eval(fmt, lv, sv, 15)
                for wb in (16, 17, 100, 255):
                    if t["with_params"].eval(fmt, lv, sv, wb) != base:
                        okc = False
    if okc:
        r.ok("deflate::core::CompressorOxide::with_params", "clamps", "level > 10 behaves as 10, window_bits > 15 as 15")
    else:
        r.fail("deflate::core::CompressorOxide::with_params", "clamps", "level / window_bits clamping lost")


def rule_header_once(ctx, cfg, r):
    c = ctx.crate(cfg)
    E = ctx.effects(cfg)
    f = c.fn("deflate::core::flush_block")
    ZL = c.const_int("deflate_flags::TDEFL_WRITE_ZLIB_HEADER")
    sites = call_sites(f, "deflate::zlib::header_from_flags")
    if len(sites) != 1:
        r.fail(f.name, "header-site", "%d calls of header_from_flags in flush_block (expected 1)" % len(sites))
        return
    bb, t = sites[0]
    # every path that reaches the header emission has established (flags & WRITE_ZLIB_HEADER != 0) and block_index == 0 — decided on
    # the paths' canonical relations, so the test may be spelled in place, through a local or through a small helper
    ev0 = paths.Evaluator(c, effects=E, stop_blocks=[bb], max_paths=4000)
    hdr_rows = [x for x in ev0.run(f) if x.outcome == ("stop", bb)]
    bad = None
    for x in hdr_rows:
        zl = any(v == 1 and k[1] == ZL and paths.is_load_of(k[0], "flags", "ParamsOxide") for k, v in mask_tests(x).items())
        first = any(rel == "Eq" and paths.is_load_of(lhs, "block_index", "ParamsOxide") and is_const(rhs) and const_val(rhs) == 0
                    for lhs, rel, rhs in rels(x))
        if not (zl and first):
            bad = x
    if hdr_rows and bad is None:
        r.ok(f.name, "header-guard", "header emitted only under flags & WRITE_ZLIB_HEADER ∧ block_index == 0", t.get("sp"))
    else:
        r.fail(f.name, "header-guard", "zlib header emission is not guarded by (zlib flag ∧ block_index == 0): %s"
               % (bad.describe(8) if bad is not None else "no path reaches it"), t.get("sp"))
    # arguments: (params.flags, params.window_bits_max); both bytes emitted, 8 bits each, before any other output
    a0 = writeback.loaded_loc(E, f, t["args"][0])
    a1 = writeback.loaded_loc(E, f, t["args"][1])
    if a0 and a0[1] == "flags" and a1 and a1[1] == "window_bits_max":
        r.ok(f.name, "header-args", "header_from_flags(params.flags, params.window_bits_max)")
    else:
        r.fail(f.name, "header-args", "header is not computed from (params.flags, params.window_bits_max): %s %s" % (a0, a1))
    ev = paths.Evaluator(c, effects=E, max_blocks=16)
    rows = ev.run(f, start_bb=bb)
    okb = False
    for x in rows:
        pb = [e for e in x.effects if e[0] == "call" and e[1].split("::")[-1] in ("put_bits", "put_bits_no_flush")]
        if len(pb) >= 2:
            hdr = ("call", "deflate::zlib::header_from_flags")
            v0, v1 = pb[0][2][1], pb[1][2][1]
            def elem(v, i):
                return paths.term_contains(v, lambda y: y[0] in ("load", "field") and paths.term_contains(y, lambda z: z[0] == "call" and z[1].endswith("header_from_flags"))) \
                    or paths.term_contains(v, lambda z: z[0] == "call" and z[1].endswith("header_from_flags"))
            okb = elem(v0, 0) and elem(v1, 1) and const_val(pb[0][2][2]) == 8 and const_val(pb[1][2][2]) == 8
    if okb:
        r.ok(f.name, "header-bytes", "both header bytes written with 8 bits each")
    else:
        r.fail(f.name, "header-bytes", "the two header bytes are not both emitted as 8-bit fields right after being computed")
    # block_index += 1 dominates the Ok return
    sts = stores_to(E, f, "ParamsOxide", "block_index")
    okret = [b for b, blk in enumerate(f.blocks) for s in blk["s"]
             if "a" in s and s["a"][0]["l"] == 0 and not s["a"][0]["p"] and "agg" in s["a"][1] and s["a"][1]["agg"].get("variant") == "Ok"]
    inc = [b for b, i, s in sts if "bin" in s["a"][1] and s["a"][1]["bin"][0] == "Add"]
    if inc and okret and all(any(f.dominates(b, rb) for b in inc) for rb in okret):
        r.ok(f.name, "block_index", "block_index += 1 on every path to the Ok return (header cannot be emitted twice)")
    else:
        r.fail(f.name, "block_index", "block_index is not incremented on every successful flush_block: a second header could be emitted")


def placename(fn, t):
    return t[2] if t and t[0] == "place" else ""


def rule_trailer(ctx, cfg, r):
    c = ctx.crate(cfg)
    f, rows, join = c12.marker_rows(ctx, cfg)
    FIN = discr(c, "TDEFLFlush", "Finish")
    ZL = c.const_int("deflate_flags::TDEFL_WRITE_ZLIB_HEADER")
    heads = set()
    heads_b = set()
    nfin = 0
    for row in rows or []:
        if vs(row, ("discr", P(3))).single() != FIN:
            continue
        nfin += 1
        calls = [e for e in row.effects if e[0] == "call"]
        names = [e[1].split("::")[-1] for e in calls]
        if not names or names[0] != "pad_to_bytes":
            r.fail(f.name, "trailer-pad", "Finish does not start by padding to a byte boundary: %s" % names)
            continue
        zl = None
        for a, s in row.atoms:
            if a[0] == "bin" and a[1] == "Ne" and a[2][0] == "bin" and a[2][1] == "BitAnd" and is_const(a[2][3]) and const_val(a[2][3]) == ZL:
                zl = s.single()
        pb = [e for e in calls if e[1].endswith("put_bits")]
        if zl == 0:
            if pb:
                r.fail(f.name, "trailer-raw", "raw format emits bits after the final block: %s" % [tstr(e[2][1]) for e in pb])
            else:
                r.ok(f.name, "trailer-raw", "raw: nothing after the final block")
        elif zl == 1:
            rng = [e for e in calls if e[1].endswith("into_iter") and e[2][0][0] == "agg" and e[2][0][1].endswith("ops::range::Range")]
            # second idiom: iterate over the big-endian bytes of the checksum (`adler32.to_be_bytes()`)
            def be_bytes(t):
                for st in paths.subterms(t):
                    if st and st[0] == "array" and len(st[1]) == 4:
                        els = [q[1] if q[0] == "cast" else q for q in st[1]]
                        ok4 = paths.is_load_of(els[3], "adler32", "ParamsOxide")
                        for k, sh in ((0, 24), (1, 16), (2, 8)):
                            ok4 = ok4 and els[k][0] == "bin" and els[k][1] == "Shr" and is_const(els[k][3]) and const_val(els[k][3]) == sh and \
                                paths.is_load_of(els[k][2], "adler32", "ParamsOxide")
                        if ok4:
                            return True
                return False
            def arg_val(a):
                # `(&local).iter()`: look at what the local holds on this path
                if a and a[0] == "ref" and isinstance(a[1], tuple) and a[1] and a[1][0] == "local":
                    return row.store.get(a[1], a)
                return a
            arr = [e for e in calls if e[1].endswith(("::iter", "into_iter")) and any(be_bytes(arg_val(a)) for a in e[2])]
            if arr:
                if row.outcome[0] == "backedge":
                    heads_b.add(row.outcome[1])
                    e = pb[0] if pb else None
                    okv = e is not None and len(pb) == 1 and is_const(e[2][2]) and const_val(e[2][2]) == 8 and \
                        paths.term_contains(e[2][1], lambda y: y[0] == "call" and y[1].endswith("::next"))
                    if okv:
                        r.ok(f.name, "trailer-first", "trailer bytes = params.adler32.to_be_bytes(), one 8-bit field per byte")
                    else:
                        r.fail(f.name, "trailer-first", "the loop over the big-endian checksum bytes does not emit each byte as one 8-bit field")
                else:
                    r.ok(f.name, "trailer-exit", None)
                continue
            if not rng or [const_val(q) for q in rng[0][2][0][4]] != [0, 4]:
                r.fail(f.name, "trailer-count", "the trailer loop does not run over 0..4 (nor over the big-endian bytes of the checksum)")
                continue
            if row.outcome[0] == "backedge":
                heads.add(row.outcome[1])
                e = pb[0] if pb else None
                v = e[2][1] if e else None
                # ((adler32 >> 24) & 0xFF), 8 bits ; first byte is the most significant one
                okv = v is not None and v[0] == "bin" and v[1] == "BitAnd" and const_val(v[3]) == 255 and v[2][0] == "bin" and v[2][1] == "Shr" and \
                    const_val(v[2][3]) == 24 and paths.is_load_of(v[2][2], "adler32", "ParamsOxide") and const_val(e[2][2]) == 8
                if okv:
                    r.ok(f.name, "trailer-first", "first trailer byte = (params.adler32 >> 24) & 0xFF")
                else:
                    r.fail(f.name, "trailer-first", "first trailer byte is not the most significant byte of params.adler32: %s" % (tstr(v) if v else None))
            else:
                r.ok(f.name, "trailer-exit", None)
        else:
            r.fail(f.name, "trailer-undecided", "Finish path does not test the zlib flag")
    if not nfin:
        r.fail(f.name, "finish-arm", "no Finish rows in the flush dispatch")
        return
    for h in heads_b:
        ev = paths.Evaluator(c, effects=ctx.effects(cfg), stop_blocks=[join] if join is not None else [])
        for x in ev.run(f, start_bb=h):
            pb = [e for e in x.effects if e[0] == "call" and e[1].endswith("put_bits")]
            if x.outcome[0] == "backedge":
                good = len(pb) == 1 and is_const(pb[0][2][2]) and const_val(pb[0][2][2]) == 8 and \
                    paths.term_contains(pb[0][2][1], lambda y: y[0] == "call" and y[1].endswith("::next"))
                r.ok(f.name, "trailer-iter", "each iteration emits the next checksum byte as an 8-bit field") if good else \
                    r.fail(f.name, "trailer-iter", "a trailer iteration does not emit exactly the next checksum byte (8 bits)")
            elif pb:
                r.fail(f.name, "trailer-after", "bits are emitted after the 4 trailer bytes: %s" % [tstr(e[2][1]) for e in pb])
    # generic iteration: put_bits((a >> 24) & 0xFF, 8); a <<= 8
    for h in heads:
        ev = paths.Evaluator(c, effects=ctx.effects(cfg), stop_blocks=[join] if join is not None else [])
        for x in ev.run(f, start_bb=h):
            pb = [e for e in x.effects if e[0] == "call" and e[1].endswith("put_bits")]
            if x.outcome[0] == "backedge":
                if len(pb) != 1:
                    r.fail(f.name, "trailer-iter", "a trailer iteration emits %d fields" % len(pb))
                    continue
                v = pb[0][2][1]
                okk = v[0] == "bin" and v[1] == "BitAnd" and const_val(v[3]) == 255 and v[2][0] == "bin" and v[2][1] == "Shr" and const_val(v[2][3]) == 24
                a = v[2][2] if okk else None
                shifted = [val for k, val in x.store.items() if isinstance(k, tuple) and k and k[0] == "local" and
                           isinstance(val, tuple) and val[0] == "bin" and val[1] == "Shl" and val[2] == a and const_val(val[3]) == 8]
                if okk and shifted and const_val(pb[0][2][2]) == 8:
                    r.ok(f.name, "trailer-iter", "each iteration: put_bits((a >> 24) & 0xFF, 8); a <<= 8  (big-endian)")
                else:
                    r.fail(f.name, "trailer-iter", "trailer bytes are not shifted out most-significant first: %s" % tstr(v))
            elif pb:
                r.fail(f.name, "trailer-after", "bits are emitted after the 4 trailer bytes: %s" % [tstr(e[2][1]) for e in pb])


def rule_adler_running(ctx, cfg, r):
    """R16.2 compressor half: params.adler32 has one data-path writer, fed with exactly the consumed input."""
    c = ctx.crate(cfg)
    E = ctx.effects(cfg)
    from rules import deflate_proto as dp
    f, rows = dp.inner_rows(ctx, cfg)
    ZL = c.const_int("deflate_flags::TDEFL_WRITE_ZLIB_HEADER")
    CA = c.const_int("deflate_flags::TDEFL_COMPUTE_ADLER32")
    loc = (c.adt("deflate::core::ParamsOxide")["path"], "adler32")
    writers = [w for w in E.writers(loc)]
    names = sorted({c.fns[w].name for w in writers if w in c.fns})
    allowed = {"deflate::core::compress_inner", "deflate::core::ParamsOxide::reset", "deflate::core::ParamsOxide::new",
               "deflate::core::CompressorOxide::reset", "deflate::core::compress", "deflate::core::compress_to_output",
               "deflate::stream::deflate", "deflate::compress_to_vec_inner", "deflate::core::CompressorOxide::new",
               "deflate::core::CompressorOxide::with_params", "<deflate::core::CompressorOxide as core::default::Default>::default"}
    extra = [n for n in names if n not in allowed and "Clone" not in n and not n.startswith("deflate::compress_to_vec")
             and not n.startswith("deflate::core::CompressorOxide::")]
    extra = [n for n in extra if not helper_only_called_from(c, n, allowed)]
    if extra:
        r.fail("<crate>", "adler-writers", "params.adler32 may be written by unexpected functions: %s" % extra)
    else:
        r.ok("<crate>", "adler-writers", "writers of params.adler32: %s" % names)
    n = 0
    for row in rows:
        if row.outcome[0] != "return":
            continue
        work = calls_named(row, *dp.COMPRESS_ROUTINES)
        upd = calls_named(row, "shared::update_adler32")
        succ = [e for e in work if vs(row, call_res(e)).single() == 1]
        flagbit = None
        for lhs, rel, rhs in rels(row):
            # `flags & (ZLIB | ADLER) != 0` however it is tested (`!= 0`, early return on `== 0`, …)
            if rel in ("Ne", "Eq") and lhs[0] == "bin" and lhs[1] == "BitAnd" and is_const(lhs[3]) and const_val(lhs[3]) == (ZL | CA) and \
                    is_const(rhs) and const_val(rhs) == 0:
                flagbit = 1 if rel == "Ne" else 0
        some = any(a[0] == "discr" and paths.is_load_of(a[1], "in_buf", "CallbackOxide") and s.single() == 1 for a, s in row.atoms)
        if upd:
            n += 1
            e = upd[0]
            reg = slices.region(e[2][1], store=row.store)
            okk = paths.is_load_of(e[2][0], "adler32", "ParamsOxide") and reg is not None and reg.off == (0, {}) and \
                paths.term_contains(reg.root, lambda y: y[0] == "fld" and y[2] == "in_buf") and reg.length[0] == 0 and len(reg.length[1]) == 1 and \
                all(co == 1 and paths.is_load_of(q, "src_pos", "ParamsOxide") and q[2] != 0 for q, co in reg.length[1].items())
            st = store_to_field(row, "adler32", "ParamsOxide")
            okk = okk and st and st[-1][2] == call_res(e) and succ and flagbit == 1
            if okk:
                r.ok(f.name, "adler-update", "adler32 = update_adler32(adler32, &in_buf[..src_pos]) after a successful compress routine")
            else:
                r.fail(f.name, "adler-update", "running Adler-32 is not updated with exactly in_buf[..params.src_pos]: %s" % [tstr(q) for q in e[2]])
        elif succ and flagbit == 1 and some:
            r.fail(f.name, "adler-missing", "a successful compress call under the zlib/compute flag does not update the checksum: %s" % row.describe(12))
    if n == 0:
        r.fail(f.name, "adler-update", "no path of compress_inner updates params.adler32")


def rule_adler_restart(ctx, cfg, r):
    """R09.9: a compressor that is reset starts its next stream's checksum at 1: params.adler32 is assigned MZ_ADLER32_INIT on every path
    of CompressorOxide::reset (whatever the flags), and by the constructors."""
    c = ctx.crate(cfg)
    E = ctx.effects(cfg)
    INIT = c.const_int("MZ_ADLER32_INIT")
    loc = (c.adt("deflate::core::ParamsOxide")["path"], "adler32")
    rs = c.fn("deflate::core::CompressorOxide::reset")
    ctx.touched(rs)
    if loc in set(E.lookup(rs.id)["MW"]):
        r.ok(rs.name, "adler-restart/must", "params.adler32 is assigned on every path of CompressorOxide::reset")
    else:
        r.fail(rs.name, "adler-restart/must", "CompressorOxide::reset can return without re-initialising params.adler32: the next stream's zlib trailer "
               "would continue the previous stream's checksum")
    pr = c.fn("deflate::core::ParamsOxide::reset")
    okv = True
    n = 0
    for x in paths.Evaluator(c, effects=E).run(pr):
        for e in store_to_field(x, "adler32", "ParamsOxide"):
            n += 1
            if not (is_const(e[2]) and const_val(e[2]) == INIT):
                okv = False
    if okv and n:
        r.ok(pr.name, "adler-restart/value", "reset assigns MZ_ADLER32_INIT")
    else:
        r.fail(pr.name, "adler-restart/value", "ParamsOxide::reset does not assign MZ_ADLER32_INIT to adler32 (stores seen: %d)" % n)


def run(ctx):
    cfg = "H1"
    r1 = ctx.rule("R09.1", "every reachable compressor configuration yields an RFC 1950 valid header", floor=2, config=cfg)
    rule_header_values(ctx, cfg, r1)
    r2 = ctx.rule("R09.2", "header written once: only under the zlib flag at block_index 0, and block_index always advances", floor=4, config=cfg)
    rule_header_once(ctx, cfg, r2)
    r3 = ctx.rule("R09.3", "trailer: after padding, exactly four 8-bit fields, most significant byte of params.adler32 first", floor=3, config=cfg)
    rule_trailer(ctx, cfg, r3)
    r6 = ctx.rule("R09.8", "running Adler-32 of the compressor covers exactly the consumed input", floor=2, config=cfg)
    rule_adler_running(ctx, cfg, r6)
    r9 = ctx.rule("R09.9", "a reset compressor starts the next stream's Adler-32 at 1 on every path, whatever the flags", floor=2, config=cfg)
    rule_adler_restart(ctx, cfg, r9)
    r4 = ctx.rule("R09.4", "decoder epilogue: Done in zlib mode only if the trailer equals the Adler-32 of the output; otherwise Adler32Mismatch", floor=4, config=cfg)
    ic.rule_adler_epilogue(ctx, cfg, r4)
    r7 = ctx.rule("R09.7", "decoder trailer read: four bytes, counted across calls, shifted in most-significant first", floor=4, config=cfg)
    ic.rule_counted_bytes(ctx, cfg, r7)
    r5 = ctx.rule("R09.5", "validate_zlib_header = RFC 1950 on all header pairs", floor=2, config=cfg)
    ic.rule_zlib_header(ctx, cfg, r5)
