"""Helpers shared by the rule modules."""
from terms import ISet, tstr, pstr, is_const, const_val
import paths


def discr(crate, adt_suffix, variant):
    a = crate.adt(adt_suffix)
    for v in a["variants"]:
        if v["name"] == variant:
            return int(v["discr"])
    from facts import AnalysisError
    raise AnalysisError("variant %s::%s not found" % (adt_suffix, variant))


def discrs(crate, adt_suffix):
    a = crate.adt(adt_suffix)
    return {v["name"]: int(v["discr"]) for v in a["variants"]}


def enum_term(crate, adt_suffix, variant):
    a = crate.adt(adt_suffix)
    return ("enum", a["path"], variant, discr(crate, adt_suffix, variant))


def fld(crate, base_term, adt_suffix, field, epoch=0):
    """Term for the content of `(*base).field` (field of ADT `adt_suffix`) at `epoch`."""
    a = crate.adt(adt_suffix)
    return ("load", ("fld", ("deref", base_term), field, a["path"]), epoch)


def fld_place(crate, base_term, adt_suffix, field):
    a = crate.adt(adt_suffix)
    return ("fld", ("deref", base_term), field, a["path"])


def P(i):
    return ("param", i)


def vs(row, term):
    """value set of `term` on this row."""
    return row.facts.get(term)


def is_variant(row, term, d):
    return vs(row, term).single() == d


def excludes(row, term, d):
    return not vs(row, term).contains(d)


def ret_agg(row, adt_suffix=None):
    r = row.ret
    if r and r[0] == "agg" and (adt_suffix is None or r[1].endswith(adt_suffix)):
        return r
    return None


def result_variant(t):
    """('Ok'|'Err', payload) for a Result aggregate term."""
    if t and t[0] == "agg" and t[1].endswith("result::Result"):
        return t[2], (t[4][0] if t[4] else None)
    return None, None


def is_enum(t, variant):
    return bool(t) and t[0] == "enum" and t[2] == variant


def param_stores(row, param_terms=None):
    """stores whose root is not a local of the analysed function (i.e. reach caller-visible memory)."""
    out = []
    for e in row.stores():
        r = paths.root_of(e[1])
        if r[0] != "local":
            out.append(e)
    return out


def store_to_field(row, field, of_suffix=None):
    return [e for e in row.stores() if e[1][0] == "fld" and e[1][2] == field and
            (of_suffix is None or e[1][3].endswith(of_suffix))]


def calls_named(row, *suffixes):
    return [e for e in row.effects if e[0] == "call" and any(paths._sfx(e[1], s) for s in suffixes)]


def row_path(row, n=14):
    return row.describe(n)


def sum_parts(t):
    """flatten nested Add terms into a list of addends."""
    if t and t[0] == "bin" and t[1] == "Add":
        return sum_parts(t[2]) + sum_parts(t[3])
    return [t]


def first_span(row):
    for e in row.effects:
        if len(e) > 3 and e[3]:
            return e[3]
    return None


def or_parts(t):
    """flatten a boolean BitOr tree"""
    if t and t[0] == "bin" and t[1] == "BitOr":
        return or_parts(t[2]) + or_parts(t[3])
    return [t]
