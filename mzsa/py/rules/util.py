"""Helpers shared by the rule modules."""
from terms import ISet, tstr, pstr, is_const, const_val
import paths


def discr(crate, adt_suffix, variant):
    a = crate.adt(adt_suffix)
    for v in a["variants"]:
        if v["name"] == variant:
            return int(v["discr"])
    from facts import AnalysisError
    raise AnalysisError("variant %s::%s not found" % (adt_suffix, variant))


def discrs(crate, adt_suffix):
    a = crate.adt(adt_suffix)
    return {v["name"]: int(v["discr"]) for v in a["variants"]}


def enum_term(crate, adt_suffix, variant):
    a = crate.adt(adt_suffix)
    return ("enum", a["path"], variant, discr(crate, adt_suffix, variant))


def fld(crate, base_term, adt_suffix, field, epoch=0):
    """Term for the content of `(*base).field` (field of ADT `adt_suffix`) at `epoch`."""
    a = crate.adt(adt_suffix)
    return ("load", ("fld", ("deref", base_term), field, a["path"]), epoch)


def fld_place(crate, base_term, adt_suffix, field):
    a = crate.adt(adt_suffix)
    return ("fld", ("deref", base_term), field, a["path"])


def P(i):
    return ("param", i)


def vs(row, term):
    """value set of `term` on this row."""
    return row.facts.get(term)


def is_variant(row, term, d):
    return vs(row, term).single() == d


def excludes(row, term, d):
    return not vs(row, term).contains(d)


def ret_agg(row, adt_suffix=None):
    r = row.ret
    if r and r[0] == "agg" and (adt_suffix is None or r[1].endswith(adt_suffix)):
        return r
    return None


def result_variant(t):
    """('Ok'|'Err', payload) for a Result aggregate term."""
    if t and t[0] == "agg" and t[1].endswith("result::Result"):
        return t[2], (t[4][0] if t[4] else None)
    return None, None


def is_enum(t, variant):
    return bool(t) and t[0] == "enum" and t[2] == variant


def param_stores(row, param_terms=None):
    """stores whose root is not a local of the analysed function (i.e. reach caller-visible memory)."""
    out = []
    for e in row.stores():
        r = paths.root_of(e[1])
        if r[0] != "local":
            out.append(e)
    return out


def store_to_field(row, field, of_suffix=None):
    return [e for e in row.stores() if e[1][0] == "fld" and e[1][2] == field and
            (of_suffix is None or e[1][3].endswith(of_suffix))]


def calls_named(row, *suffixes):
    return [e for e in row.effects if e[0] == "call" and any(paths._sfx(e[1], s) for s in suffixes)]


def row_path(row, n=14):
    return row.describe(n)


def sum_parts(t):
    """flatten nested Add terms into a list of addends."""
    if t and t[0] == "bin" and t[1] == "Add":
        return sum_parts(t[2]) + sum_parts(t[3])
    return [t]


def first_span(row):
    for e in row.effects:
        if len(e) > 3 and e[3]:
            return e[3]
    return None


def or_parts(t):
    """flatten a boolean BitOr tree"""
    if t and t[0] == "bin" and t[1] == "BitOr":
        return or_parts(t[2]) + or_parts(t[3])
    return [t]


def path_load(crate, base_term, chain, epoch=0):
    """load of (*base).f1.f2…; chain = [(adt_suffix, field), …]"""
    pt = ("deref", base_term)
    for adt_suffix, field in chain:
        pt = ("fld", pt, field, crate.adt(adt_suffix)["path"])
    return ("load", pt, epoch)


def loads_of(row, field, of_suffix=None):
    """all load terms of `.field` that carry a constraint or appear in atoms of this row"""
    out = set()
    for t in list(row.facts.c.keys()) + [a for a, _ in row.atoms]:
        for st in paths.subterms(t):
            if st and st[0] == "load" and st[1][0] == "fld" and st[1][2] == field and \
                    (of_suffix is None or st[1][3].endswith(of_suffix)):
                out.add(st)
    return out


def agg_sites(crate, adt_suffix, variant, fn_filter=None):
    """[(fn, bb, span)] where a value `adt::variant` is constructed (aggregate or constant)."""
    out = []
    for f in crate.fns.values():
        if fn_filter and not fn_filter(f):
            continue
        for bb, blk in enumerate(f.blocks):
            for s in blk["s"]:
                if "a" not in s:
                    continue
                rv = s["a"][1]
                if "agg" in rv and rv["agg"].get("kind") == "adt" and rv["agg"]["def"].endswith(adt_suffix) and \
                        rv["agg"]["variant"] == variant:
                    out.append((f, bb, s.get("sp")))
                if "use" in rv and "k" in rv["use"]:
                    k = rv["use"]["k"]
                    if k.get("variant") == variant and k.get("ty", "").endswith(adt_suffix.split("::")[-1]):
                        out.append((f, bb, s.get("sp")))
    return out


def tuple_ops(t):
    if t and t[0] == "tuple":
        return t[1]
    return None


def call_res(e):
    """term denoting the result of call effect `e`"""
    return ("call", e[1], e[2], e[4])


def call_sites(fn, *suffixes):
    from mir import callee_name
    out = []
    for bb, t in fn.calls():
        n = callee_name(t["call"])
        if any(paths._sfx(n, s) for s in suffixes):
            out.append((bb, t))
    return out


def stores_to(E, fn, of_suffix, field):
    """[(bb, idx, stmt)] statements writing the whole field"""
    from mir import Place
    out = []
    for bb, blk in enumerate(fn.blocks):
        for i, s in enumerate(blk["s"]):
            if "a" in s and s["a"][0]["p"]:
                for c in E.classify(fn, Place(s["a"][0])):
                    if c[0] == "loc" and c[1].endswith(of_suffix) and c[2] == field:
                        out.append((bb, i, s))
    return out


def callers_of(crate, *suffixes):
    from mir import callee_name
    out = {}
    for f in crate.fns.values():
        if f.kind == "promoted":
            continue
        for bb, t in f.calls():
            n = callee_name(t["call"])
            if any(paths._sfx(n, s) for s in suffixes):
                out.setdefault(f.name, []).append((bb, t))
    return out


def loop_invariant_store(crate, fn, head, init_store=None, **evkw):
    """Values, at the first arrival at loop head `head`, of the locals of `fn` that are assigned nowhere at or after the head
    (i.e. computations hoisted out of the loop).  Returned as an `init_store` for an evaluation that starts at the head, so that
    `let x = f(arg); loop { use(x) }` is seen the same way as `loop { use(f(arg)) }`.  Only values that are identical on every
    path reaching the head and that mention nothing but parameters / constants / calls on them are kept."""
    import paths as _paths
    reach = fn.reachable(head)
    assigned = set()
    for b in reach:
        blk = fn.blocks[b]
        for s in blk["s"]:
            if "a" in s:
                assigned.add(s["a"][0]["l"])
                rv = s["a"][1]
                if "ref" in rv and rv.get("mut"):
                    assigned.add(rv["ref"]["l"])
                if "ptr" in rv:
                    assigned.add(rv["ptr"]["l"])
        t = blk["t"]
        if "call" in t and t.get("dest") is not None:
            assigned.add(t["dest"]["l"])
    ev = _paths.Evaluator(crate, stop_blocks=[head], **evkw)
    rows = [x for x in ev.run(fn, init_store=dict(init_store) if init_store else None) if x.outcome[0] == "stop" and x.outcome[1] == head]
    if not rows:
        return dict(init_store or {})
    out = dict(init_store or {})
    for k, v in rows[0].store.items():
        if not (isinstance(k, tuple) and k and k[0] == "local" and k[1] == 0):
            continue
        if k[2] in assigned or k[2] <= fn.argc:
            continue
        if all(x.store.get(k) == v for x in rows) and not _paths.term_contains(v, lambda y: y and y[0] in ("load", "unknown")):
            out[k] = v
    return out


def rels(row):
    """the row's comparison atoms as relations that HOLD on the row, in canonical form: (lhs, op, rhs) with op in Lt / Le / Eq / Ne —
    `while a < b`, `if a >= b { break }`, `if !(b > a) { break }` all give (a, 'Lt', b)"""
    out = []
    for a, s in row.atoms:
        if not (isinstance(a, tuple) and a and a[0] == "bin" and a[1] in ("Lt", "Le", "Gt", "Ge", "Eq", "Ne")):
            continue
        v = s.single()
        if v not in (0, 1):
            continue
        op, x, y = a[1], a[2], a[3]
        if op == "Gt":
            op, x, y = "Lt", y, x
        elif op == "Ge":
            op, x, y = "Le", y, x
        if op == "Lt":
            out.append((x, "Lt", y) if v else (y, "Le", x))
        elif op == "Le":
            out.append((x, "Le", y) if v else (y, "Lt", x))
        elif op == "Eq":
            out.append((x, "Eq", y) if v else (x, "Ne", y))
        else:
            out.append((x, "Ne", y) if v else (x, "Eq", y))
    return out


def helper_only_called_from(c, name, allowed, seen=()):
    """`name` is a function the reference tree does not have (paths.is_new_helper: loop-free, evaluated inline wherever a row passes
    through it, so its effects are judged in the context of its callers) and every caller is in `allowed` (a set of function names or
    a predicate) or is itself such a helper"""
    from mir import callee_id
    f = c.fn(name, required=False)
    if f is None or not paths.is_new_helper(f) or name in seen:
        return False
    ok_name = allowed if callable(allowed) else (lambda n: n in allowed)

    def owner(g):
        while g.kind == "closure" and g.parent in c.fns:
            g = c.fns[g.parent]
        return g
    callers = [owner(g) for g in c.fns.values() if g.kind != "promoted" and any(callee_id(t["call"]) == f.id for _, t in g.calls())]
    return bool(callers) and all(ok_name(g.name) or helper_only_called_from(c, g.name, allowed, seen + (name,)) for g in callers)


def mask_tests(row):
    """{mask: 0 | 1} for every `x & mask` (mask constant) the row decides to be zero (0) or non-zero (1), however it is tested:
    `!= 0`, `== 0` with the branches swapped, a `match` on the masked value, …; keyed by (operand term, mask)"""
    out = {}

    def masked(t):
        while isinstance(t, tuple) and t and t[0] == "cast":
            t = t[1]
        if isinstance(t, tuple) and t and t[0] == "bin" and t[1] == "BitAnd" and is_const(t[3]):
            return (t[2], const_val(t[3]))
        if isinstance(t, tuple) and t and t[0] == "bin" and t[1] == "BitAnd" and is_const(t[2]):
            return (t[3], const_val(t[2]))
        return None
    for lhs, rel, rhs in rels(row):
        k = masked(lhs)
        if k is not None and rel in ("Eq", "Ne") and is_const(rhs):
            rv = const_val(rhs)
            if rv == 0:
                out[k] = 0 if rel == "Eq" else 1
            elif rel == "Eq" and rv & k[1] == rv and rv != 0:
                out[k] = 1
    for a, s in row.atoms:
        k = masked(a)
        if k is not None:
            if s.single() == 0:
                out[k] = 0
            elif not s.contains(0):
                out[k] = 1
    return out


def _field_ty(c, of, name):
    for cr in ([c] if not isinstance(c, (list, tuple)) else c):
        a = cr.adts.get(of)
        if a:
            for v in a["variants"]:
                for f in v["fields"]:
                    if f["name"] == name:
                        return f["ty"]
    return None


def term_bounds(c, row, t, depth=0):
    """(lo, hi) of an integer term from the types in it (field types, cast targets, min/max) and the row's facts; None when unknown"""
    from terms import ty_range
    if depth > 20 or not isinstance(t, tuple) or not t:
        return None
    if is_const(t):
        return const_val(t), const_val(t)
    s = vs(row, t) if row is not None else None
    if s is not None and not s.is_all() and s.lo() is not None and s.hi() is not None and s.lo() != float("-inf") and s.hi() != float("inf"):
        # what the path knows about the term, tightened by what its structure implies (the facts may only carry the type's range)
        st_ = _struct_bounds(c, row, t, depth)
        if st_ is not None and st_[0] is not None:
            return max(s.lo(), st_[0]), min(s.hi(), st_[1])
        return s.lo(), s.hi()
    return _struct_bounds(c, row, t, depth)


def _struct_bounds(c, row, t, depth=0):
    from terms import ty_range
    if t[0] == "cast":
        tr = ty_range(t[2])
        b = term_bounds(c, row, t[1], depth + 1)
        if tr.is_all():
            return b
        if b is not None and b[0] >= tr.lo() and b[1] <= tr.hi():
            return b
        return tr.lo(), tr.hi()
    if t[0] == "load" and t[1][0] == "fld":
        ty = _field_ty(c, t[1][3], t[1][2])
        tr = ty_range(ty) if ty else None
        if tr is not None and not tr.is_all():
            return tr.lo(), tr.hi()
        return None
    if t[0] == "len":
        return 0, (1 << 63) - 1
    if t[0] == "pure" and t[1] in ("min", "max") and len(t[2]) == 2:
        a, b = term_bounds(c, row, t[2][0], depth + 1), term_bounds(c, row, t[2][1], depth + 1)
        if t[1] == "min":
            his = [q[1] for q in (a, b) if q is not None]
            los = [q[0] for q in (a, b) if q is not None]
            if not his:
                return None
            return (min(los) if len(los) == 2 else 0 if min(los) >= 0 else None) if True else None, min(his)
        if a is not None and b is not None:
            return max(a[0], b[0]), max(a[1], b[1])
        return None
    if t[0] == "bin" and len(t) > 4 and t[4]:
        tr = ty_range(t[4])
        if not tr.is_all():
            return tr.lo(), tr.hi()
    return None


def normcasts(c, row, t, depth=0):
    """`t` with every integer cast removed that cannot change the value on this row: widening casts, and narrowing casts whose operand is
    proved (types, min/max, facts) to fit the target type.  Two spellings of one quantity that differ only in the widths of their
    temporaries normalise to the same term."""
    from terms import ty_range
    if depth > 40 or not isinstance(t, tuple) or not t or not isinstance(t[0], str):
        return t
    if t[0] == "cast" and len(t) >= 3:
        inner = normcasts(c, row, t[1], depth + 1)
        tr = ty_range(t[2]) if isinstance(t[2], str) else None
        if tr is None or tr.is_all():
            return (t[0], inner) + tuple(t[2:])
        if len(t) > 3 and t[3] == "widen":
            b0 = term_bounds(c, row, t[1])
            if b0 is None or b0[0] is None or b0[0] >= 0 or tr.lo() < 0:
                return inner
        b = term_bounds(c, row, t[1])
        if b is not None and b[0] is not None and b[0] >= tr.lo() and b[1] <= tr.hi():
            return inner
        return (t[0], inner) + tuple(t[2:])
    if t[0] == "pure" and t[1] in ("min", "max"):
        args = tuple(normcasts(c, row, q, depth + 1) for q in t[2])
        if len(args) == 2 and repr(args[0]) > repr(args[1]):
            args = (args[1], args[0])
        return (t[0], t[1], args)
    out = []
    for q in t:
        if isinstance(q, tuple) and q and isinstance(q[0], str):
            out.append(normcasts(c, row, q, depth + 1))
        elif isinstance(q, tuple):
            out.append(tuple(normcasts(c, row, z, depth + 1) if isinstance(z, tuple) else z for z in q))
        else:
            out.append(q)
    t2 = tuple(out)
    # a binary operation keeps its declared type tag out of the comparison when its operands were only re-typed
    if t2[0] == "bin" and len(t2) > 4:
        t2 = t2[:4] + ("",)
    return t2


def resolve_minmax(row):
    """rewrite the row's atoms so that min(a, b) / max(a, b) whose order the path itself decides (a < b, a <= b, … among its relations) are
    replaced by the operand they equal — `max(s, o) - min(s, o)` under `o > s` is `o - s`"""
    order = set()
    for lhs, rel, rhs in rels(row):
        if rel in ("Lt", "Le"):
            order.add((lhs, rhs))           # lhs <= rhs

    def rw(t):
        if not isinstance(t, tuple) or not t:
            return t
        if isinstance(t[0], str) and t[0] == "pure" and t[1] in ("min", "max") and len(t[2]) == 2:
            a, b = rw(t[2][0]), rw(t[2][1])
            if (a, b) in order:
                return a if t[1] == "min" else b
            if (b, a) in order:
                return b if t[1] == "min" else a
            return (t[0], t[1], (a, b))
        return tuple(rw(q) if isinstance(q, tuple) else q for q in t)
    row.atoms = [(rw(a), s) for a, s in row.atoms]
    return row
