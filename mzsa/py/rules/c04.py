"""C04 — no success on an invalid stream; truncated prefixes are not rejected."""
from rules import inflate_core as ic


def run(ctx):
    cfgs = ["H1"] + (["T1", "H4"] if ctx.thorough() else [])
    for cfg in cfgs:
        sfx = "" if cfg == "H1" else "@" + cfg
        r1 = ctx.rule("R04.1" + sfx, "guard inventory: every format violation the decoder knows is rejected under the RFC 1951 constant, "
                      "fast and slow path alike", floor=14, config=cfg)
        ic.rule_guards(ctx, cfg, r1)
        r2 = ctx.rule("R04.2" + sfx, "failure states are absorbing and agree with is_failure(); Failed is sticky", floor=3, config=cfg)
        ic.rule_failure_absorbing(ctx, cfg, r2)
        r3 = ctx.rule("R04.3" + sfx, "Done has a single origin (DoneForever, reached only after the final block / the 4 trailer bytes)", floor=3, config=cfg)
        ic.rule_done_origin(ctx, cfg, r3)
        r4 = ctx.rule("R04.4" + sfx, "a truncated prefix yields NeedsMoreInput / FailedCannotMakeProgress only: end_of_input is their only origin "
                      "and is reached only with the input exhausted", floor=5, config=cfg)
        ic.rule_end_of_input(ctx, cfg, r4)
        r6 = ctx.rule("R04.6" + sfx, "too many symbols: code-length entries are counted exactly (literal +1, repeat code + its full run, "
                      "nothing clamped), so the counter == HLIT+HDIST test sees every overshoot", floor=5, config=cfg)
        ic.rule_repeat_run(ctx, cfg, r6)
        r7 = ctx.rule("R04.7" + sfx, "incomplete-code test: the per-length index of init_tree's counting loop is the code length", floor=1, config=cfg)
        ic.rule_codelen_index(ctx, cfg, r7)
        if cfg == "H1":
            r5 = ctx.rule("R04.5", "validate_zlib_header = RFC 1950 over all 2^16 (CMF, FLG) pairs x buffer modes", floor=2, config=cfg)
            ic.rule_zlib_header(ctx, cfg, r5)
