"""C03 — every valid stream decodes to its plaintext (tables / grammar / bit discipline only)."""
from rules import inflate_core as ic
from rules import tables
from rules import tokens
from rules import copyrt


def run(ctx):
    cfgs = ["H1"] + (["T1", "T0"] if ctx.thorough() else [])
    for cfg in cfgs:
        sfx = "" if cfg == "H1" else "@" + cfg
        r1 = ctx.rule("R03.1" + sfx, "decoder tables, code-length order, table-size bases/widths, repeat codes, fixed-block lengths = RFC 1951", floor=10, config=cfg)
        tables.rule_decoder_tables(ctx, cfg, r1)
        r2 = ctx.rule("R03.2" + sfx, "stored-block grammar: 4 header bytes collected through the counter; LEN == !NLEN", floor=3, config=cfg)
        ic.rule_counted_bytes(ctx, cfg, r2, arm="RawHeader", limit=4, acc_field=None)
        r3 = ctx.rule("R03.7" + sfx, "code-length run expansion: repeat codes fill exactly [counter, counter+run) with the previous length (16) "
                      "or zero (17/18) and advance the counter by the run", floor=5, config=cfg)
        ic.rule_repeat_run(ctx, cfg, r3, exact=False)
        r8 = ctx.rule("R03.8" + sfx, "Huffman tables are rebuilt from scratch: whole fast table overwritten, whole overflow tree zeroed (litlen / dist) before insertion", floor=12, config=cfg)
        ic.rule_tables_from_scratch(ctx, cfg, r8)
        r5 = ctx.rule("R03.5" + sfx, "token reconstruction: bits consumed as used; length = LENGTH_BASE[sym-257]+extra, distance = DIST_BASE[sym]+extra, "
                      "copy and literal writes — fast path and slow-path states", floor=20, config=cfg)
        tokens.rule_fast_tokens(ctx, cfg, r5)
        tokens.rule_slow_tokens(ctx, cfg, r5)
        r9 = ctx.rule("R03.9" + sfx, "match copy routines: out[pos+i] = out[(pos-dist+i) & mask] — offset pairing, constant displacement, guarded bulk shortcuts, "
                      "tail = len & 3, argument order", floor=10, config=cfg)
        copyrt.rule_copy_routines(ctx, cfg, r9)
        r10 = ctx.rule("R03.10" + sfx, "bit-buffer hygiene inside the state machine: a state that hands look-ahead bytes back masks bit_buf to the lowered "
                       "num_bits before decoding goes on", floor=1, config=cfg)
        ic.rule_handback_mask_arms(ctx, cfg, r10)
        r6 = ctx.rule("R03.6" + sfx, "slow-path Huffman walk reads only bits that are in the buffer", floor=2, config=cfg)
        ic.rule_bit_reads(ctx, cfg, r6)
