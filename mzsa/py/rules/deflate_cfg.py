"""Configuration space of the compressor (level x strategy x format x window bits) evaluated through the extracted
decision tables of the configuration functions (DESIGN §4.7 V1)."""
import configfn
from rules.util import *

_cache = {}


def tables(ctx, cfg):
    if cfg in _cache:
        return _cache[cfg]
    c = ctx.crate(cfg)

    def sel(ret):
        d = dict(zip(ret[3], ret[4]))
        p = d["params"]
        pd = dict(zip(p[3], p[4]))
        dd = d["dict"]
        out = [pd["flags"], pd["window_bits_max"], pd["greedy_parsing"]]
        if dd[0] == "agg":
            mp = dict(zip(dd[3], dd[4])).get("max_probes")
            if mp is not None and mp[0] == "array":
                out += list(mp[1])
        return out
    t = {
        "with_params": configfn.ConfigFn(c, "deflate::core::CompressorOxide::with_params", ["fmt", "level", "strategy", "wb"], select=sel),
        "new": configfn.ConfigFn(c, "deflate::core::CompressorOxide::new", ["flags"], select=sel),
        "flags": configfn.ConfigFn(c, "deflate::core::create_comp_flags_from_zip_params", ["level", "wb", "strategy"]),
        "header": configfn.ConfigFn(c, "deflate::zlib::header_from_flags", ["flags", "wb"]),
    }
    for k in t:
        ctx.touched(t[k].fn)
    _cache[cfg] = t
    return t


def space(ctx, cfg, levels=range(0, 11), wbs=range(0, 16)):
    """yield dict(fmt, level, strategy, wb, flags, wbmax, greedy, probes)"""
    c = ctx.crate(cfg)
    t = tables(ctx, cfg)
    DF = discrs(c, "DataFormat")
    CS = discrs(c, "deflate::core::CompressionStrategy")
    for fname, fv in DF.items():
        for lv in levels:
            for sname, sv in CS.items():
                for wb in wbs:
                    st, vals = t["with_params"].eval(fv, lv, sv, wb)
                    if st != "ok":
                        yield {"fmt": fname, "level": lv, "strategy": sname, "wb": wb, "panic": True}
                        continue
                    yield {"fmt": fname, "level": lv, "strategy": sname, "wb": wb, "flags": vals[0], "wbmax": vals[1],
                           "greedy": vals[2], "probes": vals[3:], "panic": False}
