"""C20 — the core crate is safe Rust in every configuration, builds without std/alloc, state types stay Send/Sync/Clone."""
import os
import threading

import facts
import witness
from facts import AnalysisError

QUICK = ["H0", "H1", "H6", "N0", "N5", "N7"]
ALL = ["H0", "H1", "H2", "H3", "H4", "H5", "H6", "H7", "T0", "T1", "N0", "N5", "N7"]
NOSTD = {"H0", "H1", "H3", "H4", "H5", "H7", "T0", "T1", "N0", "N5", "N7"}       # configurations without the `std` feature
NOALLOC_SYSROOT = {"T0", "N0", "N5"}                               # sysroot built with core only
NOSTD_SYSROOT = {"T1", "N7"}                                       # sysroot built with core + alloc only

FORBIDDEN_ATTRS = {"no_mangle", "export_name", "link_section", "naked", "link", "link_name", "used", "path", "global_allocator",
                   "start", "panic_handler", "ffi_const", "ffi_pure", "unsafe"}
FORBIDDEN_MACROS = {"include", "include_str", "include_bytes", "asm", "global_asm", "naked_asm"}
# decompression surface of the no-alloc build (confirmed by hand on the reference tree)
H0_SURFACE = ["miniz_oxide::inflate::core::DecompressorOxide", "miniz_oxide::inflate::core::decompress",
              "miniz_oxide::inflate::core::decompress_with_limit", "miniz_oxide::inflate::stream::InflateState",
              "miniz_oxide::inflate::stream::inflate", "miniz_oxide::inflate::decompress_slice_iter_to_slice",
              "miniz_oxide::shared::update_adler32", "miniz_oxide::StreamResult"]
H0_DEPS_ALLOWED = {"core", "compiler_builtins", "adler2", "rustc_std_workspace_core"}


def src_files():
    root = os.path.join(facts.REPO, "miniz_oxide", "src")
    out = []
    for d, _, fs in os.walk(root):
        for f in sorted(fs):
            if f.endswith(".rs"):
                out.append(os.path.join(d, f))
    return sorted(out)


def run(ctx):
    cfgs = ALL if ctx.thorough() else QUICK
    res = facts.extract_many(cfgs)
    r1 = ctx.rule("R20.1", "every configuration builds with an unconditional in-crate #![forbid(unsafe_code)] in force", floor=len(cfgs))
    r3 = ctx.rule("R20.3", "no_std / no allocator: core-only sysroot builds, no_std attribute, dependency closure, exported surface", floor=4)
    for cfg in cfgs:
        v = res[cfg]
        if isinstance(v, AnalysisError):
            r1.fail("<crate>", "builds-" + cfg, "configuration %s (%s) does not build: %s" % (cfg, " ".join(facts.CONFIGS[cfg][1]), str(v)[-1200:]))
            continue
        doc = facts.load(cfg)
        ctx.configs_used.append(cfg)
        k = doc["crate"]
        if k["unsafe_code_level"] == "Forbid" and k["unsafe_code_src"].startswith("Node@") and "src/lib.rs" in k["unsafe_code_src"]:
            r1.ok("<crate>", "forbid-" + cfg, "unsafe_code lint level at crate root: Forbid, source %s; build succeeded" % k["unsafe_code_src"])
        else:
            r1.fail("<crate>", "forbid-" + cfg, "unsafe_code is %s (source %s) at the crate root in configuration %s; expected Forbid from an "
                    "attribute in src/lib.rs" % (k["unsafe_code_level"], k["unsafe_code_src"], cfg))
        # no unsafe fns / unsafe impls in the facts either
        uns = [f["id"] for f in doc["fns"] if f.get("unsafe")] + [i["path"] for i in doc["impls"] if i.get("unsafe") and not i.get("derived")]
        if uns:
            r1.fail("<crate>", "unsafe-items-" + cfg, "unsafe items present: %s" % uns[:5])
        if cfg in NOSTD:
            has = any("NoStd" in a or "no_std" in a for a in k["attrs"])
            if has:
                r3.ok("<crate>", "no_std-" + cfg, "no_std attribute present without the std feature")
            else:
                r3.fail("<crate>", "no_std-" + cfg, "crate is not no_std in configuration %s (std feature off)" % cfg)
        if cfg in NOALLOC_SYSROOT:
            deps = set(k["deps"])
            if "alloc" in deps or "std" in deps:
                r3.fail("<crate>", "sysroot-" + cfg, "alloc/std in the dependency closure of a core-only build: %s" % sorted(deps))
            else:
                r3.ok("<crate>", "sysroot-" + cfg, "built against a sysroot containing only core: deps %s" % sorted(deps))
        if cfg in NOSTD_SYSROOT:
            deps = set(k["deps"])
            if "std" in deps:
                r3.fail("<crate>", "sysroot-" + cfg, "std in the dependency closure of a core+alloc build: %s" % sorted(deps))
            else:
                r3.ok("<crate>", "sysroot-" + cfg, "built, with all optional dependencies, against a sysroot without std: deps %s" % sorted(deps))
        if cfg == "H0":
            deps = set(k["deps"])
            extra = deps - H0_DEPS_ALLOWED
            if extra:
                r3.fail("<crate>", "deps-H0", "default-features=false build depends on %s" % sorted(extra))
            else:
                r3.ok("<crate>", "deps-H0", "dependency closure %s" % sorted(deps))
            exp = {e["path"] for e in k["exports"]}
            missing = [s for s in H0_SURFACE if s not in exp]
            if missing:
                r3.fail("<crate>", "surface-H0", "decompression API missing from the no-alloc build: %s" % missing)
            else:
                r3.ok("<crate>", "surface-H0", "%d exported items incl. the decompression surface" % len(exp))
            # nothing from the compressor may be needed/exported here, and no function mentions alloc types
            leaks = [f["id"] for f in doc["fns"] if any("alloc::" in l["ty"] for l in f["locals"])]
            if leaks:
                r3.fail("<crate>", "alloc-types-H0", "functions using alloc types in the no-alloc build: %s" % leaks[:5])
            else:
                r3.ok("<crate>", "alloc-types-H0", "no local of any function has an alloc:: type")
    # ---------------------------------------------------------------- lexical scan of every source file
    r2 = ctx.rule("R20.2", "token scan of every .rs file under miniz_oxide/src (covers compiled-out code): no unsafe, no linkage "
                           "attributes, no include!/#[path]; every file reachable from the module tree", floor=10)
    files = src_files()
    toks = facts.lex(files)
    byfile = {t["file"]: t["tokens"] for t in toks}
    root = os.path.join(facts.REPO, "miniz_oxide", "src")
    reach = set()

    def visit(path, moddir):
        if path in reach or path not in byfile:
            return
        reach.add(path)
        tk = byfile[path]
        for i in range(len(tk) - 2):
            if tk[i][0] == "ident" and tk[i][1] == "mod" and tk[i + 1][0] in ("ident", "rawident") and tk[i + 2][0] == ";":
                name = tk[i + 1][1]
                for cand, sub in ((os.path.join(moddir, name + ".rs"), os.path.join(moddir, name)),
                                  (os.path.join(moddir, name, "mod.rs"), os.path.join(moddir, name))):
                    if cand in byfile:
                        visit(cand, sub)
    visit(os.path.join(root, "lib.rs"), root)
    for f in files:
        rel = os.path.relpath(f, facts.REPO)
        tk = byfile[f]
        bad = []
        for i, t in enumerate(tk):
            if t[0] in ("ident", "rawident") and t[1] in ("unsafe", "r#unsafe"):
                bad.append("`unsafe` token at line %d" % t[2])
            if t[0] == "#":
                j = i + 1
                if j < len(tk) and tk[j][0] == "!":
                    j += 1
                if j + 1 < len(tk) and tk[j][0] == "[":
                    # collect attribute identifiers up to the closing bracket (nested)
                    depth = 0
                    k2 = j
                    names = []
                    while k2 < len(tk):
                        if tk[k2][0] == "[":
                            depth += 1
                        elif tk[k2][0] == "]":
                            depth -= 1
                            if depth == 0:
                                break
                        elif tk[k2][0] == "ident":
                            names.append(tk[k2][1])
                        k2 += 1
                    for nm in names:
                        if nm in FORBIDDEN_ATTRS:
                            bad.append("attribute `%s` at line %d" % (nm, t[2]))
            if t[0] == "ident" and t[1] in FORBIDDEN_MACROS and i + 1 < len(tk) and tk[i + 1][0] == "!":
                bad.append("macro `%s!` at line %d" % (t[1], t[2]))
            if t[0] == "ident" and t[1] == "extern" and i + 1 < len(tk) and tk[i + 1][0] == "lit":
                bad.append("extern ABI item at line %d" % t[2])
        if f not in reach:
            bad.append("file is not reachable from the module tree of lib.rs (dead or included by other means)")
        if bad:
            r2.fail(rel, "tokens", "; ".join(bad[:6]))
        else:
            r2.ok(rel, "tokens", "%d tokens, none forbidden; reachable from lib.rs" % len(tk))
    # unconditional forbid at the top of lib.rs
    tk = byfile[os.path.join(root, "lib.rs")]
    uncond = False
    for i in range(len(tk) - 7):
        seq = [x[1] if x[0] in ("ident",) else x[0] for x in tk[i:i + 8]]
        if seq == ["#", "!", "[", "forbid", "(", "unsafe_code", ")", "]"]:
            uncond = True
    if uncond:
        r2.ok("miniz_oxide/src/lib.rs", "forbid-unconditional", "#![forbid(unsafe_code)] appears directly (not under cfg_attr)")
    else:
        r2.fail("miniz_oxide/src/lib.rs", "forbid-unconditional", "no unconditional #![forbid(unsafe_code)] found in lib.rs")
    # ---------------------------------------------------------------- witness crate
    r4 = ctx.rule("R20.4", "witness crate: public state types are Send + Sync + Clone + 'static (compile-time bounds)", floor=2)
    sets = [["with-alloc"], [], ["with-alloc", "block-boundary"]]
    if ctx.thorough():
        sets += [["with-alloc", "std", "serde", "block-boundary", "simd"], ["serde", "block-boundary", "simd"]]
    results = {}

    def work(fs):
        results[tuple(fs)] = witness.run(fs)
    ths = [threading.Thread(target=work, args=(fs,)) for fs in sets]
    for t in ths:
        t.start()
    for t in ths:
        t.join()
    for fs in sets:
        okk, out = results[tuple(fs)]
        key = "witness[%s]" % ",".join(fs)
        if okk:
            r4.ok("mz_witness", key, "cargo check of the bound instantiations succeeded")
        else:
            r4.fail("mz_witness", key, "witness crate does not compile: %s" % out[-1200:])
    if ctx.thorough():
        okk, out = witness.run(["with-alloc"], doc=True)
        if okk and "2 passed" in out:
            r4.ok("mz_witness", "twins", "compile_fail,E0277 twin fails and its compiling twin passes: the witness is armed")
        else:
            r4.fail("mz_witness", "twins", "witness twins did not behave as expected: %s" % out[-800:])
    ctx.extra["explanation"] = ("compiler verdicts (build + lint level) per configuration, rustc_lexer token scan of every source "
                                "file, witness crate bounds; configurations: %s" % ", ".join(cfgs))
    ctx.trusted = ["rustc (type checker, unsafe_code lint at Forbid level, trait solver)", "rustc_lexer", "mzfacts driver", "cargo feature resolution"]
