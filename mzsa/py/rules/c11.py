"""C11 — the window declared in the zlib header bounds every match distance (finite configuration space)."""
import os
import sys
import paths
import termeval
from mir import callee_name
from terms import ISet, tstr, pstr, is_const, const_val
from rules.util import *
from rules import deflate_proto as dp
from rules import deflate_cfg as dc
from rules import c10

sys.path.insert(0, os.path.join(os.path.dirname(os.path.dirname(os.path.dirname(os.path.abspath(__file__)))), "tables"))
import rfc  # noqa: E402


def dict_size_bound(ctx, cfg):
    """upper bound of DictOxide.size from all of its writers: every stored value is 0 or min(.., LZ_DICT_SIZE-ish)"""
    c = ctx.crate(cfg)
    E = ctx.effects(cfg)
    SIZE = c.const_int("LZ_DICT_SIZE") if c.const("LZ_DICT_SIZE", required=False) else 32768
    bound = 0
    unknown = []
    for f in c.fns.values():
        if f.kind == "promoted" or "Clone" in f.name:
            continue
        for bb, i, s in stores_to(E, f, "DictOxide", "size"):
            rv = s["a"][1]
            from rules.inflate_core import local_expr
            if "use" in rv:
                e = local_expr(c, f, bb, rv["use"])
                if is_const(e):
                    bound = max(bound, const_val(e))
                    continue
                # value defined by a call to cmp::min(.., const) through a single-def temp
                pl = rv["use"].get("c") or rv["use"].get("m")
                ok = False
                if pl is not None and not pl["p"]:
                    for (b2, i2) in f.defs().get(pl["l"], []):
                        if i2 == "t":
                            t = f.blocks[b2]["t"]
                            if callee_name(t["call"]).endswith("cmp::min"):
                                consts = [local_expr(c, f, b2, a) for a in t["args"]]
                                cs = [const_val(q) for q in consts if is_const(q)]
                                subs = [q for q in consts if q[0] == "bin" and q[1] == "Sub" and is_const(q[2])]
                                if cs:
                                    bound = max(bound, min(cs))
                                    ok = True
                                elif subs:
                                    bound = max(bound, max(const_val(q[2]) for q in subs))
                                    ok = True
                if not ok:
                    unknown.append((f.name, s.get("sp")))
            elif "agg" in rv or "repeat" in rv:
                continue
            else:
                unknown.append((f.name, s.get("sp")))
    return bound, unknown, SIZE


def admission_terms(ctx, cfg):
    """per routine: the term that bounds an admitted match distance.
    compress_fast: X in `cur_match_dist as usize <= X` dominating the match writer; compress_normal: 2nd argument of find_match."""
    c = ctx.crate(cfg)
    E = ctx.effects(cfg)
    out = {}
    cf = c.fn("deflate::core::compress_fast")
    ev = paths.Evaluator(c, effects=E, max_paths=20000, max_blocks=60)
    rows = ev.run(cf)
    heads = sorted({x.outcome[1] for x in rows if x.outcome[0] == "backedge"})
    xs = set()
    unguarded = 0
    for h in heads:
        ev2 = paths.Evaluator(c, effects=E, max_paths=20000, max_blocks=60, stop_blocks=[q for q in heads if q != h])
        for x in ev2.run(cf, start_bb=h):
            wc = calls_named(x, "LZOxide::write_code")
            if len(wc) < 3:
                continue          # literal
            # the distance bytes: 2nd and 3rd write_code; find the admitting atom `dist <= X`
            adm = [(a, s) for a, s in x.atoms if a[0] == "bin" and a[1] == "Le" and s.single() == 1 and
                   paths.term_contains(a[2], lambda y: y[0] == "bin" and y[1] == "Sub" and paths.term_contains(y, lambda z: z[0] == "fld" and z[2] == "hash"))]
            if not adm:
                unguarded += 1
                continue
            # several admitting tests on the same distance (`d <= a && d <= b`) bound it by their minimum
            same = [a for a, s_ in adm if a[2] == adm[0][0][2]]
            bound = same[0][3]
            for a in same[1:]:
                bound = ("pure", "min", (bound, a[3]))
            xs.add(bound)
    out["deflate::core::compress_fast"] = (sorted(xs, key=repr), unguarded)
    cn = c.fn("deflate::core::compress_normal")
    xs = set()
    for bb, t in call_sites(cn, "DictOxide::find_match"):
        # start a few dominators above the call so that the argument computation is part of the evaluated region
        doms = cn.dominators().get(bb, {bb})
        chain = sorted(doms, key=lambda b: len(cn.dominators().get(b, ())))
        start = chain[max(0, len(chain) - 5)]
        ev3 = paths.Evaluator(c, effects=E, max_blocks=14, max_paths=2000)
        for x in ev3.run(cn, start_bb=start):
            for e in calls_named(x, "DictOxide::find_match"):
                X = e[2][2]
                # a minimum written as `if a < b { a } else { b }` hands over one operand and leaves the comparison on the path
                others = []
                for a, s_ in x.atoms[:e[6]] if len(e) > 6 else x.atoms:
                    if a[0] != "bin" or a[1] not in ("Lt", "Le", "Gt", "Ge") or s_.single() is None:
                        continue
                    lhs, rhs, v = a[2], a[3], s_.single()
                    op = a[1]
                    # normalise to  small <= big  /  small < big
                    if (op in ("Lt", "Le") and v == 1) or (op in ("Gt", "Ge") and v == 0):
                        small, big = lhs, rhs
                    else:
                        small, big = rhs, lhs
                    if small == X and big != X:
                        others.append(big)
                b = X
                for o in others:
                    b = ("pure", "min", (b, o))
                from rules import deflate_proto as _dp
                if _dp.find_match_clamps_with_size(ctx, cfg) and e[2][0][0] == "ref":
                    # the callee limits the bound to the history it holds: min(dict.size, argument)
                    szt = ("load", ("fld", e[2][0][1], "size", c.adt("deflate::core::DictOxide")["path"]), 0)
                    b = ("pure", "min", (b, szt))
                xs.add(b)
    out["deflate::core::compress_normal"] = (sorted(xs, key=repr), 0)
    return out


def eval_bound(t, cf, dict_bound):
    """numeric upper bound of an admission term under configuration cf"""
    def leaf(q):
        if q[0] == "load" and paths.place_is_field(q[1], "size", "DictOxide"):
            return str(dict_bound)
        if q[0] == "load" and paths.place_is_field(q[1], "window_bits_max", "ParamsOxide"):
            return str(cf["wbmax"])
        if q[0] == "load" and paths.place_is_field(q[1], "flags", "ParamsOxide"):
            return str(cf["flags"])
        raise termeval.Unsupported(tstr(q))
    return eval(termeval.compile_term(t, leaf), {"_sx": termeval._sx, "min": min, "max": max, "int": int, "_rem": termeval._rem, "_div": termeval._div})


def run(ctx):
    cfg = "H1"
    c = ctx.crate(cfg)
    t = dc.tables(ctx, cfg)
    ZL = c.const_int("deflate_flags::TDEFL_WRITE_ZLIB_HEADER")
    RLE = c.const_int("deflate_flags::TDEFL_RLE_MATCHES")
    MASK = c.const_int("deflate::core::MAX_PROBES_MASK")
    r1 = ctx.rule("R11.1", "declared window per configuration = 1 << (CINFO + 8), never above 2^max(w, 8)", floor=1, config=cfg)
    r2 = ctx.rule("R11.2", "bound of the admitted match distance <= declared window, for every zlib configuration", floor=3, config=cfg)
    r3 = ctx.rule("R11.3", "changing format/level cannot raise the window above the one the compressor was created with", floor=1, config=cfg)
    dbound, unknown, SIZE = dict_size_bound(ctx, cfg)
    if unknown:
        r2.fail(unknown[0][0], "dict.size-writer", "a writer of DictOxide.size stores a value that is not 0 or a min(.., constant): %s" % (unknown[:3],), unknown[0][1])
    else:
        r2.ok("<crate>", "dict.size-invariant", "every writer of DictOxide.size stores 0 or min(.., %d): dict.size <= %d" % (SIZE, dbound))
    adm = admission_terms(ctx, cfg)
    for rt, (xs, ung) in adm.items():
        if ung:
            r2.fail(rt, "unguarded-match", "%d match-writing paths in %s are not dominated by a distance admission test" % (ung, rt))
        if not xs:
            r2.fail(rt, "admission-site", "no distance admission test / find_match call found in %s" % rt)
        else:
            r2.ok(rt, "admission-site", "distance admitted against %s" % [tstr(q) for q in xs])
    # find_match honours max_dist
    fm = c.fn("deflate::core::DictOxide::find_match")
    ev = paths.Evaluator(c, effects=ctx.effects(cfg), max_paths=3000, max_blocks=40)
    honoured = False
    for x in ev.run(fm):
        if x.outcome[0] == "return":
            def is_maxdist(t):
                return t == P(3) or (t[0] == "pure" and t[1] == "min" and any(is_maxdist(q) for q in t[2]))
            if any(a[0] == "bin" and a[1] == "Gt" and is_maxdist(a[3]) and s.single() == 1 for a, s in x.atoms):
                ops = tuple_ops(x.ret)
                if ops and ops[0] == P(5):
                    honoured = True
    if honoured:
        r2.ok(fm.name, "max_dist", "a candidate with dist > max_dist ends the search with the incoming match")
    else:
        r2.fail(fm.name, "max_dist", "find_match does not reject candidates farther than max_dist")
    route = c10.routing(ctx, cfg)
    nconf = 0
    classes = {}
    declared_bad = []
    for cf in dc.space(ctx, cfg):
        if cf["panic"] or not cf["flags"] & ZL:
            continue
        nconf += 1
        st, hv = t["header"].eval(cf["flags"], cf["wbmax"])
        if st != "ok":
            continue
        declared = rfc.zlib_window(hv[0])
        if declared > (1 << max(cf["wb"], 8)) and cf["wb"] <= 15:
            declared_bad.append((cf, declared))
        rts = route(cf["flags"])
        bound = 0
        for rt in rts:
            if rt == "deflate::stored::compress_stored":
                continue
            if rt == "deflate::core::compress_normal" and cf["flags"] & RLE:
                bound = max(bound, 1)
                continue
            if rt == "deflate::core::compress_normal" and (cf["flags"] & MASK) == 0:
                continue      # Huffman-only: find_match returns its input (R10.3)
            xs = adm.get(rt, ([], 0))[0]
            for x in xs:
                try:
                    bound = max(bound, eval_bound(x, cf, dbound))
                except termeval.Unsupported as e:
                    bound = max(bound, SIZE)
                    classes.setdefault(("unevaluable", rt), (cf, str(e)))
        if bound > declared:
            wbc = "wb<12" if cf["wb"] < 12 else ("wb12-14" if cf["wb"] < 15 else "wb15")
            classes.setdefault((wbc, rts[0] if rts else "?"), (cf, "bound %d > declared %d" % (bound, declared)))
    ctx.extra["zlib_configurations"] = nconf
    if declared_bad:
        cf, d = declared_bad[0]
        r1.fail("deflate::zlib::header_from_flags", "declared-window", "window_bits %d declares a %d byte window (> 2^max(w,8))" % (cf["wb"], d))
    else:
        r1.ok("deflate::zlib::header_from_flags", "declared-window", "%d zlib configurations: declared window <= 2^max(w, 8)" % nconf)
    for (wbc, rt), (cf, why) in sorted(classes.items()):
        r2.fail(rt, "window:%s" % wbc, "configuration class %s via %s: the admitted match distance is not bounded by the declared window "
                "(%s; e.g. %s level %d strategy %s window_bits %d, flags %#x)" % (wbc, rt.split("::")[-1], why, cf["fmt"], cf["level"], cf["strategy"], cf["wb"], cf["flags"]))
    if not classes:
        r2.ok("<configs>", "window-bound", "all %d zlib configurations: distance bound <= declared window" % nconf)
    # R11.3: whatever flags are installed later (set_format_and_level, set_compression_level), the bound must hold for the
    # window_bits_max the header is written with
    GREEDY = c.const_int("deflate_flags::TDEFL_GREEDY_PARSING_FLAG")
    FILT = c.const_int("deflate_flags::TDEFL_FILTER_MATCHES")
    RAW = c.const_int("deflate_flags::TDEFL_FORCE_ALL_RAW_BLOCKS")
    worst = None
    worst_hdr = None
    n3 = 0
    # the header is written once, with whatever flags are in force at the first block; flags may change afterwards
    # (set_compression_level / set_format_and_level are legal mid-stream).  So the window a later configuration may use has to fit
    # the smallest window any earlier configuration could have declared for the same window_bits_max.
    FLAG_CLASSES = [ZL | probes | (GREEDY if bits & 1 else 0) | (RLE if bits & 2 else 0) | (FILT if bits & 4 else 0) | (RAW if bits & 8 else 0)
                    for probes in (0, 1, 2, 6, 768, 1500, 4095) for bits in range(16)]
    declared_min = {}
    for wbmax in range(0, 16):
        for fl in FLAG_CLASSES:
            st, hv = t["header"].eval(fl, wbmax)
            if st == "ok":
                d = rfc.zlib_window(hv[0])
                if wbmax not in declared_min or d < declared_min[wbmax][0]:
                    declared_min[wbmax] = (d, fl)
    for wbmax in range(0, 16):
        for probes in (0, 1, 2, 6, 768, 1500, 4095):
            for bits in range(16):
                flags = ZL | probes | (GREEDY if bits & 1 else 0) | (RLE if bits & 2 else 0) | (FILT if bits & 4 else 0) | (RAW if bits & 8 else 0)
                st, hv = t["header"].eval(flags, wbmax)
                if st != "ok":
                    continue
                n3 += 1
                declared = rfc.zlib_window(hv[0])
                cf = {"flags": flags, "wbmax": wbmax}
                bound = 0
                for rt in route(flags):
                    if rt == "deflate::stored::compress_stored" or (rt == "deflate::core::compress_normal" and (flags & RLE or not flags & MASK)):
                        bound = max(bound, 1 if flags & RLE else 0)
                        continue
                    for x in adm.get(rt, ([], 0))[0]:
                        try:
                            bound = max(bound, eval_bound(x, cf, dbound))
                        except termeval.Unsupported:
                            bound = max(bound, SIZE)
                if bound > declared and worst is None:
                    worst = (flags, wbmax, bound, declared)
                dm = declared_min.get(wbmax)
                if dm is not None and bound > dm[0] and worst is None:
                    worst = (flags, wbmax, bound, dm[0])
                    worst_hdr = dm[1]
    f = c.fn("deflate::core::CompressorOxide::set_format_and_level")
    ctx.touched(f)
    if worst is None:
        r3.ok(f.name, "any-flags", "%d (flags class, window_bits_max) combinations: the distance bound follows window_bits_max, so later level/format "
              "changes cannot exceed the declared window" % n3)
    else:
        r3.fail(f.name, "any-flags", "with flags %#x installed on a compressor whose header is sized for window_bits %d the distance bound is %d > %d"
                % worst + (" (the window declared when the header is written under flags %#x)" % worst_hdr if worst_hdr is not None else ""))
