"""C18 — reset restores fresh behaviour; determinism (structural clauses)."""
import paths
from mir import callee_name
from terms import tstr, is_const, const_val
from rules.util import *
from rules import inflate_core as ic


def short(loc):
    return "%s.%s" % (loc[0].split("::")[-1], loc[1])


def rule_reset_coverage(ctx, cfg, r):
    c = ctx.crate(cfg)
    E = ctx.effects(cfg)

    def state_fields(root_ty, data_fn):
        allf = E.fields_of_type(root_ty)
        W = set(E.lookup(c.fn(data_fn).id)["W"])
        return allf, {f for f in allf if f in W}
    # ---- compressor
    allf, state = state_fields("deflate::core::CompressorOxide", "deflate::core::compress_inner")
    rs = c.fn("deflate::core::CompressorOxide::reset")
    ctx.touched(rs)
    mw = set(E.lookup(rs.id)["MW"])
    if len(state) < 25:
        r.fail(rs.name, "state-fields", "only %d compressor state fields recognised (reference tree: 30)" % len(state))
    for f in sorted(state):
        # container fields are covered when every state leaf nested inside them is
        nested = E.nested(f) - {f}
        leaves = [n for n in nested if not (E.nested(n) - {n})]
        if f in mw or (nested and all((n in mw) or (n not in state) for n in leaves)):
            r.ok(rs.name, "reset:" + short(f), "must-written by CompressorOxide::reset")
        else:
            r.fail(rs.name, "reset:" + short(f), "state field %s may be written by the compression data path but is not restored by "
                   "CompressorOxide::reset on every path" % short(f))
    cfgf = sorted(short(f) for f in allf - state)
    r.note("configuration fields (no data-path writer): %s" % cfgf)
    ctx.extra["compressor_config_fields"] = cfgf
    # writers of configuration fields: constructors / setters only
    # ---- streaming inflater, per policy
    allf, state = state_fields("inflate::stream::InflateState", "inflate::stream::inflate")
    own = {f for f in state if f[0].endswith("InflateState")}
    for pol in ("MinReset", "ZeroReset", "FullReset"):
        f = c.fn("<inflate::stream::%s as inflate::stream::ResetPolicy>::reset" % pol)
        ctx.touched(f)
        summ = E.lookup(f.id)
        mw = set(summ["MW"])
        for fld_ in sorted(own):
            if fld_[1] == "decomp":
                # embedded decoder: covered when the policy re-initialises it (what init() leaves behind is R18.2's subject)
                okk = any(n[1] == "state" and n[0].endswith("DecompressorOxide") for n in mw)
                if okk:
                    r.ok(f.name, "reset:" + short(fld_), "decoder re-initialised through DecompressorOxide::init()")
                else:
                    r.fail(f.name, "reset:" + short(fld_), "%s does not re-initialise the embedded decoder" % pol)
                continue
            if fld_ in mw:
                r.ok(f.name, "reset:" + short(fld_), "must-written by %s" % pol)
            else:
                r.fail(f.name, "reset:" + short(fld_), "state field %s may be written by inflate() but is not restored by %s::reset" % (short(fld_), pol))
    # InflateState::reset(fmt) has the effect of FullReset(fmt) on every path (decided on the inlined effects, whatever the forwarding shape)
    g = c.fn("inflate::stream::InflateState::reset")
    ev = paths.Evaluator(c, inline=("*",), inline_depth=7)
    want = {f[1] for f in own if f[1] != "decomp"} | {"data_format"}
    rows = ev.run(g)
    bad = []
    for x in rows:
        if x.outcome[0] != "return":
            continue
        got = {}
        init = False
        for e in x.effects:
            if e[0] == "store" and e[1][0] == "fld" and e[1][1] == ("deref", P(1)) and e[1][3].endswith("InflateState"):
                got[e[1][2]] = e[2]
            if e[0] in ("call", "enter") and e[1].endswith("DecompressorOxide::init"):
                init = True
            if e[0] in ("call", "enter"):
                # whatever a function on the path must-write (e.g. a window cleared element by element) counts as restored
                for g_ in c.fns.values():
                    if g_.name == e[1] and g_.kind != "promoted":
                        sm_ = E.lookup(g_.id)
                        for (of_, fl_) in (sm_["MW"] if sm_ else ()):
                            if of_.endswith("InflateState") and fl_ != "data_format":
                                got.setdefault(fl_, ("must-written by", e[1]))
        miss = sorted(want - set(got))
        if miss:
            bad.append("fields not restored: %s" % miss)
        elif got.get("data_format") != P(2):
            bad.append("data_format is set to %s, not the requested format" % tstr(got.get("data_format")))
        elif not init:
            bad.append("embedded decoder not re-initialised")
    nret = sum(1 for x in rows if x.outcome[0] == "return")
    if not bad and nret:
        r.ok(g.name, "reset-forwards", "InflateState::reset(fmt) restores every stream field, re-initialises the decoder and stores fmt on all %d paths" % nret)
    else:
        r.fail(g.name, "reset-forwards", "InflateState::reset does not apply FullReset with the requested format (%s)" % ("; ".join(bad) or "no returning path"))


def rule_determinism(ctx, cfg, r):
    c = ctx.crate(cfg)
    doc = c.doc
    bad_static = [s for s in doc["statics"] if s["mut"] or not s["freeze"]]
    if bad_static:
        r.fail("<crate>", "statics", "mutable / interior-mutable statics: %s" % [s["path"] for s in bad_static])
    else:
        r.ok("<crate>", "statics", "%d statics, none mutable or interior-mutable" % len(doc["statics"]))
    banned = ("collections::hash", "RandomState", "std::time", "std::env", "SystemTime", "Instant", "thread_rng", "getrandom",
              "std::thread", "std::process", "std::fs", "std::net", "sync::atomic", "core::cell::", "std::sync::Mutex")
    hits = []
    ptr_int = []
    for f in c.fns.values():
        if f.kind == "promoted":
            continue
        for bb, t in f.calls():
            n = callee_name(t["call"])
            if any(b in n for b in banned) and "fmt" not in f.name:
                # apply_match uses Cell::from_mut locally (no shared state): allow core::cell::Cell on locals only
                if "core::cell::Cell" in n and f.name.endswith("apply_match"):
                    continue
                hits.append((f.name, n))
        for blk in f.blocks:
            for s in blk["s"]:
                if "a" in s and "cast" in s["a"][1]:
                    k = s["a"][1]["cast"][0]
                    if "ExposeProvenance" in k or "PointerExposeAddress" in k:
                        ptr_int.append((f.name, s.get("sp")))
        for l in f.locals:
            if any(b in l["ty"] for b in ("HashMap", "HashSet", "RandomState", "Instant", "SystemTime")):
                hits.append((f.name, l["ty"]))
    if hits:
        r.fail(hits[0][0], "nondeterminism-source", "use of %s" % (hits[0][1],))
    else:
        r.ok("<crate>", "nondeterminism-source", "no hash-randomised container, clock, environment, thread or atomic use in %d functions" % len(c.fns))
    if ptr_int:
        r.fail(ptr_int[0][0], "pointer-to-integer", "pointer-to-integer cast (address-dependent behaviour)", ptr_int[0][1])
    else:
        r.ok("<crate>", "pointer-to-integer", "no pointer-to-integer casts")


def rule_capi_reset(ctx, r):
    c = ctx.crate("CAPI")
    mo = ctx.crate("CAPI", "miniz_oxide")
    f = c.fn("lib_oxide::mz_deflate_reset_oxide")
    ctx.touched(f)
    ev = paths.Evaluator(c, extra_crates=[mo], inline=["tdef::Compressor::reset"])
    nok = 0
    for x in ev.run(f):
        if x.outcome[0] != "return":
            continue
        k, p = result_variant(x.ret)
        rs = [e for e in x.effects if e[0] == "call" and e[1].endswith("CompressorOxide::reset")]
        if k == "Ok":
            nok += 1
            tot = [e for e in x.stores() if e[1][0] == "fld" and e[1][2] in ("total_in", "total_out") and is_const(e[2]) and const_val(e[2]) == 0]
            inner_none = any(a[0] == "discr" and s.single() == 0 and paths.term_contains(a, lambda y: y[0] == "fld" and y[2] == "inner") for a, s in x.atoms)
            if (rs or inner_none) and len(tot) >= 2:
                r.ok(f.name, "ok-row", "Ok only after CompressorOxide::reset (or no inner compressor) with totals cleared")
            else:
                r.fail(f.name, "ok-row", "mz_deflateReset reports success without resetting the compressor: %s" % x.describe(8))
    if nok == 0:
        r.fail(f.name, "ok-row", "no Ok row found")
    g = c.fn("tdef::Compressor::reset")
    ev = paths.Evaluator(c, extra_crates=[mo])
    okk = False
    for x in ev.run(g):
        if [e for e in x.effects if e[0] == "call" and e[1].endswith("CompressorOxide::reset")]:
            okk = True
    if okk:
        r.ok(g.name, "forwards", "Compressor::reset forwards to CompressorOxide::reset")
    else:
        r.fail(g.name, "forwards", "Compressor::reset does not reach CompressorOxide::reset")


def run(ctx):
    cfg = "H1"
    r1 = ctx.rule("R18.1", "reset coverage: every field the data path may write is must-written by the reset routine", floor=35, config=cfg)
    rule_reset_coverage(ctx, cfg, r1)
    r2 = ctx.rule("R18.2", "decoder re-initialisation: after init() no scalar field is read before it is written (liveness from State::Start)", floor=13, config=cfg)
    ic.rule_start_liveness(ctx, cfg, r2)
    r5 = ctx.rule("R18.5", "decoder tables carry nothing over: init_tree overwrites the whole fast table and zeroes the whole overflow tree before building", floor=12, config=cfg)
    ic.rule_tables_from_scratch(ctx, cfg, r5)
    r3 = ctx.rule("R18.3", "determinism: no mutable statics, hash-randomised containers, clocks, environment access or pointer-to-integer casts", floor=3, config=cfg)
    rule_determinism(ctx, cfg, r3)
    r4 = ctx.rule("R18.4", "C API: mz_deflateReset reaches CompressorOxide::reset on every success path", floor=2, config="CAPI")
    rule_capi_reset(ctx, r4)
    if ctx.thorough():
        for cf in ("H4", "H6"):
            rr = ctx.rule("R18.2@" + cf, "Start liveness with feature set " + cf, floor=13, config=cf)
            ic.rule_start_liveness(ctx, cf, rr)
