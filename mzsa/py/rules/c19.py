"""C19 — decoder snapshots: clone, serialisation, block boundary (structural clauses)."""
import threading
import witness
from rules.util import *
from rules import inflate_core as ic

SNAP_TYPES = ["inflate::core::DecompressorOxide", "inflate::core::HuffmanTable", "inflate::stream::InflateState", "inflate::core::State"]
PLAIN = ("u8", "u16", "u32", "u64", "usize", "i8", "i16", "i32", "i64", "isize", "bool")


def plain_type(c, ty, seen=None, depth=0):
    """integers, arrays of plain types, and repo ADTs whose fields are plain (no pointers, cells, Rc, references)"""
    seen = seen or set()
    t = ty.strip()
    if t in PLAIN:
        return True
    if t.startswith("[") and ";" in t:
        return plain_type(c, t[1:t.rindex(";")], seen, depth + 1)
    if t.startswith(("&", "*", "alloc::rc", "core::cell", "std::rc", "alloc::sync", "std::sync")) or "Cell<" in t or "Rc<" in t or "Arc<" in t:
        return False
    for p, a in c.adts.items():
        if p == t or p.endswith("::" + t.split("<")[0]):
            if p in seen:
                return True
            seen = seen | {p}
            return all(plain_type(c, f["ty"], seen, depth + 1) for v in a["variants"] for f in v["fields"])
    return False


def rule_derives(ctx, cfg, r, serde=False, bb=False):
    c = ctx.crate(cfg)
    types = list(SNAP_TYPES) + (["inflate::core::BlockBoundaryState"] if bb else [])
    for tn in types:
        a = c.adt(tn, required=False)
        if a is None:
            r.fail(tn, "present[%s]" % cfg, "type %s not found in configuration %s" % (tn, cfg))
            continue
        impls = [im for im in c.impls if im.get("self_path") == a["path"]]
        cl = [im for im in impls if im["trait"] and im["trait"].endswith("clone::Clone")]
        if cl and all(im["derived"] for im in cl):
            r.ok(tn, "clone[%s]" % cfg, "Clone is #[derive]d (field-wise copy)")
        else:
            r.fail(tn, "clone[%s]" % cfg, "Clone for %s is missing or hand-written: a snapshot may not copy every field" % tn)
        bad = [(f["name"], f["ty"]) for v in a["variants"] for f in v["fields"] if not plain_type(c, f["ty"])]
        if bad:
            r.fail(tn, "plain-data[%s]" % cfg, "fields that are not plain data (pointer / cell / shared ownership): %s" % bad[:4])
        else:
            r.ok(tn, "plain-data[%s]" % cfg, "all fields are integers, arrays or plain-data structs")
        if serde and tn != "inflate::stream::InflateState":
            se = [im for im in c.impls if im["trait"] and im["trait"].endswith("ser::Serialize") and (im.get("self_path") == a["path"])]
            de = [im for im in c.impls if im["trait"] and im["trait"].endswith("de::Deserialize") and (im.get("self_path") == a["path"])]
            if se and de and all(im["derived"] for im in se + de):
                r.ok(tn, "serde-derive[%s]" % cfg, "Serialize / Deserialize derived")
            else:
                r.fail(tn, "serde-derive[%s]" % cfg, "Serialize/Deserialize for %s missing or hand-written (%d/%d impls)" % (tn, len(se), len(de)))
            # every field is serialised: the derived serialize() has one serialize_field call per field of a struct
            if a["kind"] == "struct":
                nfields = len(a["variants"][0]["fields"])
                from mir import callee_name
                sf = None
                for g in c.fns.values():
                    if g.kind == "assoc" and g.name.endswith("::serialize") and "Serialize for " + tn in g.name and "__SerializeWith" not in g.name:
                        sf = sum(1 for bb, t in g.calls() if callee_name(t["call"]).endswith("serialize_field"))
                if sf == nfields:
                    r.ok(tn, "serde-fields[%s]" % cfg, "all %d fields are written by the derived serialize()" % nfields)
                else:
                    r.fail(tn, "serde-fields[%s]" % cfg, "derived serialize() writes %s of %d fields: a field is skipped, so a deserialised snapshot loses state" % (sf, nfields))


def rule_serde_attrs(ctx, r):
    """lexical: the only serde field attribute in the decoder sources is `with = "BigArray"` (covers cfg_attr forms)."""
    import facts
    import os
    files = [os.path.join(facts.REPO, "miniz_oxide", "src", "inflate", "core.rs"), os.path.join(facts.REPO, "miniz_oxide", "src", "inflate", "mod.rs"),
             os.path.join(facts.REPO, "miniz_oxide", "src", "inflate", "stream.rs")]
    toks = facts.lex(files)
    banned = {"skip", "skip_serializing", "skip_deserializing", "skip_serializing_if", "default", "rename", "rename_all", "flatten", "alias",
              "getter", "from", "try_from", "into", "serialize_with", "deserialize_with", "remote", "transparent", "untagged"}
    n = 0
    for t in toks:
        tk = t["tokens"]
        for i in range(len(tk) - 1):
            if tk[i][0] == "ident" and tk[i][1] == "serde" and tk[i + 1][0] == "(":
                depth = 0
                j = i + 1
                names = []
                while j < len(tk):
                    if tk[j][0] == "(":
                        depth += 1
                    elif tk[j][0] == ")":
                        depth -= 1
                        if depth == 0:
                            break
                    elif tk[j][0] == "ident":
                        names.append(tk[j][1])
                    j += 1
                n += 1
                bad = [q for q in names if q in banned]
                rel = os.path.relpath(t["file"], facts.REPO)
                if bad:
                    r.fail(rel, "serde-attr:%s" % ",".join(bad), "serde attribute %s at line %d changes what a snapshot contains" % (bad, tk[i][2]))
                else:
                    r.ok(rel, "serde-attr", "serde(%s)" % " ".join(names))
    if n < 2:
        r.fail("miniz_oxide/src/inflate", "serde-attr-count", "%d serde attributes found (reference tree: the BigArray adapters)" % n)


def run(ctx):
    cfgs = ["H1", "H4"]
    r1 = ctx.rule("R19.1", "snapshot types are field-wise derived Clone over plain data; serde derives without skip/default/rename", floor=8)
    rule_derives(ctx, "H1", r1)
    rule_derives(ctx, "H4", r1, bb=True)
    rule_derives(ctx, "H3", r1, serde=True)
    rule_serde_attrs(ctx, r1)
    if ctx.thorough():
        rule_derives(ctx, "H6", r1, serde=True, bb=True)
        rule_derives(ctx, "H7", r1, serde=True, bb=True)
    # witness: Clone + Send + Sync + 'static, Serialize + DeserializeOwned
    sets = [["with-alloc", "block-boundary"], ["with-alloc", "serde", "block-boundary"]]
    res = {}

    def work(fs):
        res[tuple(fs)] = witness.run(fs)
    ths = [threading.Thread(target=work, args=(fs,)) for fs in sets]
    for t in ths:
        t.start()
    for t in ths:
        t.join()
    for fs in sets:
        okk, out = res[tuple(fs)]
        if okk:
            r1.ok("mz_witness", "witness[%s]" % ",".join(fs), "bounds Clone + Send + Sync + 'static%s hold" % (" and Serialize + DeserializeOwned" if "serde" in fs else ""))
        else:
            r1.fail("mz_witness", "witness[%s]" % ",".join(fs), "witness crate does not compile: %s" % out[-800:])
    r2 = ctx.rule("R19.2", "block-boundary record: single origin of BlockBoundary, exit re-enters at ReadBlockHeader, record/rebuild symmetric, "
                           "nothing else is needed to resume", floor=8, config="H4")
    ic.rule_boundary(ctx, "H4", r2)
    r6 = ctx.rule("R19.6", "a boundary stop is reported: the exit path replaces the status by HasMoreOutput only when it is NeedsMoreInput "
                           "(never the BlockBoundary stop, also when the output window is full)", floor=1, config="H4")
    ic.rule_override(ctx, "H4", r6)
    r7 = ctx.rule("R19.7", "the running checksum in a boundary record / clone covers all output so far: every non-failing exit of a call (also the "
                           "BlockBoundary stop) folds the bytes it wrote into check_adler32", floor=10, config="H4")
    ic.rule_adler_epilogue(ctx, "H4", r7)
    r3 = ctx.rule("R19.5", "every decoder register is written back on every exit (a clone taken between calls captures the whole state)", floor=3, config="H4")
    ic.rule_localvars(ctx, "H4", r3)
    ic.rule_loop_state(ctx, "H4", r3)
