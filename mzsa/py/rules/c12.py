"""C12 — flush points: marker shapes, Full flush cuts history, final-block gating, flush conversions, deflate() exits."""
import os
import sys
import paths
from terms import ISet, tstr, pstr, is_const, const_val
from rules.util import *
from rules import deflate_proto as dp
from rules import c14

sys.path.insert(0, os.path.join(os.path.dirname(os.path.dirname(os.path.dirname(os.path.abspath(__file__)))), "tables"))
import rfc  # noqa: E402


def marker_rows(ctx, cfg):
    """rows of the `match flush` tail of flush_block: (flush value set, [effect calls])"""
    c = ctx.crate(cfg)
    f = c.fn("deflate::core::flush_block")
    ctx.touched(f)
    # the dispatch: switch on discriminant(flush) with >= 5 explicit targets
    disp = None
    for bb, blk in enumerate(f.blocks):
        t = blk["t"]
        if "switch" in t and len(t["targets"]) >= 5:
            o = t["switch"]
            pl = o.get("c") or o.get("m")
            if pl is not None and not pl["p"]:
                defs = f.defs().get(pl["l"], [])
                if len(defs) == 1 and defs[0][1] != "t":
                    rv = f.blocks[defs[0][0]]["s"][defs[0][1]]["a"][1]
                    if "discr" in rv and rv["discr"]["l"] == 3 and not rv["discr"]["p"]:
                        disp = (defs[0][0], bb)
    if disp is None:
        return f, None, None
    start, sw = disp
    # join block: nearest post-dominator of the switch
    pd = f.postdominators()
    cands = [b for b in pd.get(sw, set()) if b != sw and b < len(f.blocks)]
    join = max(cands, key=lambda b: len(pd[b])) if cands else None
    # helper methods of the bit writer (e.g. an extracted "put empty stored block") are looked into; the primitives are the alphabet
    prim = ("put_bits", "put_bits_no_flush", "pad_to_bytes", "is_byte_aligned")
    helpers = [g.name for g in c.fns.values() if "OutputBufferOxide" in g.name and g.kind != "promoted" and
               g.name.split("::")[-1] not in prim and "{closure" not in g.name]
    ev = paths.Evaluator(c, effects=ctx.effects(cfg), stop_blocks=[join] if join is not None else [], inline=helpers)
    rows = ev.run(f, start_bb=start)
    return f, rows, join


def run(ctx):
    cfg = "H1"
    c = ctx.crate(cfg)
    TF = discrs(c, "TDEFLFlush")
    r1 = ctx.rule("R12.1", "flush marker shape per flush mode (RFC 1951 empty stored / empty fixed block)", floor=8, config=cfg)
    f, rows, join = marker_rows(ctx, cfg)
    fn = f.name
    if rows is None:
        r1.fail(fn, "dispatch", "the `match flush` dispatch of flush_block was not found")
        rows = []
    SYNC = [("put_bits", rfc.BTYPE_STORED << 1, 3), ("pad_to_bytes",), ("put_bits", 0, 16), ("put_bits", 0xFFFF, 16)]
    # empty fixed block: BFINAL=0, BTYPE=01 (LSB first: bits 0,1,0), then the 7-bit end-of-block code 0000000
    PARTIAL = [("put_bits", (rfc.BTYPE_FIXED << 1), 3 + rfc.FIXED_EOB_LEN)]
    seen = set()
    for row in rows:
        fl = vs(row, ("discr", P(3)))
        if fl.single() is None and row.outcome[0] in ("stop", "return", "backedge"):
            vals = fl.values() if fl.size() < 20 else []
        else:
            vals = [fl.single()]
        seq = []
        aligned = None
        for e in row.effects:
            if e[0] != "call":
                continue
            n = e[1].split("::")[-1]
            if n in ("put_bits", "put_bits_no_flush"):
                a = e[2]
                seq.append(("put_bits", const_val(a[1]) if is_const(a[1]) else tstr(a[1]), const_val(a[2]) if is_const(a[2]) else tstr(a[2])))
            elif n == "pad_to_bytes":
                seq.append(("pad_to_bytes",))
            elif n == "is_byte_aligned":
                res = call_res(e)
                aligned = vs(row, res).single()
                for a, s in row.atoms:
                    if paths.term_contains(a, lambda x: x == res):
                        d = s.single()
                        if a == res:
                            aligned = d
                        elif a[0] == "un" and a[1] == "Not":
                            aligned = 1 - d if d is not None else None
        names = {v: k for k, v in TF.items()}
        for v in vals:
            name = names.get(v)
            seen.add(name)
            key = "marker-%s%s" % (name, "" if aligned is None else ("-aligned" if aligned else "-unaligned"))
            if name in ("Sync", "Full"):
                want = SYNC
            elif name == "SyncOpt":
                want = [] if aligned == 1 else SYNC
            elif name == "Partial":
                want = PARTIAL
            elif name == "PartialOpt":
                want = [] if aligned == 1 else PARTIAL
            elif name in ("None", "NoSync"):
                want = []
            elif name == "Finish":
                # checked by C09 (trailer); here only: first action is pad_to_bytes, and nothing but 8-bit trailer bytes follow
                if seq and seq[0] == ("pad_to_bytes",) and all(s[0] == "put_bits" and s[2] == 8 for s in seq[1:]):
                    r1.ok(fn, key, "Finish: pad_to_bytes then only 8-bit trailer writes")
                else:
                    r1.fail(fn, key, "Finish must pad to a byte boundary before anything else: %s" % (seq,))
                continue
            else:
                r1.fail(fn, "marker-unknown", "unknown flush value %r" % v)
                continue
            if name in ("SyncOpt", "PartialOpt") and aligned is None:
                r1.fail(fn, key, "%s must test is_byte_aligned(): %s" % (name, seq))
            elif seq == want:
                r1.ok(fn, key, "%s -> %s" % (name, seq))
            else:
                r1.fail(fn, key, "%s emits %s, the RFC 1951 marker is %s" % (name, seq, want))
    for name in TF:
        if name not in seen:
            r1.fail(fn, "marker-missing-" + name, "no row of the flush dispatch covers TDEFLFlush::%s" % name)
    r2 = ctx.rule("R12.2", "Full flush clears hash chains and dictionary size after a successful final block", floor=2, config=cfg)
    r3 = ctx.rule("R12.3", "flush marker emitted only with all input consumed, lookahead empty, nothing pending", floor=4, config=cfg)
    dp.rule_final_block(ctx, cfg, r3, r_full=r2)
    # R12.4 conversions
    r4 = ctx.rule("R12.4", "flush value conversions are total and name/value preserving", floor=20, config=cfg)
    MF = discrs(c, "MZFlush")
    g = c.fn("<deflate::core::TDEFLFlush as core::convert::From<MZFlush>>::from")
    ctx.touched(g)
    ev = paths.Evaluator(c)
    got = {}
    for row in ev.run(g):
        if row.outcome[0] != "return" or row.ret[0] != "enum":
            r4.fail(g.name, "total", "conversion has a non-returning or non-constant path: %s" % row.describe())
            continue
        for v in vs(row, ("discr", P(1))).values():
            got[v] = row.ret[2]
    for name, v in MF.items():
        want = name if name in TF else "None"
        if got.get(v) == want:
            r4.ok(g.name, "from-" + name, "MZFlush::%s -> TDEFLFlush::%s" % (name, want))
        else:
            r4.fail(g.name, "from-" + name, "MZFlush::%s maps to %s, expected %s" % (name, got.get(v), want))
    for fname, enum, table, special in (("MZFlush::new", "MZFlush", MF, {1: ("Sync", "Partial"), 5: (None,)}),
                                        ("deflate::core::TDEFLFlush::new", "TDEFLFlush", TF, {})):
        h = c.fn(fname)
        ctx.touched(h)
        ev = paths.Evaluator(c)
        got = {}
        rest = None
        for row in ev.run(h):
            if row.outcome[0] != "return":
                r4.fail(h.name, "total", "non-returning path: %s" % row.describe())
                continue
            k, p = result_variant(row.ret)
            s = vs(row, P(1))
            val = p[2] if (k == "Ok" and p and p[0] == "enum") else (None if (k == "Err" and is_enum(p, "Param")) else "?")
            if s.size() <= 16:
                for v in s.values():
                    got[v] = val
            else:
                rest = val
        names = {v: k for k, v in table.items()}
        for v in range(-3, 12):
            have = got.get(v, rest)
            want = special.get(v, (names.get(v),))
            if have in want:
                r4.ok(h.name, "new-%d" % v, "%s(%d) -> %s" % (fname, v, have))
            else:
                r4.fail(h.name, "new-%d" % v, "%s(%d) gives %s, expected one of %s" % (fname, v, have, want))
        if rest is not None:
            r4.fail(h.name, "new-default", "values outside the legal range must be rejected with MZError::Param (got %s)" % rest)
        else:
            r4.ok(h.name, "new-default", "out-of-range -> Err(Param)")
    r6 = ctx.rule("R12.6", "history bound: every admitted match distance is at most dict.size (zero after a Full flush)", floor=3, config=cfg)
    dp.rule_history_bound(ctx, cfg, r6)
    from rules import tables as _tables
    r7 = ctx.rule("R12.7", "every block is coded with tables built for it: a fixed block rewrites the RFC 1951 lengths and rebuilds both code tables on every path "
                  "(flush points produce many small fixed blocks between dynamic ones)", floor=1, config=cfg)
    _tables.rule_fixed_tables_every_block(ctx, cfg, r7)
    r8 = ctx.rule("R12.8", "drain: with a flush requested the LZ routines return true only with an empty lookahead (else the block and marker are skipped silently)", floor=10, config=cfg)
    rule_drain(ctx, cfg, r8)
    r5 = ctx.rule("R12.5", "deflate(): exits of the driver loop (non-Finish flush leaves only on error, output full, input empty)", floor=8, config=cfg)
    c14.deflate_table(ctx, cfg, r5, r5, r5, r5)


# ---------------------------------------------------------------------------------------------- R12.8 drain under a flush
def rule_drain(ctx, cfg, r):
    """A flush point makes all input so far decodable only if the LZ routines hand `compress_inner` an EMPTY lookahead whenever a flush was
    requested: `compress_inner` emits the block and the marker under `lookahead_size == 0` and silently skips them otherwise.  For each flush
    value other than None, every path of compress_fast / compress_normal that returns plain `true` (not the result of a block flush that
    left output pending) has decided `lookahead_size == 0` for the value it stores back."""
    c = ctx.crate(cfg)
    E = ctx.effects(cfg)
    TF = discrs(c, "TDEFLFlush")
    fadt = c.adt("TDEFLFlush")
    co = c.adt("deflate::core::CompressorOxide")["path"]
    po = c.adt("deflate::core::ParamsOxide")["path"]
    do = c.adt("deflate::core::DictOxide")["path"]
    flush_pl = ("fld", ("fld", ("deref", P(1)), "params", co), "flush", po)
    la_pl = ("fld", ("fld", ("deref", P(1)), "dict", co), "lookahead_size", do)
    n = 0
    for fname in ("deflate::core::compress_fast", "deflate::core::compress_normal"):
        f = c.fn(fname)
        ctx.touched(f)
        for vname, dv in sorted(TF.items(), key=lambda kv: kv[1]):
            if vname == "None":
                continue
            st0 = {flush_pl: ("enum", fadt["path"], vname, dv)}
            # only the EXIT paths matter (loop head / entry -> loop test -> write-back -> return): they are short.  Paths through the
            # loop body are cut after 40 blocks (outcome 'stop') and are not judged here — the body's own exits (`break` under
            # flush == None, the block flush that leaves output pending) are the subject of R12.3 / R02.4.
            kw = dict(effects=E, max_paths=20000, max_blocks=40)
            try:
                rows = [(None, x) for x in paths.Evaluator(c, **kw).run(f, init_store=dict(st0))]
                heads = sorted({x.outcome[1] for _, x in rows if x.outcome[0] == "backedge"})
                allheads = heads
                for h in heads:
                    st = loop_invariant_store(c, f, h, init_store=st0, effects=E, max_paths=20000, max_blocks=60)
                    rows += [(h, x) for x in paths.Evaluator(c, stop_blocks=[q for q in allheads if q != h], **kw).run(f, start_bb=h, init_store=st)]
            except paths.PathLimit:
                r.fail(f.name, "drain-eval/%s" % vname, "the exit paths of %s could not be enumerated within the path limit" % f.name)
                continue
            seen = 0
            for h, x in rows:
                if x.outcome[0] != "return" or x.ret is None or not is_const(x.ret) or const_val(x.ret) != 1:
                    continue
                if any(a[0] == "discr" and "in_buf" in tstr(a) and getattr(s_, "iv", None) == ((0, 0),) for a, s_ in x.atoms):
                    continue      # no input buffer at all on this call: nothing was taken in, nothing to drain
                if x.calls():
                    continue      # went through (part of) the loop body: not an exit path
                seen += 1
                v = paths.final_value(x, la_pl)
                Z = ("int", 0)
                d = (x.facts.decide_cmp("Eq", v, Z) == 1 or x.facts.decide_cmp("Gt", v, Z) == 0 or x.facts.decide_cmp("Ne", v, Z) == 0
                     or (is_const(v) and const_val(v) == 0))
                if d:
                    n += 1
                else:
                    r.fail(f.name, "drain/%s" % vname, "flush = %s: a path returns true (from %s) while the lookahead it stores back (%s) is not "
                           "known to be empty: compress_inner then skips the block and the flush marker without an error, so the bytes "
                           "emitted so far do not decode to all input supplied so far: %s"
                           % (vname, "entry" if h is None else "loop head bb%d" % h, tstr(v)[:60], x.describe(8)))
            if seen:
                r.ok(f.name, "drain/%s" % vname, "%d true-returns under flush = %s all store an empty lookahead" % (seen, vname))
            else:
                r.fail(f.name, "drain-rows/%s" % vname, "no true-returning path found under flush = %s (anchor changed)" % vname)
    return n
