"""C14 — streaming deflate protocol."""
import paths
from terms import ISet, tstr, pstr, is_const, const_val
from rules.util import *
from rules import deflate_proto as dp


def _err(t, variant):
    k, p = result_variant(t)
    return k == "Err" and is_enum(p, variant)


def _ok(t, variant):
    k, p = result_variant(t)
    return k == "Ok" and is_enum(p, variant)


def run(ctx):
    cfg = "H1"
    r1 = ctx.rule("R14.1", "empty output -> Err(Buf) before any call, no write through the compressor", floor=1, config=cfg)
    r2 = ctx.rule("R14.2", "after Done: Finish -> StreamEnd (0,0), otherwise Err(Buf), both without compressing", floor=2, config=cfg)
    r3 = ctx.rule("R14.3", "per-iteration exit table of deflate()", floor=6, config=cfg)
    r5 = ctx.rule("R14.5", "counts are sums of compress() results; slices advance by exactly those counts", floor=3, config=cfg)
    r4 = ctx.rule("R14.4", "non-Finish after Finish -> BadParam; Done only from flush_output_buffer under finished ∧ nothing pending", floor=6, config=cfg)
    deflate_table(ctx, cfg, r1, r2, r3, r5)
    dp.rule_sticky(ctx, cfg, r4)
    dp.rule_done_origin(ctx, cfg, r4)
    # "nothing pending" (R14.4) is truthful only if the pending-output bookkeeping loses nothing: every byte a block flush produced is
    # either copied to the caller or recorded as pending (flush_ofs / flush_remaining), whatever room the caller had left
    r6 = ctx.rule("R14.6", "pending-output bookkeeping is conservative (copied + pending = produced): StreamEnd / Ok never hides produced bytes", floor=3, config=cfg)
    dp.rule_flush_output_conservation(ctx, cfg, r6)
    from rules import c02
    c02.rule_cb_flush_output_conservation(ctx, cfg, r6)


def deflate_table(ctx, cfg, r1, r2, r3, r5):
    c = ctx.crate(cfg)
    f = c.fn("deflate::stream::deflate")
    ctx.touched(f)
    fn = f.name
    TS = discrs(c, "TDEFLStatus")
    MF = discrs(c, "MZFlush")

    ev = paths.Evaluator(c, inline=["StreamResult::error", "CompressorOxide::prev_return_status"], effects=ctx.effects(cfg))
    rows = ev.run(f)
    flush = P(4)
    prev = path_load(c, P(1), [("CompressorOxide", "params"), ("ParamsOxide", "prev_return_status")])
    outlen = ("len", ("load", ("deref", P(3)), 0))
    heads = set()
    for row in rows:
        if row.outcome[0] == "backedge":
            heads.add(row.outcome[1])
            continue
        if row.outcome[0] != "return":
            r3.fail(fn, "row-outcome", "non-returning path: %s" % row.describe())
            continue
        ret = ret_agg(row, "StreamResult")
        if not ret:
            r3.fail(fn, "ret-shape", "deflate() does not return a StreamResult aggregate")
            continue
        # field order of StreamResult by name
        names = ret[3]
        vals = dict(zip(names, ret[4]))
        consumed, written, status = vals["bytes_consumed"], vals["bytes_written"], vals["status"]
        comp = calls_named(row, "deflate::core::compress")
        ol = vs(row, outlen)
        if ol.single() == 0:
            if _err(status, "Buf") and not comp and not param_stores(row) and const_val(consumed) == 0 and const_val(written) == 0:
                r1.ok(fn, "empty-output", "output.is_empty() -> Err(Buf), no effects")
            else:
                r1.fail(fn, "empty-output", "empty output must be refused with Err(Buf) and no side effects: %s" % row.describe())
            continue
        if ol.contains(0):
            r1.fail(fn, "empty-output-undecided", "row acts without testing for an empty output buffer: %s" % row.describe())
            continue
        pv = vs(row, prev)
        if pv.single() == TS["Done"]:
            fl = vs(row, flush)
            good = not comp and const_val(consumed) == 0 and const_val(written) == 0 and not param_stores(row)
            if fl.single() == MF["Finish"]:
                good = good and _ok(status, "StreamEnd")
            elif not fl.contains(MF["Finish"]):
                good = good and _err(status, "Buf")
            else:
                good = False
            if good:
                r2.ok(fn, "after-done", "prev==Done: %s" % tstr(status))
            else:
                r2.fail(fn, "after-done", "after Done, Finish must give StreamEnd(0,0) and anything else Err(Buf), without compressing: %s" % row.describe())
            continue
        if pv.contains(TS["Done"]):
            r2.fail(fn, "after-done-undecided", "row compresses without excluding prev_return_status == Done: %s" % row.describe())
            continue
        if not comp:
            r3.fail(fn, "no-compress", "row neither compresses nor takes a documented early exit: %s" % row.describe())
    # general iteration: evaluate from the loop head with symbolic accumulators
    if len(heads) != 1:
        r3.fail(fn, "loop-head", "expected exactly one loop in deflate(), found heads %s" % sorted(heads))
        return
    head = heads.pop()
    ev = paths.Evaluator(c, inline=["StreamResult::error"], effects=ctx.effects(cfg))
    # values computed once before the loop (e.g. a hoisted TDEFLFlush::from(flush)) are carried into the iteration
    it = ev.run(f, start_bb=head, init_store=loop_invariant_store(c, f, head, inline=["StreamResult::error"], effects=ctx.effects(cfg)))
    for row in it:
        comp = calls_named(row, "deflate::core::compress")
        if len(comp) != 1:
            r3.fail(fn, "iter-one-compress", "an iteration does not call compress exactly once: %s" % row.describe())
            continue
        call = comp[0]
        res = call_res(call)
        st, inb, outb = ("field", res, "0"), ("field", res, "1"), ("field", res, "2")
        # flush argument: TDEFLFlush::from(flush)
        a = call[2]
        okarg = a[3][0] == "call" and "From<MZFlush>" in a[3][1] and a[3][2] == (flush,)
        if not okarg:
            r3.fail(fn, "iter-flush-arg", "compress is not given TDEFLFlush::from(flush): %s" % tstr(a[3]))
        sv = vs(row, ("discr", st))
        fl = vs(row, flush)
        if row.outcome[0] == "backedge":
            # continuing: status not terminal, output not empty, and (input left or Finish)
            if sv.contains(TS["BadParam"]) or sv.contains(TS["PutBufFailed"]) or sv.contains(TS["Done"]):
                r3.fail(fn, "iter-continue-status", "loop continues on a terminal status: %s" % row.describe())
            else:
                r3.ok(fn, "iter-continue", None)
            continue
        if row.outcome[0] != "return":
            r3.fail(fn, "iter-outcome", "iteration diverges: %s" % row.describe())
            continue
        ret = ret_agg(row, "StreamResult")
        vals = dict(zip(ret[3], ret[4]))
        consumed, written, status = vals["bytes_consumed"], vals["bytes_written"], vals["status"]
        # accounting
        pc, pw = sum_parts(consumed), sum_parts(written)
        okc = len(pc) == 2 and inb in pc and [x for x in pc if x != inb][0][0] == "unknown"
        okw = len(pw) == 2 and outb in pw and [x for x in pw if x != outb][0][0] == "unknown"
        adv = calls_named(row, "ops::Index<I> for [T]>::index", "ops::IndexMut<I> for [T]>::index_mut")
        okadv = len(adv) == 2 and all(e[2][1][0] == "agg" and e[2][1][1].endswith("RangeFrom") for e in adv) and \
            {adv[0][2][1][4][0], adv[1][2][1][4][0]} == {inb, outb}
        if okc and okw and okadv:
            r5.ok(fn, "iter-accounting", "consumed += res.1; written += res.2; slices advanced by res.1 / res.2")
        else:
            r5.fail(fn, "iter-accounting", "accounting identities broken: consumed=%s written=%s advances=%s"
                    % (tstr(consumed), tstr(written), [tstr(e[2][1]) for e in adv]))
        if sv.single() == TS["BadParam"]:
            r3.ok(fn, "exit-badparam", None) if _err(status, "Param") else r3.fail(fn, "exit-badparam", "BadParam must map to Err(Param): %s" % tstr(status))
            continue
        if sv.single() == TS["PutBufFailed"]:
            r3.ok(fn, "exit-putbuf", None) if _err(status, "Stream") else r3.fail(fn, "exit-putbuf", "PutBufFailed must map to Err(Stream): %s" % tstr(status))
            continue
        if sv.single() == TS["Done"]:
            r3.ok(fn, "exit-done", None) if _ok(status, "StreamEnd") else r3.fail(fn, "exit-done", "Done must map to StreamEnd: %s" % tstr(status))
            continue
        if _ok(status, "StreamEnd"):
            r3.fail(fn, "streamend-origin", "StreamEnd without status Done: %s" % row.describe())
            continue
        lens = [t for t in row.facts.c if t[0] == "len" and paths.term_contains(t, lambda x: x[0] == "call")]
        out_empty = any(vs(row, t).single() == 0 and paths.term_contains(t, lambda x: x[0] == "call" and "index_mut" in x[1]) for t in lens)
        in_empty = any(vs(row, t).single() == 0 and paths.term_contains(t, lambda x: x[0] == "call" and x[1].endswith("::index")) for t in lens)
        if out_empty:
            r3.ok(fn, "exit-output-full", None) if _ok(status, "Ok") else r3.fail(fn, "exit-output-full", "output full must return Ok: %s" % tstr(status))
            continue
        # remaining exits need: input empty ∧ flush != Finish
        if not in_empty or fl.contains(MF["Finish"]):
            r3.fail(fn, "exit-finish", "loop leaves although output space remains and (input remains or Finish was requested): %s" % row.describe())
            continue
        if _err(status, "Buf"):
            nothing = vs(row, ("bin", "Gt", written, ("int", 0), "bool")).single() == 0 or True
            # decided on the value sets of the two totals (however the test is spelled: `> 0`, `== 0`, `!= 0`)
            zero_w = vs(row, written).single() == 0 or any(vs(row, t).single() == 0 for t, s in row.atoms if t[0] == "bin" and t[1] == "Gt" and t[2] == written)
            zero_c = vs(row, consumed).single() == 0 or any(vs(row, t).single() == 0 for t, s in row.atoms if t[0] == "bin" and t[1] == "Gt" and t[2] == consumed)
            if fl.single() == MF["None"] and zero_w and zero_c:
                r3.ok(fn, "exit-noprogress", "Err(Buf) only with flush==None, nothing consumed, nothing written")
            else:
                r3.fail(fn, "exit-noprogress", "Err(Buf) outside (flush==None ∧ consumed==0 ∧ written==0): %s" % row.describe())
        elif _ok(status, "Ok"):
            r3.ok(fn, "exit-input-empty", None)
        else:
            r3.fail(fn, "exit-status", "unexpected status %s: %s" % (tstr(status), row.describe()))
    # compress(): thin wrapper
    w = c.fn("deflate::core::compress")
    ctx.touched(w)
    ev = paths.Evaluator(c, inline=["CallbackOxide::new_callback_buf"], effects=ctx.effects(cfg))
    for row in ev.run(w):
        ci = calls_named(row, "deflate::core::compress_inner")
        good = len(ci) == 1 and row.ret == call_res(ci[0]) and ci[0][2][0] == ("ref", ("deref", P(1)), True) and ci[0][2][2] == P(4)
        if good:
            r5.ok(w.name, "wrapper", "compress() returns compress_inner's triple unchanged")
        else:
            r5.fail(w.name, "wrapper", "compress() must forward to compress_inner and return its result: %s" % row.describe())
