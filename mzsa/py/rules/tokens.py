"""R03.5 — reconstruction of literals, match lengths and distances from decoded symbols, on the fast path (decompress_fast) and the
slow path (the states of decompress_with_limit), and the bit accounting that goes with it.

What is decided (structure of the value terms on every path, RFC 1951 §3.2.5):
  * bits are consumed exactly as used: the bit buffer is shifted and the bit count reduced by the same amounts in the same order; every
    table lookup sees the buffer at the current cursor and is followed by the consumption of its own code length; every extra-bits field
    is `buffer_at_cursor & ((1 << n) - 1)` followed by the consumption of the same n;
  * length  = LENGTH_BASE[i] + extra(n = LENGTH_EXTRA[i]) with i = sym - 257 for sym in 257..285 (index expression evaluated);
  * distance = DIST_BASE[d] + extra(n = num_extra_bits_for_distance_code(d)) with d the decoded distance symbol;
  * the copy is apply_match(out, position, distance, length) and the position advances by the length; literals written are the
    decoded literal symbols, each once, in order.
The table contents themselves are R03.1; the tree walk inside `lookup` / `decode_huffman_code` is not decided here."""
import os
import sys
import paths
import sm
import termeval
from terms import ISet, tstr, pstr, is_const, const_val
from rules.util import *
from rules import inflate_core as ic

sys.path.insert(0, os.path.join(os.path.dirname(os.path.dirname(os.path.dirname(os.path.abspath(__file__)))), "tables"))
import rfc  # noqa: E402


def uncast(t):
    while t and t[0] == "cast":
        t = t[1]
    return t


def chain(t, op):
    """(base, [amounts]) for nested (((base op a1) op a2) ...)"""
    t = uncast(t)
    amts = []
    while t and t[0] == "bin" and t[1] == op:
        amts.append(uncast(t[3]))
        t = uncast(t[2])
    return t, list(reversed(amts))


def flat_sum(t):
    t = uncast(t)
    if t and t[0] == "bin" and t[1] == "Add":
        return flat_sum(t[2]) + flat_sum(t[3])
    return [t]


def extraction(t):
    """t = C & ((1 << n) - 1)  ->  (C, n) else None"""
    t = uncast(t)
    if not (t and t[0] == "bin" and t[1] == "BitAnd"):
        return None
    for c_, m in ((t[2], t[3]), (t[3], t[2])):
        m = uncast(m)
        if m and m[0] == "bin" and m[1] == "Sub" and is_const(m[3]) and const_val(m[3]) == 1:
            sh = uncast(m[2])
            if sh and sh[0] == "bin" and sh[1] == "Shl" and is_const(sh[2]) and const_val(sh[2]) == 1:
                return c_, uncast(sh[3])
    return None


def is_index_of(t, const_suffix):
    t = uncast(t)
    return bool(t) and t[0] == "pure" and t[1] == "index" and t[2][0][0] == "constarr" and str(t[2][0][1]).endswith(const_suffix)


def call_field(t):
    """t = field k of the result of a call -> (call term, k)"""
    t = uncast(t)
    if t and t[0] == "field" and t[1] and t[1][0] == "call":
        k = t[2]
        return t[1], (int(k) if isinstance(k, str) and k.isdigit() else k)
    return None


def table_no(arg):
    """index of the Huffman table a `&r.tables[k]` argument refers to"""
    for st in paths.subterms(arg):
        if st and st[0] in ("cidx", "idx") and isinstance(st[1], tuple) and st[1] and st[1][0] == "fld" and st[1][2] == "tables":
            k = st[2]
            if isinstance(k, int):
                return k
            if is_const(k):
                return const_val(k)
    return None


def eval_with(term, sym_term, value):
    def leaf(q):
        if q == sym_term or uncast(q) == uncast(sym_term):
            return str(value)
        raise termeval.Unsupported(tstr(q))
    return eval(termeval.compile_term(term, leaf), {"_sx": termeval._sx, "min": min, "max": max, "int": int,
                                                    "_rem": termeval._rem, "_div": termeval._div})


def sym_leaf(idx_term):
    """the decoded-symbol leaf inside an index expression: a call-result field or a load"""
    leaves = [st for st in paths.subterms(idx_term) if st and st[0] in ("field", "load", "unknown", "call")]
    # outermost leaf kinds only
    top = []
    for l in leaves:
        if not any(l is not m and paths.term_contains(m, lambda y, l=l: y == l) for m in leaves):
            top.append(l)
    return top[0] if len(top) == 1 else (top[0] if top and all(t == top[0] for t in top) else None)


def check_length_value(r, fn, what, L, x, len_extra_ok):
    """L = LENGTH_BASE[i] (+ extraction with n = LENGTH_EXTRA[i]); i maps sym 257..285 -> sym-257.  Returns (sym leaf, n term or None)"""
    parts = flat_sum(L)
    base = [p for p in parts if is_index_of(p, "LENGTH_BASE")]
    rest = [p for p in parts if not is_index_of(p, "LENGTH_BASE")]
    if len(base) != 1 or len(rest) > 1:
        r.fail(fn, what, "match length %s is not LENGTH_BASE[i] plus at most one extra-bits field" % tstr(L)[:200], path=row_path(x, 6))
        return None
    idx = uncast(base[0])[2][1]
    sym = sym_leaf(idx)
    if sym is None:
        r.fail(fn, what, "no single decoded symbol found in the length index %s" % tstr(idx)[:160])
        return None
    try:
        okidx = all(eval_with(idx, sym, s | hi) == s - 257 for s in range(257, 286) for hi in (0, 1 << 9, 7 << 9))
    except Exception as e:
        r.fail(fn, what, "length index %s cannot be evaluated (%s)" % (tstr(idx)[:160], e))
        return None
    if not okidx:
        r.fail(fn, what, "length index %s does not map symbols 257..285 to entries 0..28" % tstr(idx)[:160], path=row_path(x, 6))
        return None
    return sym, idx, (rest[0] if rest else None)


def rule_fast_tokens(ctx, cfg, r):
    c = ctx.crate(cfg)
    E = ctx.effects(cfg)
    f = c.fn("inflate::core::decompress_fast")
    ctx.touched(f)
    ev = paths.Evaluator(c, effects=E, pure_calls=list(sm.PURE) + ["inflate::core::fill_bit_buffer"],
                         inline=["inflate::core::State::begin"], max_paths=8000)
    rows = ev.run(f)
    fn = f.name
    n_match = n_lit = 0
    for x in rows:
        if x.outcome[0] == "diverge":
            continue
        bb = nb = None
        for k, v in x.store.items():
            if isinstance(k, tuple) and k and k[0] == "fld" and k[3].endswith("LocalVars"):
                if k[2] == "bit_buf":
                    bb = v
                if k[2] == "num_bits":
                    nb = v
        lookups = [e for e in x.effects if e[0] == "call" and e[1].endswith("HuffmanTable::lookup")]
        if bb is None and nb is None and not lookups:
            continue
        # ---- 1. bit accounting
        b_base, N = chain(bb, "Shr") if bb is not None else (None, [])
        n_base, S = chain(nb, "Sub") if nb is not None else (None, [])
        okb = (bb is None or (b_base[0] == "load" and paths.place_is_field(b_base[1], "bit_buf"))) and \
              (nb is None or (n_base[0] == "load" and paths.place_is_field(n_base[1], "num_bits")))
        if not okb or [uncast(a) for a in N] != [uncast(a) for a in S]:
            r.fail(fn, "bits/accounting", "the bit buffer is shifted by %s but the bit count is reduced by %s on this path: the two "
                   "must consume the same amounts in the same order" % ([tstr(a)[:40] for a in N], [tstr(a)[:40] for a in S]),
                   where=first_span(x), path=row_path(x, 8))
            continue
        used = [None] * len(N)
        ok = True

        def cursor(cterm):
            """position k such that cterm == bit_buf shifted by N[:k]"""
            base, am = chain(cterm, "Shr")
            if base != b_base and not (b_base is None and base[0] == "load" and paths.place_is_field(base[1], "bit_buf")):
                return None
            if [uncast(a) for a in am] != [uncast(a) for a in N[:len(am)]]:
                return None
            return len(am)
        # ---- 2. lookups at the cursor, followed by their own code length
        for e in lookups:
            k = cursor(e[2][1])
            res = call_res(e)
            if k is None or k >= len(N) or call_field(N[k]) != (res, 1) or used[k] is not None:
                r.fail(fn, "bits/lookup", "a table lookup reads %s, which is not the bit buffer at the current cursor, or is not followed by the "
                       "consumption of its own code length (consumed: %s)" % (tstr(e[2][1])[:120], [tstr(a)[:30] for a in N]),
                       where=e[3], path=row_path(x, 8))
                ok = False
                break
            used[k] = ("lookup", e)
        if not ok:
            continue
        # ---- 3. extra-bit fields
        fields = {}
        values = [v for k, v in x.store.items() if isinstance(k, tuple) and k and k[0] == "fld" and k[2] in ("counter", "dist")]
        for e in x.effects:
            if e[0] == "call" and e[1].endswith(("apply_match", "set_position", "write_byte")):
                values += list(e[2])
        for v in values:
            for st in paths.subterms(v):
                ex = extraction(st)
                if ex:
                    fields[uncast(st)] = ex
        for st, (cterm, n) in fields.items():
            k = cursor(cterm)
            if k is None or k >= len(N) or uncast(N[k]) != uncast(n) or (used[k] is not None and used[k] != ("extra", st)):
                r.fail(fn, "bits/extra", "an extra-bits field %s is not `buffer at cursor & ((1 << n) - 1)` followed by the consumption of the same n "
                       "(consumed: %s)" % (tstr(st)[:160], [tstr(a)[:30] for a in N]), where=first_span(x), path=row_path(x, 8))
                ok = False
                break
            used[k] = ("extra", st)
        if not ok:
            continue
        if any(u is None for u in used):
            k = used.index(None)
            r.fail(fn, "bits/unused", "%s bits are consumed on this path without being the code length of a lookup or the width of an extra-bits field"
                   % tstr(N[k])[:80], where=first_span(x), path=row_path(x, 8))
            continue
        r.ok(fn, "bits/accounting", "consumed %d fields, each at the cursor" % len(N))
        # ---- 4. literals
        wb = [e for e in x.effects if e[0] == "call" and e[1].endswith("OutputBuffer::write_byte")]
        lits = []
        for e in lookups:
            res = call_res(e)
            if table_no(e[2][0]) != 0:
                continue
            for a, s in x.atoms:
                if a[0] == "bin" and a[1] == "Ne" and is_const(a[3]) and const_val(a[3]) == 0 and s.single() == 0:
                    m = uncast(a[2])
                    if m[0] == "bin" and m[1] == "BitAnd" and is_const(m[3]) and const_val(m[3]) == 256 and call_field(m[2]) == (res, 0):
                        lits.append(res)
        written = [call_field(e[2][1]) for e in wb]
        if written != [(l, 0) for l in lits]:
            r.fail(fn, "literal", "the bytes written (%s) are not the decoded literal symbols of this path (%s), each once and in order"
                   % ([tstr(e[2][1])[:40] for e in wb], [tstr(("field", l, 0))[:40] for l in lits]), where=first_span(x), path=row_path(x, 8))
        elif wb:
            n_lit += 1
            r.ok(fn, "literal", "%d literal(s) written = decoded symbols" % len(wb))
        # ---- 5. match
        am = [e for e in x.effects if e[0] == "call" and e[1].endswith("inflate::core::apply_match")]
        if not am:
            continue
        n_match += 1
        e = am[0]
        pos, D, L = e[2][1], e[2][2], e[2][3]
        lv = check_length_value(r, fn, "length", L, x, None)
        if lv is None:
            continue
        sym, idx, lextra = lv
        cf = call_field(sym)
        src = [q for q in lookups if cf and call_res(q) == cf[0]]
        if not (cf and cf[1] == 0 and src and table_no(src[0][2][0]) == 0):
            r.fail(fn, "length", "the length symbol %s is not the result of a literal/length table lookup" % tstr(sym)[:80], path=row_path(x, 6))
            continue
        want_n = None
        for st in paths.subterms(("tuple", tuple(v for v in values))):
            pass
        nx_zero = any(is_index_of(a, "LENGTH_EXTRA") and uncast(a)[2][1] == idx and s.single() == 0
                      for a0, s in x.atoms for a in ([uncast(a0[2])] if a0[0] == "bin" and a0[1] == "Ne" and is_const(a0[3]) and const_val(a0[3]) == 0 else []))
        if lextra is None:
            if not nx_zero:
                r.fail(fn, "length", "no extra bits are added to the length although LENGTH_EXTRA[i] is not known to be 0 on this path", path=row_path(x, 8))
                continue
        else:
            ex = extraction(lextra)
            if not ex or not (is_index_of(ex[1], "LENGTH_EXTRA") and uncast(ex[1])[2][1] == idx):
                r.fail(fn, "length", "the term added to the length base, %s, is not an extra-bits field of width LENGTH_EXTRA[i] for the same i"
                       % tstr(lextra)[:160], path=row_path(x, 8))
                continue
        # distance
        parts = flat_sum(D)
        base = [p for p in parts if is_index_of(p, "DIST_BASE")]
        rest = [p for p in parts if not is_index_of(p, "DIST_BASE")]
        if len(base) != 1 or len(rest) > 1:
            r.fail(fn, "distance", "match distance %s is not DIST_BASE[d] plus at most one extra-bits field" % tstr(D)[:200], path=row_path(x, 6))
            continue
        didx = uncast(base[0])[2][1]
        dsym = sym_leaf(didx)
        cf = call_field(dsym) if dsym is not None else None
        src = [q for q in lookups if cf and call_res(q) == cf[0]]
        okd = bool(cf and cf[1] == 0 and src and table_no(src[0][2][0]) == 1)
        try:
            okd = okd and all(eval_with(didx, dsym, s | hi) == s for s in range(30) for hi in (0, 1 << 9))
        except Exception:
            okd = False
        nx = [q for q in x.effects if q[0] == "call" and q[1].endswith("num_extra_bits_for_distance_code")]
        try:
            okn = len(nx) == 1 and all(eval_with(nx[0][2][0], dsym, s | hi) == s for s in range(30) for hi in (0, 1 << 9))
        except Exception:
            okn = False
        if not okd or not okn:
            r.fail(fn, "distance", "the distance base index %s / the argument of num_extra_bits_for_distance_code do not both equal the symbol decoded "
                   "from the distance table" % tstr(didx)[:120], path=row_path(x, 8))
            continue
        nres = call_res(nx[0])
        dz = any(a[0] == "bin" and a[1] == "Ne" and uncast(a[2]) == nres and is_const(a[3]) and const_val(a[3]) == 0 and s.single() == 0 for a, s in x.atoms)
        if rest:
            ex = extraction(rest[0])
            if not ex or uncast(ex[1]) != nres:
                r.fail(fn, "distance", "the term added to the distance base, %s, is not an extra-bits field of width num_extra_bits_for_distance_code(d)"
                       % tstr(rest[0])[:160], path=row_path(x, 8))
                continue
        elif not dz:
            r.fail(fn, "distance", "no extra bits are added to the distance although their number is not known to be 0 on this path", path=row_path(x, 8))
            continue
        # copy and advance
        sp = [q for q in x.effects if q[0] == "call" and q[1].endswith("OutputBuffer::set_position") and q[4] > e[4]]
        adv = flat_sum(sp[0][2][1]) if sp else []
        okadv = bool(sp) and len(adv) >= 2 and adv[0] == uncast(pos) and flat_sum(("bin", "Add", adv[1], ("int", 0)))[:-1] == flat_sum(L) if False else \
            bool(sp) and sorted(map(repr, adv)) == sorted(map(repr, [uncast(pos)] + flat_sum(L)))
        ispos = uncast(pos)[0] in ("pure", "call") and "position" in str(uncast(pos)[1])
        if okadv and ispos:
            r.ok(fn, "match", "apply_match(out, position, DIST_BASE[d]+extra, LENGTH_BASE[i]+extra); position += length")
        else:
            r.fail(fn, "match", "after the copy the output position is set to %s, not position + length" % (tstr(sp[0][2][1])[:200] if sp else "(nothing)"),
                   path=row_path(x, 8))
    if n_match < 4 or n_lit < 2:
        r.fail(fn, "rows", "expected at least 4 match rows and 2 literal rows in decompress_fast, found %d / %d" % (n_match, n_lit))


def rule_slow_tokens(ctx, cfg, r):
    M = ic.machine(ctx, cfg)
    fn = M.fn.name

    def final(x, field):
        for k, v in x.store.items():
            if isinstance(k, tuple) and k and k[0] == "fld" and k[2] == field and k[3].endswith("LocalVars"):
                return v
        return None

    def is_ld(t, field):
        t = uncast(t)
        return bool(t) and t[0] == "load" and paths.place_is_field(t[1], field)
    # S1 HuffDecodeOuterLoop1: base and extra from the same index
    n = 0
    for x in M.arm_rows("HuffDecodeOuterLoop1"):
        if x.kind != "jump" or x.target not in ("ReadExtraBitsLitlen", "DecodeDistance"):
            continue
        n += 1
        cv, ne = final(x, "counter"), final(x, "num_extra")
        if cv is None or ne is None or not is_index_of(ne, "LENGTH_EXTRA"):
            r.fail(fn, "slow/length-base", "HuffDecodeOuterLoop1 does not set counter / num_extra from the length tables (%s, %s)"
                   % (tstr(cv)[:80] if cv else None, tstr(ne)[:80] if ne else None), path=row_path(x, 6))
            continue
        lv = check_length_value(r, fn, "slow/length-base", cv, x, None)
        if lv is None:
            continue
        sym, idx, extra = lv
        if extra is not None or uncast(ne)[2][1] != idx or not is_ld(sym, "counter"):
            r.fail(fn, "slow/length-base", "length base and extra-bit count are not taken from the same table index of the decoded symbol", path=row_path(x, 6))
            continue
        nz = [s.single() for a, s in x.atoms if a[0] == "bin" and a[1] == "Ne" and uncast(a[2]) == uncast(ne) and is_const(a[3]) and const_val(a[3]) == 0]
        want = 1 if x.target == "ReadExtraBitsLitlen" else 0
        if nz and nz[-1] == want:
            r.ok(fn, "slow/length-base", "counter = LENGTH_BASE[sym-257], num_extra = LENGTH_EXTRA[sym-257]; extra bits read iff num_extra != 0")
        else:
            r.fail(fn, "slow/length-base", "the extra-bits state is entered / skipped on the wrong side of num_extra != 0", path=row_path(x, 6))
    if n < 2:
        r.fail(fn, "slow/length-base-rows", "HuffDecodeOuterLoop1 rows not found")
    # S2 / S4 extra bits added
    for arm, field, nxt in (("ReadExtraBitsLitlen", "counter", "DecodeDistance"), ("ReadExtraBitsDistance", "dist", "HuffDecodeOuterLoop2")):
        k = 0
        for x in M.arm_rows(arm):
            if x.kind != "jump":
                continue
            k += 1
            rb = calls_named(x, "inflate::core::read_bits")
            v = final(x, field)
            parts = flat_sum(v) if v is not None else []
            okv = len(parts) == 2 and any(is_ld(p, field) for p in parts) and any(p[0] == "unknown" and str(p[1]).startswith("arg:read_bits") for p in parts)
            okn = len(rb) == 1 and is_ld(rb[0][2][1], "num_extra")
            if okv and okn and x.target == nxt:
                r.ok(fn, "slow/%s" % arm, "%s += read_bits(num_extra)" % field)
            else:
                r.fail(fn, "slow/%s" % arm, "%s must add exactly the num_extra bits read to %s and continue with %s (value %s, width %s, target %s)"
                       % (arm, field, nxt, tstr(v)[:100] if v else None, tstr(rb[0][2][1])[:60] if rb else None, x.target), path=row_path(x, 6))
        if k < 1:
            r.fail(fn, "slow/%s-rows" % arm, "no row of %s continues" % arm)
    # S3 DecodeDistance
    k = 0
    for x in M.arm_rows("DecodeDistance"):
        if x.kind != "jump" or x.target not in ("ReadExtraBitsDistance", "HuffDecodeOuterLoop2"):
            continue
        k += 1
        dv, ne = final(x, "dist"), final(x, "num_extra")
        nx = calls_named(x, "num_extra_bits_for_distance_code")
        good = dv is not None and is_index_of(dv, "DIST_BASE") and len(nx) == 1 and ne is not None and uncast(ne) == call_res(nx[0])
        if good:
            didx = uncast(dv)[2][1]
            dsym = sym_leaf(didx)
            try:
                good = dsym is not None and all(eval_with(didx, dsym, s) == s for s in range(30)) and \
                    all(eval_with(nx[0][2][0], dsym, s) == s for s in range(30))
            except Exception:
                good = False
        nz = [s.single() for a, s in x.atoms if a[0] == "bin" and a[1] == "Ne" and ne is not None and uncast(a[2]) == uncast(ne) and is_const(a[3]) and const_val(a[3]) == 0]
        want = 1 if x.target == "ReadExtraBitsDistance" else 0
        if good and nz and nz[-1] == want:
            r.ok(fn, "slow/distance-base", "dist = DIST_BASE[sym], num_extra = num_extra_bits_for_distance_code(sym); extra bits read iff non-zero")
        else:
            r.fail(fn, "slow/distance-base", "DecodeDistance does not derive dist / num_extra from the same decoded distance symbol (dist %s, num_extra %s)"
                   % (tstr(dv)[:100] if dv else None, tstr(ne)[:80] if ne else None), path=row_path(x, 6))
    if k < 2:
        r.fail(fn, "slow/distance-rows", "DecodeDistance rows not found")
    # S5 HuffDecodeOuterLoop2: whole-match copy
    k = 0
    for x in M.arm_rows("HuffDecodeOuterLoop2"):
        am = calls_named(x, "inflate::core::apply_match")
        if not am:
            continue
        k += 1
        e = am[0]
        pos, D, L = e[2][1], e[2][2], e[2][3]
        sp = [q for q in calls_named(x, "OutputBuffer::set_position") if q[4] > e[4]]
        adv = flat_sum(sp[0][2][1]) if sp else []
        ok = is_ld(D, "dist") and is_ld(L, "counter") and bool(sp) and \
            sorted(map(repr, adv)) == sorted(map(repr, [uncast(pos), uncast(L)])) and "position" in str(uncast(pos)[1] if uncast(pos)[0] in ("pure", "call") else "")
        if ok and x.kind == "jump" and x.target == "DecodeLitlen":
            r.ok(fn, "slow/match", "apply_match(out, position, dist, counter); position += counter")
        else:
            r.fail(fn, "slow/match", "the whole-match copy is not apply_match(out, position, dist, counter) followed by position += counter "
                   "(dist %s, len %s, new position %s)" % (tstr(D)[:60], tstr(L)[:60], tstr(sp[0][2][1])[:100] if sp else None), path=row_path(x, 6))
    if k < 1:
        r.fail(fn, "slow/match-rows", "no row of HuffDecodeOuterLoop2 copies a match")
    # S6 WriteLenBytesToEnd: partial copy with a persisted remainder
    k = 0
    for x in M.arm_rows("WriteLenBytesToEnd"):
        tr = calls_named(x, "inflate::core::transfer")
        if not tr:
            continue
        k += 1
        e = tr[0]
        src, dst, ln = uncast(e[2][1]), uncast(e[2][2]), uncast(e[2][3])
        oksrc = src[0] == "bin" and src[1] == "BitAnd" and paths.term_contains(src[2], lambda y: y[0] == "pure" and y[1] == "wrapping_sub") and \
            paths.term_contains(src[2], lambda y: is_ld(y, "dist"))
        okln = ln[0] == "pure" and ln[1] == "min" and any(is_ld(q, "counter") for q in ln[2])
        sp = [q for q in calls_named(x, "OutputBuffer::set_position") if q[4] > e[4]]
        okpos = bool(sp) and sorted(map(repr, flat_sum(sp[0][2][1]))) == sorted(map(repr, [dst, ln]))
        cv = final(x, "counter")
        okcnt = cv is not None and uncast(cv)[0] == "bin" and uncast(cv)[1] == "Sub" and is_ld(uncast(cv)[2], "counter") and uncast(uncast(cv)[3]) == ln
        if oksrc and okln and okpos and okcnt:
            r.ok(fn, "slow/partial", "transfer(out, (position - dist) & mask, position, n = min(space, counter)); position += n; counter -= n")
        else:
            r.fail(fn, "slow/partial", "the partial copy does not keep source/length/remainder consistent (source ok %s, length ok %s, position ok %s, "
                   "remainder ok %s)" % (oksrc, okln, okpos, okcnt), path=row_path(x, 6))
    if k < 1:
        r.fail(fn, "slow/partial-rows", "no row of WriteLenBytesToEnd copies")
    # S7 literal on the slow path
    k = 0
    for x in M.arm_rows("WriteSymbol"):
        wb = calls_named(x, "OutputBuffer::write_byte")
        if not wb:
            continue
        k += 1
        if is_ld(wb[0][2][1], "counter") and x.kind == "jump" and x.target == "DecodeLitlen":
            r.ok(fn, "slow/literal", "WriteSymbol writes counter as the literal byte")
        else:
            r.fail(fn, "slow/literal", "WriteSymbol writes %s" % tstr(wb[0][2][1])[:80], path=row_path(x, 6))
    if k < 1:
        r.fail(fn, "slow/literal-rows", "WriteSymbol never writes")
