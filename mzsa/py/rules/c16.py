"""C16 — checksums: call shape of the update functions, single writers of the running sums, C wrappers (structural clauses)."""
import paths
from mir import callee_name, callee_id
from terms import tstr, is_const, const_val
from rules.util import *
from rules import inflate_core as ic
from rules import c09
from rules import c17


def shape_update(ctx, cfg, r, crate, fn_name, lib, ctor, feed, fin, extra=()):
    c = crate
    f = c.fn(fn_name)
    ctx.touched(f)
    ev = paths.Evaluator(c, extra_crates=list(extra))
    rows = [x for x in ev.run(f) if x.outcome[0] == "return"]
    good = len(rows) == 1
    why = "more than one path"
    if good:
        x = rows[0]
        calls = [e for e in x.effects if e[0] == "call"]
        names = [e[1] for e in calls]
        libcalls = [e for e in calls if e[1].startswith(lib)]
        good = len(libcalls) == 3 and libcalls[0][1].endswith(ctor) and libcalls[1][1].endswith(feed) and libcalls[2][1].endswith(fin)
        why = "calls into %s are %s" % (lib, [n.split("::")[-1] for n in names])
        if good:
            h0 = call_res(libcalls[0])
            # from_checksum(param0); write(&mut hash, param1 itself); result of checksum()/finish() returned unchanged
            fin_arg = libcalls[2][2][0]
            same_obj = (fin_arg[0] == "ref" and fin_arg[1] == libcalls[1][2][0][1]) or (fin_arg[0] == "load" and fin_arg[1] == libcalls[1][2][0][1])
            good = libcalls[0][2] == (P(1),) and libcalls[1][2][1] == ("ref", ("deref", P(2)), False) and \
                libcalls[1][2][0][0] == "ref" and same_obj and x.ret == call_res(libcalls[2])
            why = "arguments/result: %s -> %s" % ([[tstr(a)[:40] for a in e[2]] for e in libcalls], tstr(x.ret)[:60])
    if good:
        r.ok(f.name, "shape[%s]" % cfg, "%s(seed) . %s(data) . %s() with the seed and data passed through unchanged" % (ctor, feed, fin))
    else:
        r.fail(f.name, "shape[%s]" % cfg, "checksum update is not exactly %s(seed); %s(data); %s() — %s" % (ctor, feed, fin, why))
    # only function of the crate calling into the library
    others = []
    for g in c.fns.values():
        if g.kind == "promoted" or g.id == f.id:
            continue
        for bb, t in g.calls():
            if callee_name(t["call"]).startswith(lib):
                others.append(g.name)
    if others:
        r.fail("<crate>", "only-caller[%s]" % cfg, "%s is also used directly by %s" % (lib, sorted(set(others))[:4]))
    else:
        r.ok("<crate>", "only-caller[%s]" % cfg, "%s is the only caller into %s" % (f.name, lib))


def rule_wrappers(ctx, r):
    c = ctx.crate("CAPI")
    mo = ctx.crate("CAPI", "miniz_oxide")
    for name, oxide, init in (("c_export::mz_adler32", "mz_adler32_oxide", mo.const_int("MZ_ADLER32_INIT")),
                              ("c_export::mz_crc32", "mz_crc32_oxide", c.const_int("MZ_CRC32_INIT"))):
        f = c.fn(name)
        ctx.touched(f)
        ev = paths.Evaluator(c, extra_crates=[mo])
        nn = nok = 0
        for x in ev.run(f):
            if x.outcome[0] != "return":
                continue
            isn = vs(x, ("pure", "is_null", (P(2),))).single()
            if isn == 1:
                nn += 1
                if is_const(x.ret) and const_val(x.ret) == init and not x.calls():
                    r.ok(f.name, "null", "NULL -> initial value %d" % init)
                else:
                    r.fail(f.name, "null", "NULL buffer must return the initial checksum value %d: %s" % (init, tstr(x.ret)))
            elif isn == 0:
                nok += 1
                frp = [e for e in x.effects if e[0] == "call" and e[1].endswith("from_raw_parts")]
                ox = [e for e in x.effects if e[0] == "call" and (e[1].endswith(oxide) or (oxide == "mz_adler32_oxide" and e[1].endswith("update_adler32")))]
                good = len(frp) == 1 and frp[0][2] == (P(2), P(3)) and len(ox) == 1 and \
                    ox[0][2][0] == ("cast", P(1), "u32", "int") and paths.term_contains(ox[0][2][1], lambda y: y == call_res(frp[0])) and \
                    x.ret == ("cast", call_res(ox[0]), "u64", "widen")
                if good:
                    r.ok(f.name, "data", "%s(x as u32, from_raw_parts(ptr, len)) widened" % oxide)
                else:
                    r.fail(f.name, "data", "%s does not forward (value as u32, the (ptr, len) slice) and widen the result: %s" % (name, x.describe(6)))
            else:
                r.fail(f.name, "null-undecided", "a path uses the buffer without testing the pointer")
        if nn != 1 or nok != 1:
            r.fail(f.name, "rows", "expected one NULL row and one data row (got %d / %d)" % (nn, nok))
    # mz_adler32_oxide forwards to update_adler32
    g = c.fn("mz_adler32_oxide", required=False)
    if g is not None:
        ev = paths.Evaluator(c, extra_crates=[mo])
        okk = False
        for x in ev.run(g):
            up = [e for e in x.effects if e[0] == "call" and e[1].endswith("update_adler32")]
            okk = len(up) == 1 and up[0][2][0] == P(1) and x.ret == call_res(up[0])
        r.ok(g.name, "forward", "mz_adler32_oxide = update_adler32") if okk else r.fail(g.name, "forward", "mz_adler32_oxide does not forward to update_adler32 unchanged")


def rule_decoder_sum(ctx, cfg, r):
    """R16.2 decoder half: writers of check_adler32."""
    c = ctx.crate(cfg)
    E = ctx.effects(cfg)
    loc = (c.adt("inflate::core::DecompressorOxide")["path"], "check_adler32")
    M = ic.machine(ctx, cfg)
    # in the state machine only Start writes it (to the initial value)
    okk = True
    n = 0
    for arm, x in ic.all_rows(M):
        for e in store_to_field(x, "check_adler32", "DecompressorOxide"):
            n += 1
            if not (arm == "Start" and is_const(e[2]) and const_val(e[2]) == c.const_int("MZ_ADLER32_INIT")):
                okk = False
                r.fail(M.fn.name, "writer/" + arm, "check_adler32 is written in state %s with %s" % (arm, tstr(e[2])))
    if okk and n:
        r.ok(M.fn.name, "start-writer", "inside the state machine only Start writes check_adler32 (= 1)")
    names = sorted({c.fns[w].name for w in E.writers(loc) if w in c.fns})
    allowed_direct = {"inflate::core::decompress_with_limit", "inflate::core::DecompressorOxide::from_block_boundary_state",
                      "<inflate::core::DecompressorOxide as core::default::Default>::default"}
    direct = []
    for w in names:
        f = c.fn(w, required=False)
        if f is None:
            continue
        if stores_to(E, f, "DecompressorOxide", "check_adler32") or any(
                "agg" in s["a"][1] and s["a"][1]["agg"].get("def", "").endswith("DecompressorOxide") for blk in f.blocks for s in blk["s"] if "a" in s):
            direct.append(w)
    extra = [d for d in direct if d not in allowed_direct and "Clone" not in d and "closure" not in d and "Deserialize" not in d and "serde" not in d]
    # a helper the reference tree does not have is evaluated inline by the state-machine rows above (its stores were judged there, in
    # the arm that calls it) — provided nothing but an allowed writer or another such helper calls it
    extra = [d for d in extra if not helper_only_called_from(c, d, allowed_direct)]
    if extra:
        r.fail("<crate>", "direct-writers", "check_adler32 is assigned directly in %s" % extra)
    else:
        r.ok("<crate>", "direct-writers", "direct writers: %s" % direct)


def run(ctx):
    r1 = ctx.rule("R16.1", "update functions are seed -> feed(data) -> finish on the library hasher, identically with and without simd", floor=5)
    h1 = ctx.crate("H1")
    shape_update(ctx, "H1", r1, h1, "shared::update_adler32", "adler2::", "Adler32::from_checksum", "Adler32::write_slice", "Adler32::checksum")
    h5 = ctx.crate("H5")
    shape_update(ctx, "H5", r1, h5, "shared::update_adler32", "simd_adler32::", "Adler32::from_checksum", "Adler32::write", "Adler32::finish")
    capi = ctx.crate("CAPI")
    shape_update(ctx, "CAPI", r1, capi, "c_export::mz_crc32_oxide", "crc32fast::", "Hasher::new_with_initial", "Hasher::update", "Hasher::finalize",
                 extra=[ctx.crate("CAPI", "miniz_oxide")])
    r2 = ctx.rule("R16.2", "running sums have a single data-path writer fed with exactly the bytes consumed / produced", floor=4)
    c09.rule_adler_running(ctx, "H1", r2)
    rule_decoder_sum(ctx, "H1", r2)
    ic.rule_adler_epilogue(ctx, "H1", r2)
    r3 = ctx.rule("R16.3", "mz_adler32 / mz_crc32: NULL -> initial value, otherwise the oxide function on (value as u32, slice), result widened", floor=4, config="CAPI")
    rule_wrappers(ctx, r3)
    r4 = ctx.rule("R16.4", "stream.adler is refreshed from the state after every mz_deflate / mz_inflate", floor=2, config="CAPI")
    c17.rule_accounting(ctx, r4)
    if ctx.thorough():
        h6 = ctx.crate("H6")
        shape_update(ctx, "H6", r1, h6, "shared::update_adler32", "simd_adler32::", "Adler32::from_checksum", "Adler32::write", "Adler32::finish")
