"""C07 — suspend/resume anywhere (structural clauses)."""
from rules import inflate_core as ic


def run(ctx):
    cfgs = ["H1"] + (["T1"] if ctx.thorough() else [])
    for cfg in cfgs:
        sfx = "" if cfg == "H1" else "@" + cfg
        r1 = ctx.rule("R07.1" + sfx, "decoder registers are loaded from and stored back to the persistent state around every call", floor=3, config=cfg)
        ic.rule_localvars(ctx, cfg, r1)
        r2 = ctx.rule("R07.2" + sfx, "no hidden loop-carried state in the decode loop", floor=1, config=cfg)
        ic.rule_loop_state(ctx, cfg, r2)
        r3 = ctx.rule("R07.3" + sfx, "HasMoreOutput overrides NeedsMoreInput when the output window is full", floor=1, config=cfg)
        ic.rule_override(ctx, cfg, r3)
        r4 = ctx.rule("R07.4" + sfx, "clean suspension: a state that returns needs-more-input / has-more-output has modified nothing but the bit buffer and input position", floor=40, config=cfg)
        ic.rule_clean_suspension(ctx, cfg, r4)
        r6 = ctx.rule("R07.6" + sfx, "bytes handed back at a suspension leave no bits behind: the saved bit buffer is masked to the lowered num_bits", floor=4, config=cfg)
        ic.rule_handback_mask(ctx, cfg, r6)
        r8 = ctx.rule("R07.8" + sfx, "a state that hands look-ahead bytes back inside the decode loop masks bit_buf to the lowered num_bits", floor=1, config=cfg)
        ic.rule_handback_mask_arms(ctx, cfg, r8)
        r5 = ctx.rule("R07.5" + sfx, "multi-byte fields (zlib trailer, stored-block header) are collected through a persisted counter, one byte per step", floor=6, config=cfg)
        ic.rule_counted_bytes(ctx, cfg, r5)
        ic.rule_counted_bytes(ctx, cfg, r5, arm="RawHeader", limit=4, acc_field=None)
        r9 = ctx.rule("R07.9" + sfx, "input conservation: a byte taken from the input iterator is in the decoder state, handed to a continuation or "
                      "returned when the path leaves the function — never only in a temporary at a suspension", floor=7, config=cfg)
        ic.rule_input_conservation(ctx, cfg, r9)
    # the streaming wrapper: the window hand-off between calls (a later call never abandons the 32 KiB window for the caller's buffer)
    from rules import c13
    c13.run_cfg(ctx, "H1", only=("R13.8", "R13.6"), prefix="R07.7/")
