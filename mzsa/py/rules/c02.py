"""C02 — streaming compression: structural clauses (write-back, pending-output discipline, sticky Finish,
final-block gating, conservation of pending output, bit carry)."""
import paths
import writeback
from mir import Place, callee_name
from terms import ISet, tstr, pstr, is_const, const_val
from rules.util import *
from rules import deflate_proto as dp

ROUTINES = {"deflate::core::compress_normal": 6, "deflate::core::compress_fast": 3, "deflate::stored::compress_stored": 4}


def rule_writeback(ctx, cfg, r):
    c = ctx.crate(cfg)
    E = ctx.effects(cfg)
    for name, want in ROUTINES.items():
        f = c.fn(name)
        ctx.touched(f)
        cands, finds = writeback.analyse(E, f)
        if len(cands) < want:
            r.fail(f.name, "candidates", "only %d cached-field locals recognised (reference tree: %d): %s"
                   % (len(cands), want, [(f.local_name(l), loc[1]) for l, loc in cands]))
        bad = {}
        for x in finds:
            what = "%s.%s %s%s" % (x["loc"][0].split("::")[-1], x["loc"][1], x["kind"],
                                   (":" + x["callee"]) if x["callee"] else "")
            bad.setdefault(what, x)
        for (l, loc) in cands:
            mine = [k for k in bad if k.startswith("%s.%s " % (loc[0].split("::")[-1], loc[1]))]
            if not mine:
                r.ok(f.name, "%s.%s" % (loc[0].split("::")[-1], loc[1]),
                     "cached in `%s`: clean at every return and at every call that may read it" % f.local_name(l))
        for what, x in bad.items():
            r.fail(f.name, what, "cached copy `%s` of %s.%s is %s" % (
                f.local_name(x["local"]), x["loc"][0].split("::")[-1], x["loc"][1],
                {"dirty-at-return": "not written back before a return",
                 "dirty-at-call": "not written back before calling %s, which may read the field" % x["callee"],
                 "clobber": "stored over a value a callee has changed since it was loaded"}[x["kind"]]), x["where"])


def rule_inert_update_size(ctx, cfg, r):
    """precondition of the reviewed assumption on compress_fast: CallbackOxide.in_buf_size is always None."""
    c = ctx.crate(cfg)
    n = 0
    for f in c.fns.values():
        if f.kind == "promoted":
            continue
        for bb, blk in enumerate(f.blocks):
            for s in blk["s"]:
                if "a" in s and "agg" in s["a"][1] and s["a"][1]["agg"].get("def", "").endswith("deflate::core::CallbackOxide"):
                    a = s["a"][1]["agg"]
                    n += 1
                    idx = a["fields"].index("in_buf_size")
                    op = a["ops"][idx]
                    okk = False
                    pl = op.get("c") or op.get("m")
                    if pl is not None and not pl["p"]:
                        defs = f.defs().get(pl["l"], [])
                        if len(defs) == 1 and defs[0][1] != "t":
                            rv = f.blocks[defs[0][0]]["s"][defs[0][1]]["a"][1]
                            okk = "agg" in rv and rv["agg"].get("variant") == "None"
                    if okk:
                        r.ok(f.name, "in_buf_size-none", "CallbackOxide{ in_buf_size: None }", s.get("sp"))
                    else:
                        r.fail(f.name, "in_buf_size-none", "CallbackOxide is built with in_buf_size other than None: the reviewed "
                               "assumption on compress_fast (src_pos stored after flush_block) no longer holds", s.get("sp"))
    E = ctx.effects(cfg)
    ws = [w for w in E.writers((c.adt("deflate::core::CallbackOxide")["path"], "in_buf_size"))]
    # writes through the held reference (update_size) are fine; re-assignments of the field itself are not
    if n < 2:
        r.fail("<crate>", "in_buf_size-sites", "fewer than 2 CallbackOxide construction sites found (%d)" % n)


def rule_result_discipline(ctx, cfg, r):
    """5.3: every flush_block result is inspected; non-zero / Err leads to a return; in-loop calls pass None."""
    c = ctx.crate(cfg)
    E = ctx.effects(cfg)
    TF = discrs(c, "TDEFLFlush")
    want_sites = {"deflate::core::compress_normal": 1, "deflate::core::compress_fast": 2,
                  "deflate::stored::compress_stored": 1}
    callers = callers_of(c, "deflate::core::flush_block")
    allowed = set(want_sites) | {"deflate::core::compress_inner"}
    for cn in callers:
        if cn not in allowed:
            r.fail(cn, "unexpected-caller", "flush_block is called from a function outside the reviewed set %s" % sorted(allowed))
    for name, n in want_sites.items():
        f = c.fn(name)
        sites = call_sites(f, "deflate::core::flush_block")
        if len(sites) < n:
            r.fail(f.name, "site-count", "%d flush_block call sites, reference tree has %d" % (len(sites), n))
        for k, (bb, t) in enumerate(sites):
            ev = paths.Evaluator(c, effects=E, max_paths=4000, max_blocks=14)
            # evaluate from the call block: rows must return when the result is Err / non-zero
            # the walk is cut at any later flush_block call or back edge
            rows = ev.run(f, start_bb=bb)
            good = True
            why = ""
            cont = 0
            for row in rows:
                calls = calls_named(row, "deflate::core::flush_block")
                if not calls:
                    continue
                res = call_res(calls[0])
                arg = calls[0][2][2]
                if not (arg[0] == "enum" and arg[2] == "None"):
                    good, why = False, "in-loop flush_block must be given TDEFLFlush::None, got %s" % tstr(arg)
                    break
                d = vs(row, ("discr", res))
                if len(calls) > 1 or row.outcome[0] != "return":
                    # continuing: requires Ok(0)  (n == 0)
                    # result may have been unwrapped through unwrap_or(PutBufFailed as i32)
                    zero = False
                    for a, s in row.atoms:
                        if paths.term_contains(a, lambda x: x == res or (x[0] == "call" and x[1].endswith("unwrap_or") and x[2][0] == res)):
                            if a[0] == "bin" and a[1] in ("Ne", "Eq") and is_const(a[3]) and const_val(a[3]) == 0:
                                v = vs(row, a).single()
                                if (a[1] == "Ne" and v == 0) or (a[1] == "Eq" and v == 1):
                                    zero = True
                    if not zero:
                        # however the test is spelled (`n != 0`, `n > 0 .. else if n < 0`, a match): the value set of the result
                        # (or of its unwrapped form) on this path must be exactly {0}
                        subjects = set()
                        for a, s in row.atoms:
                            for st in paths.subterms(a):
                                if st and ((st[0] == "field" and paths.term_contains(st, lambda x: x == res)) or
                                           (st[0] == "call" and st[1].endswith("unwrap_or") and st[2][0] == res)):
                                    subjects.add(st)
                        ok_disc = d.single() == 0 or any(st[0] == "call" for st in subjects)
                        zero = ok_disc and any(vs(row, st).single() == 0 for st in subjects)
                    if not zero:
                        good, why = False, "execution continues after flush_block without establishing result == 0: %s" % row.describe(20)
                        break
                    cont += 1
            if good and cont == 0:
                good, why = False, "no continuing path after flush_block recognised"
            if good:
                r.ok(f.name, "flush_block-site#%d" % k, "result tested: non-zero/Err returns, zero continues; flush arg None", t.get("sp"))
            else:
                r.fail(f.name, "flush_block-site#%d" % k, why, t.get("sp"))


def rule_flush_output_returns(ctx, cfg, r):
    """the i32 returned by flush_output is flush_remaining (so `== 0` means nothing pending) or a negative status."""
    c = ctx.crate(cfg)
    E = ctx.effects(cfg)
    for name in ("deflate::core::CallbackBuf::flush_output", "deflate::core::CallbackFunc::flush_output",
                 "deflate::core::CallbackOxide::flush_output"):
        f = c.fn(name)
        ctx.touched(f)
        ev = paths.Evaluator(c, effects=E)
        for row in ev.run(f):
            if row.outcome[0] != "return":
                continue
            ret = row.ret
            okk = False
            if ret[0] == "cast":
                inner = ret[1]
                # value of flush_remaining at the end of the row
                st = store_to_field(row, "flush_remaining", "ParamsOxide")
                if st:
                    okk = inner == st[-1][2]
                else:
                    okk = paths.is_load_of(inner, "flush_remaining", "ParamsOxide")
                if inner[0] == "discr":
                    sp = store_to_field(row, "prev_return_status", "ParamsOxide")
                    okk = bool(sp) and sp[-1][2][0] == "enum" and sp[-1][2][3] < 0
            elif is_const(ret):
                okk = const_val(ret) < 0
            elif ret[0] == "call" and ret[1].endswith("::flush_output"):
                okk = True
            if okk:
                r.ok(f.name, "returns-remaining", None)
            else:
                r.fail(f.name, "returns-remaining", "flush_output must return flush_remaining as i32 (or a negative status): %s" % tstr(ret))


def rule_cb_flush_output_conservation(ctx, cfg, r):
    """R02.7, CallbackBuf::flush_output: copied + pending = produced."""
    c = ctx.crate(cfg)
    E = ctx.effects(cfg)
    f = c.fn("deflate::core::CallbackBuf::flush_output")
    ev = paths.Evaluator(c, effects=E)
    saved = P(2)   # SavedOutputBufferOxide by value
    p = P(3)
    ofs0 = fld(c, p, "ParamsOxide", "out_buf_ofs", 0)
    n_local = n_direct = 0
    for row in ev.run(f):
        if row.outcome[0] != "return":
            continue
        so = store_to_field(row, "out_buf_ofs", "ParamsOxide")
        if not so:
            r.fail(f.name, "advance", "out_buf_ofs is not advanced on a row: %s" % row.describe())
            continue
        parts = sum_parts(so[-1][2])
        inc = [x for x in parts if x != ofs0]
        if len(parts) != 2 or len(inc) != 1:
            r.fail(f.name, "advance", "out_buf_ofs is not advanced by a single amount: %s" % tstr(so[-1][2]))
            continue
        n = inc[0]
        local_atoms = [(a, s) for a, s in row.atoms if a[0] == "field" and a[2] == "local"]
        is_local = any(s.single() == 1 for a, s in local_atoms)
        pos = ("field", saved, "pos")
        if is_local:
            n_local += 1
            okn = n[0] == "pure" and n[1] == "min" and pos in n[2] and any(
                x[0] == "bin" and x[1] == "Sub" and x[2][0] == "len" and x[3] == ofs0 for x in n[2])
            cp = calls_named(row, "slice::<impl [T]>::copy_from_slice")
            okc = len(cp) == 1 and paths.term_contains(cp[0][2][1], lambda y: y[0] == "agg" and y[1].endswith("RangeTo") and y[4] == (n,)) and \
                paths.term_contains(cp[0][2][0], lambda y: y[0] == "agg" and y[1].endswith("ops::range::Range") and y[4][0] == ofs0 and
                                    sorted(map(repr, sum_parts(y[4][1]))) == sorted(map(repr, [ofs0, n])))
            sfo = store_to_field(row, "flush_ofs", "ParamsOxide")
            srem = store_to_field(row, "flush_remaining", "ParamsOxide")
            full = vs(row, ("bin", "Ne", pos, n, "bool")).single()
            # iff pos != n: flush_ofs = n, flush_remaining = pos - n
            neq = None
            for a, s in row.atoms:
                if a[0] == "bin" and a[1] in ("Ne", "Eq") and {a[2], a[3]} == {pos, n}:
                    v = s.single()
                    neq = (v == 1) if a[1] == "Ne" else (v == 0)
            def narrow(x):
                return x[1] if x[0] == "cast" else x
            if neq is True:
                okp = sfo and narrow(sfo[-1][2]) == n and srem and narrow(srem[-1][2]) == ("bin", "Sub", pos, n, "usize")
            elif neq is False:
                okp = not sfo and not srem
            else:
                okp = False
            if okn and okc and okp:
                r.ok(f.name, "local-row", "n=min(pos, len-ofs) copied from local_buf[..n]; pos≠n ⇒ flush_ofs=n, flush_remaining=pos-n")
            else:
                r.fail(f.name, "local-row", "local-buffer flush is not conservative (n ok=%s copy ok=%s pending ok=%s): %s"
                       % (okn, okc, bool(okp), row.describe()))
        else:
            n_direct += 1
            if n == pos and not store_to_field(row, "flush_remaining", "ParamsOxide") and not calls_named(row, "copy_from_slice"):
                r.ok(f.name, "direct-row", "!local: out_buf_ofs += pos, nothing pending")
            else:
                r.fail(f.name, "direct-row", "direct-buffer flush must add exactly saved_output.pos: %s" % row.describe())
    if not n_local or not n_direct:
        r.fail(f.name, "rows", "expected both a local and a direct row (local=%d direct=%d)" % (n_local, n_direct))
    # reviewed assumption of R02.5: local == false only when len - ofs >= OUT_BUF_SIZE
    g = c.fn("deflate::core::CallbackOut::new_output_buffer")
    ctx.touched(g)
    ev = paths.Evaluator(c, effects=E)
    OUT = c.const_int("deflate::buffer::OUT_BUF_SIZE")
    seen = 0
    for row in ev.run(g):
        if row.outcome[0] != "return":
            continue
        ret = ret_agg(row, "OutputBufferOxide")
        if not ret:
            r.fail(g.name, "ret", "new_output_buffer does not return an OutputBufferOxide aggregate")
            continue
        vals = dict(zip(ret[3], ret[4]))
        loc = vals.get("local")
        if is_const(loc) and const_val(loc) == 0:
            seen += 1
            okk = any(a[0] == "bin" and a[1] == "Ge" and is_const(a[3]) and const_val(a[3]) == OUT and s.single() == 1 and
                      a[2][0] == "bin" and a[2][1] == "Sub" and a[2][2][0] == "len" and a[2][3] == P(3)
                      for a, s in row.atoms)
            if okk and const_val(vals["inner_pos"]) == 0:
                r.ok(g.name, "direct-needs-space", "local=false only under len - ofs >= OUT_BUF_SIZE")
            else:
                r.fail(g.name, "direct-needs-space", "direct output chosen without len - out_buf_ofs >= OUT_BUF_SIZE: %s" % row.describe())
    if not seen:
        r.fail(g.name, "direct-row-missing", "no row of new_output_buffer selects the caller's buffer")


_fb = {}


def _fb_rows(ctx, cfg):
    """rows of flush_block with the bit writer's save() evaluated inline"""
    if cfg not in _fb:
        c = ctx.crate(cfg)
        f = c.fn("deflate::core::flush_block")
        _fb[cfg] = paths.Evaluator(c, effects=ctx.effects(cfg), max_paths=20000, inline=["OutputBufferOxide::save"]).run(f)
    return _fb[cfg]


def rule_bit_carry(ctx, cfg, r):
    """R02.8: bit buffer state is carried between blocks through params.saved_bit_buffer / saved_bits_in."""
    c = ctx.crate(cfg)
    E = ctx.effects(cfg)
    f = c.fn("deflate::core::flush_block")
    ctx.touched(f)
    writers = ("OutputBufferOxide::put_bits", "OutputBufferOxide::put_bits_no_flush", "OutputBufferOxide::pad_to_bytes",
               "OutputBufferOxide::write_bytes", "deflate::core::compress_block", "OutputBufferOxide::save",
               "OutputBufferOxide::load", "OutputBufferOxide::is_byte_aligned")
    wsites = call_sites(f, *writers) + call_sites(f, "deflate::core::compress_lz_codes", "HuffmanOxide::start_static_block", "HuffmanOxide::start_dynamic_block")
    for fieldname, saved in (("bit_buffer", "saved_bit_buffer"), ("bits_in", "saved_bits_in")):
        # initialisation: output.<field> = d.params.<saved> dominates every writer call
        inits = []
        for bb, i, s in stores_to(E, f, "OutputBufferOxide", fieldname):
            rv = s["a"][1]
            if "use" in rv and writeback.loaded_loc(E, f, rv["use"]) and writeback.loaded_loc(E, f, rv["use"])[1] == saved:
                inits.append(bb)
        if not inits:
            r.fail(f.name, "init-" + fieldname, "output.%s is not initialised from params.%s" % (fieldname, saved))
        else:
            bad = [t.get("sp") for bb, t in wsites if not any(f.dominates(ib, bb) and ib != bb or
                                                              (ib == bb) for ib in inits)]
            if bad:
                r.fail(f.name, "init-" + fieldname, "a bit-writing call is not dominated by the initialisation of output.%s" % fieldname, bad[0])
            else:
                r.ok(f.name, "init-" + fieldname, "output.%s = params.%s dominates all %d writer calls" % (fieldname, saved, len(wsites)))
        # write-back: on every path to the Ok return params.<saved> ends up holding the FINAL value of output.<field> (taken after the
        # last bit-writing call) — through save(), a struct literal or a direct copy alike
        n_ok = 0
        bad = None
        for x in _fb_rows(ctx, cfg):
            if x.outcome[0] != "return" or not (x.ret and x.ret[0] == "agg" and x.ret[2] == "Ok"):
                continue
            n_ok += 1
            sv = [v for k, v in x.store.items() if isinstance(k, tuple) and k and k[0] == "fld" and k[2] == saved and k[3].endswith("ParamsOxide")]
            if not sv:
                sts_ = store_to_field(x, saved, "ParamsOxide")
                sv = [sts_[-1][2]] if sts_ else []
            outs = {k[1] for k in x.store if isinstance(k, tuple) and k and k[0] == "fld" and k[2] == fieldname and k[3].endswith("OutputBufferOxide")}
            for v in sv:
                for q in paths.subterms(v):
                    if q[0] == "load" and q[1][0] == "fld" and q[1][2] == fieldname and q[1][3].endswith("OutputBufferOxide"):
                        outs.add(q[1][1])
            ty = c.adt("deflate::core::OutputBufferOxide")["path"]
            if not sv or not any(sv[-1] == paths.final_value(x, ("fld", o, fieldname, ty)) for o in outs):
                bad = (x, sv[-1] if sv else None)
        if n_ok and bad is None:
            r.ok(f.name, "save-" + saved, "params.%s holds the final output.%s on every path to the Ok return (%d paths)" % (saved, fieldname, n_ok))
        elif not n_ok:
            r.fail(f.name, "save-" + saved, "params.%s is never saved / no Ok return found" % saved)
        else:
            r.fail(f.name, "save-" + saved, "params.%s is not left holding the final value of output.%s on a path to the Ok return (it holds %s): bits "
                   "written to the block after that point are lost, or the next block starts from stale bits"
                   % (saved, fieldname, tstr(bad[1])[:80] if bad[1] is not None else "nothing new"), where=first_span(bad[0]), path=row_path(bad[0], 6))


def _from_calls(fn, local, suffix, depth=0):
    """every definition of `local` is (a copy of) the result of a call to `suffix`"""
    defs = fn.defs().get(local, [])
    if not defs or depth > 6:
        return False
    for bb, i in defs:
        if i == "t":
            if not paths._sfx(callee_name(fn.blocks[bb]["t"]["call"]), suffix):
                return False
            continue
        rv = fn.blocks[bb]["s"][i]["a"][1]
        p = writeback.operand_place(rv["use"]) if "use" in rv else None
        if p is None or not _from_calls(fn, p.local, suffix, depth + 1):
            return False
    return True


def rule_returns(ctx, cfg, r):
    """R02.5 (reporting half): compress_inner reports (status, params.src_pos, params.out_buf_ofs)."""
    c = ctx.crate(cfg)
    f, rows = dp.inner_rows(ctx, cfg)
    for row in rows:
        if row.outcome[0] != "return":
            continue
        ret = row.ret
        ops = tuple_ops(ret)
        if ret[0] == "call" and ret[1].endswith("flush_output_buffer"):
            r.ok(f.name, "ret-flush_output_buffer", None)
        elif ops and is_enum(ops[0], "BadParam") and const_val(ops[1]) == 0 and const_val(ops[2]) == 0:
            r.ok(f.name, "ret-badparam", None)
        elif ops and paths.is_load_of(ops[1], "src_pos", "ParamsOxide") and paths.is_load_of(ops[2], "out_buf_ofs", "ParamsOxide") and \
                (paths.is_load_of(ops[0], "prev_return_status", "ParamsOxide") or is_enum(ops[0], "PutBufFailed")):
            r.ok(f.name, "ret-fields", "(prev_return_status, src_pos, out_buf_ofs)")
        else:
            r.fail(f.name, "ret", "compress_inner returns something other than (status, src_pos, out_buf_ofs): %s" % tstr(ret))


def run(ctx):
    cfg = "H1"
    r1 = ctx.rule("R02.1", "cached state is written back before every return and before calls that read it", floor=13, config=cfg)
    rule_writeback(ctx, cfg, r1)
    rule_inert_update_size(ctx, cfg, r1)
    r2 = ctx.rule("R02.2", "flush_block is never entered with output pending (result discipline; callers; zero means nothing pending)", floor=8, config=cfg)
    rule_result_discipline(ctx, cfg, r2)
    rule_flush_output_returns(ctx, cfg, r2)
    r3 = ctx.rule("R02.3", "sticky Finish / error gate of compress_inner; pending output only drained", floor=20, config=cfg)
    dp.rule_sticky(ctx, cfg, r3)
    r4 = ctx.rule("R02.4", "final flush_block only with flush≠None, empty lookahead, no input left, nothing pending; finished set after success", floor=4, config=cfg)
    dp.rule_final_block(ctx, cfg, r4)
    r5 = ctx.rule("R02.5", "reported positions are the stored src_pos / out_buf_ofs; direct output only with room for a whole block", floor=4, config=cfg)
    rule_returns(ctx, cfg, r5)
    r7 = ctx.rule("R02.7", "pending-output bookkeeping is conservative (copied + pending = produced)", floor=3, config=cfg)
    dp.rule_flush_output_conservation(ctx, cfg, r7)
    rule_cb_flush_output_conservation(ctx, cfg, r7)
    r8 = ctx.rule("R02.8", "bit buffer carried between blocks through params.saved_bit_buffer / saved_bits_in", floor=4, config=cfg)
    rule_bit_carry(ctx, cfg, r8)
    from rules import c01 as _c01
    from rules import deflate_proto as _dp
    r10 = ctx.rule("R02.10", "dictionary invariants that every resumed call relies on: wrap-around mirror kept at every dictionary writer (also the "
                   "start-of-stream / after-Full-flush refill), dict.size clamped after every refill", floor=8, config=cfg)
    _c01.rule_mirror(ctx, cfg, r10)
    _dp.rule_window_accounting(ctx, cfg, r10)
    from rules import bitacc as _bitacc
    r11 = ctx.rule("R02.11", "bit accumulator of compress_lz_codes: the bits appended between two flushes, plus what a flush leaves behind, fit its width", floor=6, config=cfg)
    _bitacc.rule_accumulator(ctx, cfg, r11)
    from rules import lzbuf as _lzbuf
    rcap = ctx.rule("R02.12", "LZ token buffer capacity: the bytes one loop iteration may append never exceed the margin of its fullness test", floor=4, config=cfg)
    _lzbuf.rule_token_buffer_capacity(ctx, cfg, rcap)
    r9 = ctx.rule("R02.9", "Done (end of stream) is reported only once finished ∧ nothing pending", floor=3, config=cfg)
    dp.rule_done_origin(ctx, cfg, r9)
    if ctx.thorough():
        r1t = ctx.rule("R02.1@T1", "write-back on the 32-bit build", floor=13, config="T1")
        rule_writeback(ctx, "T1", r1t)
