"""C13 — streaming inflate protocol (decision tables of inflate() and one iteration of inflate_loop())."""
import paths
import slices
from terms import ISet, tstr, pstr, is_const, const_val
from rules.util import *


def _err(t, variant):
    k, p = result_variant(t)
    return k == "Err" and is_enum(p, variant)


def _ok(t, variant):
    k, p = result_variant(t)
    return k == "Ok" and is_enum(p, variant)


def run(ctx):
    configs = ["H1"] + (["H0", "T1"] if ctx.thorough() else [])
    for cfg in configs:
        run_cfg(ctx, cfg)


def latest_loads(row, field):
    """loads of `field` known to the row that carry its most recent epoch (the value in force at the end of the path)"""
    ls = [t for t in row.facts.c if t[0] == "load" and t[1][0] == "fld" and t[1][2] == field]
    if not ls:
        return []
    m = max(t[2] for t in ls)
    return [t for t in ls if t[2] == m]


def run_cfg(ctx, cfg, only=None, prefix=""):
    """`only` / `prefix`: another property (C05: failed streams stay failed) reuses a subset of these rules under its own rule ids"""
    import core as _core

    def mk(rid, title, floor=None, config=None):
        base = rid.split("@")[0]
        if only is not None and base not in only:
            return _core.Rule(ctx, rid, title, None, config)       # evaluated but not registered
        return ctx.rule(prefix + rid, title, floor=floor, config=config)
    c = ctx.crate(cfg)
    sfx = "" if cfg == "H1" else "@" + cfg
    FULL, FINISH = discr(c, "MZFlush", "Full"), discr(c, "MZFlush", "Finish")
    ST = discrs(c, "TINFLStatus")
    FCMP, DONE, NMI = ST["FailedCannotMakeProgress"], ST["Done"], ST["NeedsMoreInput"]
    f = c.fn("inflate::stream::inflate")
    ctx.touched(f)
    ev = paths.Evaluator(c, inline=["StreamResult::error"], effects=ctx.effects(cfg))
    rows = ev.run(f)
    flush = P(4)
    state = P(1)
    last0 = fld(c, state, "InflateState", "last_status", 0)
    hasfl0 = fld(c, state, "InflateState", "has_flushed", 0)
    first0 = fld(c, state, "InflateState", "first_call", 0)
    davail0 = fld(c, state, "InflateState", "dict_avail", 0)
    fn = f.name

    r1 = mk("R13.1" + sfx, "flush == Full -> Err(Stream) with no state write and no decode", floor=1, config=cfg)
    r2 = mk("R13.2" + sfx, "sticky errors: CannotMakeProgress -> Err(Buf), negative status -> Err(Data), before any decode", floor=2, config=cfg)
    r3 = mk("R13.3" + sfx, "has_flushed gating and update; first_call consumed on every non-Full row", floor=4, config=cfg)
    r6 = mk("R13.6" + sfx, "StreamEnd only with status Done and an empty pending window; pending window delivered before decoding", floor=4, config=cfg)
    r7 = mk("R13.7" + sfx, "reported counts are sums of the counts returned by the layer below", floor=3, config=cfg)
    r8 = mk("R13.8" + sfx, "first-call Finish path ends in StreamEnd or leaves a negative last_status (buffer modes never mix)", floor=3, config=cfg)
    r4 = mk("R13.4" + sfx, "every decompress() result is stored to last_status on all paths", floor=2, config=cfg)
    r5 = mk("R13.5" + sfx, "status -> MZError mapping agrees between the first-call path and inflate_loop", floor=4, config=cfg)

    decode_calls = ("inflate::core::decompress", "inflate::stream::inflate_loop", "inflate::stream::push_dict_out")
    n_full = 0
    for i, row in enumerate(rows):
        if row.outcome[0] != "return":
            r1.fail(fn, "row-outcome", "inflate() has a path that does not return: %s" % row.describe())
            continue
        ret = ret_agg(row, "StreamResult")
        if ret is None:
            r1.fail(fn, "row-ret", "inflate() returns something that is not a StreamResult aggregate: %s" % row.describe())
            continue
        consumed, written, status = ret[4]
        fs = vs(row, flush)
        is_full = fs.single() == FULL
        if is_full:
            n_full += 1
            okk = (_err(status, "Stream") and const_val(consumed) == 0 and const_val(written) == 0
                   and not param_stores(row) and not row.calls())
            if okk:
                r1.ok(fn, "full-row", "flush==Full: %s, no effects" % tstr(status), first_span(row))
            else:
                r1.fail(fn, "full-row", "flush == Full row must return Err(Stream),(0,0) without touching state: %s; effects=%s"
                        % (row.describe(), [pstr(e[1]) for e in param_stores(row)] + [e[1] for e in row.calls()]))
            continue
        if fs.contains(FULL):
            r1.fail(fn, "full-not-first", "a row does not distinguish flush == Full before acting: %s" % row.describe())
            continue
        # ---- non-Full rows: first_call consumed
        fc = store_to_field(row, "first_call", "InflateState")
        if fc and is_const(fc[0][2]) and const_val(fc[0][2]) == 0:
            r3.ok(fn, "first_call-cleared", None)
        else:
            r3.fail(fn, "first_call-cleared", "first_call is not cleared on a non-Full row: %s" % row.describe())
        ls = vs(row, last0)
        decoded = calls_named(row, *decode_calls)
        # ---- sticky errors
        if ls.single() == FCMP:
            if _err(status, "Buf") and not decoded and const_val(consumed) == 0 and const_val(written) == 0:
                r2.ok(fn, "sticky-buf", "last_status==FailedCannotMakeProgress -> Err(Buf), nothing decoded")
            else:
                r2.fail(fn, "sticky-buf", "last_status == FailedCannotMakeProgress must give Err(Buf) before any decode: %s" % row.describe())
            continue
        if ls.hi() is not None and ls.hi() < 0:
            if _err(status, "Data") and not decoded and const_val(consumed) == 0 and const_val(written) == 0:
                r2.ok(fn, "sticky-data", "last_status<0 -> Err(Data), nothing decoded")
            else:
                r2.fail(fn, "sticky-data", "negative last_status must give Err(Data) before any decode: %s" % row.describe())
            continue
        if ls.lo() is not None and ls.lo() < 0:
            r2.fail(fn, "sticky-undecided", "a row proceeds without excluding a negative last_status: %s" % row.describe())
            continue
        # ---- has_flushed gating
        hf = vs(row, hasfl0)
        if hf.single() == 1 and not fs.contains(FINISH):
            if _err(status, "Stream") and not decoded:
                r3.ok(fn, "flushed-gate", "has_flushed && flush!=Finish -> Err(Stream)")
            else:
                r3.fail(fn, "flushed-gate", "non-Finish call after Finish must give Err(Stream) without decoding: %s" % row.describe())
            continue
        if hf.contains(1) and hf.single() is None and not fs.single() == FINISH:
            r3.fail(fn, "flushed-undecided", "a row proceeds without testing has_flushed: %s" % row.describe())
            continue
        hs = store_to_field(row, "has_flushed", "InflateState")
        good = False
        eqfin = ("bin", "Eq", flush, enum_term(c, "MZFlush", "Finish"), "bool")
        def norm(parts):
            true = False
            syms = set()
            for x in parts:
                d = const_val(x) if is_const(x) else vs(row, x).single()
                if d is None:
                    syms.add(repr(x))
                elif d:
                    true = True
            return (True, frozenset()) if true else (False, frozenset(syms))
        want = norm([hasfl0, eqfin])
        for e in hs:
            good = good or norm(or_parts(e[2])) == want
        if not hs:
            # no store on this path: the field keeps its value, which is right exactly when old | (flush == Finish) == old here
            good = norm([hasfl0]) == want
        if good:
            r3.ok(fn, "flushed-update", None)
        else:
            r3.fail(fn, "flushed-update", "has_flushed is not updated with (flush == Finish): %s stores=%s"
                    % (row.describe(), [tstr(e[2]) for e in hs]))
        # ---- the three continuations
        dec = calls_named(row, "inflate::core::decompress")
        loop = calls_named(row, "inflate::stream::inflate_loop")
        push = calls_named(row, "inflate::stream::push_dict_out")
        if dec:
            # first-call Finish path
            if not (fs.single() == FINISH and vs(row, first0).single() == 1):
                r8.fail(fn, "direct-decode-gate", "direct decode into the caller's buffer outside (Finish ∧ first_call): %s" % row.describe())
                continue
            call = dec[0]
            res = ("call", call[1], call[2], call[4])
            st_t = ("field", res, "0")
            # R13.4 last_status = status
            lss = store_to_field(row, "last_status", "InflateState")
            if lss and lss[0][2] == st_t:
                r4.ok(fn, "first-call-store", "last_status = decompress(..).0", lss[0][3])
            else:
                r4.fail(fn, "first-call-store", "result of decompress() is not stored to last_status: %s" % row.describe())
            # flags: non-wrapping buffer, output position 0
            flags = call[2][4]
            pos = call[2][3]
            NONWRAP = c.const_int("inflate_flags::TINFL_FLAG_USING_NON_WRAPPING_OUTPUT_BUF")
            if is_const(flags) and const_val(flags) & NONWRAP and is_const(pos) and const_val(pos) == 0:
                r8.ok(fn, "direct-decode-flags", None)
            else:
                r8.fail(fn, "direct-decode-flags", "direct decode must use the non-wrapping flag and position 0: flags=%s pos=%s" % (tstr(flags), tstr(pos)))
            # R13.7 counts
            if sum_parts(consumed) == [("field", res, "1")] and sum_parts(written) == [("field", res, "2")]:
                r7.ok(fn, "first-call-counts", "(%s, %s)" % (tstr(consumed), tstr(written)))
            else:
                r7.fail(fn, "first-call-counts", "counts are not exactly the decoder's counts: (%s, %s)" % (tstr(consumed), tstr(written)))
            # mapping + R13.8
            sv = vs(row, st_t)
            final_ls = lss[-1][2] if lss else None
            if sv.single() == FCMP:
                okk = _err(status, "Buf")
                r5.ok(fn, "first-call-map-FCMP", None) if okk else r5.fail(fn, "first-call-map-FCMP", "FailedCannotMakeProgress must map to Err(Buf): %s" % tstr(status))
                r8.ok(fn, "first-call-end-FCMP", None)
            elif sv.hi() is not None and sv.hi() < 0:
                okk = _err(status, "Data")
                r5.ok(fn, "first-call-map-neg", None) if okk else r5.fail(fn, "first-call-map-neg", "negative status must map to Err(Data): %s" % tstr(status))
                r8.ok(fn, "first-call-end-neg", None)
            elif sv.single() == DONE:
                if _ok(status, "StreamEnd"):
                    r6.ok(fn, "first-call-done", "Done -> StreamEnd")
                    r8.ok(fn, "first-call-end-done", None)
                else:
                    r6.fail(fn, "first-call-done", "Done on the direct path must give StreamEnd: %s" % tstr(status))
            elif not sv.contains(DONE) and sv.lo() is not None and sv.lo() >= 0:
                # unfinished: must poison last_status and report Buf
                if _err(status, "Buf") and final_ls is not None and final_ls[0] == "enum" and final_ls[3] < 0:
                    r8.ok(fn, "first-call-end-unfinished", "unfinished -> last_status=%s, Err(Buf)" % tstr(final_ls))
                else:
                    r8.fail(fn, "first-call-end-unfinished", "an unfinished direct decode must leave a negative last_status and return Err(Buf): %s" % row.describe())
            else:
                r8.fail(fn, "first-call-end-undecided", "direct path row does not classify the status: %s" % row.describe())
            if _ok(status, "StreamEnd") and sv.single() != DONE:
                r6.fail(fn, "first-call-streamend", "StreamEnd without status Done: %s" % row.describe())
            continue
        if push and not loop:
            # pending window path
            if vs(row, davail0).contains(0):
                r6.fail(fn, "pending-gate", "push_dict_out path taken without dict_avail != 0: %s" % row.describe())
                continue
            call = push[0]
            res = ("call", call[1], call[2], call[4])
            if const_val(consumed) == 0 and sum_parts(written) == [res]:
                r7.ok(fn, "pending-counts", "(0, push_dict_out)")
            else:
                r7.fail(fn, "pending-counts", "pending-window counts must be (0, pushed): (%s,%s)" % (tstr(consumed), tstr(written)))
            k, p = result_variant(status)
            if k != "Ok":
                r6.fail(fn, "pending-status", "pending-window delivery must return Ok/StreamEnd: %s" % tstr(status))
                continue
            # StreamEnd iff last_status(after)==Done && dict_avail(after)==0
            ep = [t for t, s in row.atoms]
            # the values in force when the status is chosen: the most recent loads (push_dict_out changes dict_avail, not last_status)
            ls_after = latest_loads(row, "last_status")
            da_after = [t for t in latest_loads(row, "dict_avail") if t[2] != 0]
            done = any(vs(row, t).single() == DONE for t in ls_after)
            empty = any(vs(row, t).single() == 0 for t in da_after)
            if is_enum(p, "StreamEnd"):
                if done and empty:
                    r6.ok(fn, "pending-streamend", "StreamEnd under last_status==Done ∧ dict_avail==0 (after delivery)")
                else:
                    r6.fail(fn, "pending-streamend", "StreamEnd without (last_status==Done ∧ dict_avail==0): %s" % row.describe())
            else:
                if done and empty:
                    r6.fail(fn, "pending-ok", "Ok returned although stream is done and window empty: %s" % row.describe())
                else:
                    r6.ok(fn, "pending-ok", None)
            continue
        if loop:
            if not vs(row, davail0).single() == 0:
                r6.fail(fn, "loop-gate", "inflate_loop entered with a non-empty pending window: %s" % row.describe())
                continue
            call = loop[0]
            a = call[2]
            res = ("call", call[1], call[2], call[4])
            # counts are the locals handed to inflate_loop by &mut, initialised to 0
            okc = (consumed[0] == "load" and written[0] == "load" and a[3][0] == "ref" and a[4][0] == "ref"
                   and consumed[1] == a[3][1] and written[1] == a[4][1] and status == res)
            if okc:
                r7.ok(fn, "loop-counts", "counts are the accumulators updated by inflate_loop")
            else:
                r7.fail(fn, "loop-counts", "loop path counts/status are not those produced by inflate_loop: %s" % tstr(ret))
            # HAS_MORE_INPUT iff flush != Finish
            HMI = c.const_int("inflate_flags::TINFL_FLAG_HAS_MORE_INPUT")
            NONWRAP = c.const_int("inflate_flags::TINFL_FLAG_USING_NON_WRAPPING_OUTPUT_BUF")
            flags = a[5]
            if is_const(flags) and bool(const_val(flags) & HMI) == (not fs.contains(FINISH)) and not const_val(flags) & NONWRAP:
                r3.ok(fn, "loop-flags", "HAS_MORE_INPUT iff flush != Finish")
            else:
                r3.fail(fn, "loop-flags", "inflate_loop flags: HAS_MORE_INPUT must be set iff flush != Finish, never NON_WRAPPING: flags=%s flush∈%r" % (tstr(flags), fs))
            continue
        r6.fail(fn, "unclassified", "row reaches no decode call and no documented early exit: %s" % row.describe())
    if n_full == 0:
        r1.fail(fn, "no-full-row", "no row with flush == Full found")

    # ---------------------------------------------------------------- inflate_loop, one iteration
    g = c.fn("inflate::stream::inflate_loop")
    ctx.touched(g)
    gn = g.name
    ev = paths.Evaluator(c, effects=ctx.effects(cfg))
    rows = ev.run(g)
    flush = P(7)
    for row in rows:
        dec = calls_named(row, "inflate::core::decompress")
        if len(dec) != 1:
            r4.fail(gn, "loop-one-decode", "iteration does not make exactly one decompress call: %s" % row.describe())
            continue
        call = dec[0]
        res = ("call", call[1], call[2], call[4])
        st_t = ("field", res, "0")
        a = call[2]
        # decode into the ring at dict_ofs
        ring_ok = (a[2][0] == "ref" and paths.place_is_field(a[2][1], "dict", "InflateState") and
                   paths.is_load_of(a[3], "dict_ofs", "InflateState"))
        if ring_ok:
            r8.ok(gn, "loop-ring", None)
        else:
            r8.fail(gn, "loop-ring", "inflate_loop must decode into state.dict at state.dict_ofs: args=%s" % [tstr(x) for x in a])
        lss = store_to_field(row, "last_status", "InflateState")
        if lss and lss[0][2] == st_t:
            r4.ok(gn, "loop-store", "last_status = decompress(..).0", lss[0][3])
        else:
            r4.fail(gn, "loop-store", "result of decompress() is not stored to last_status: %s" % row.describe())
        # accounting: *total_in += in_bytes; next_in advanced by in_bytes; dict_avail = out_bytes; *total_out += pushed
        sti = [e for e in row.stores() if e[1] == ("deref", P(4))]
        sto = [e for e in row.stores() if e[1] == ("deref", P(5))]
        sni = [e for e in row.stores() if e[1] == ("deref", P(2))]
        sda = store_to_field(row, "dict_avail", "InflateState")
        push = calls_named(row, "inflate::stream::push_dict_out")
        inb, outb = ("field", res, "1"), ("field", res, "2")
        okc = (len(sti) == 1 and sorted(map(repr, sum_parts(sti[0][2]))) == sorted(map(repr, [("load", ("deref", P(4)), 0), inb]))
               and len(push) == 1 and len(sto) == 1 and
               sorted(map(repr, sum_parts(sto[0][2]))) == sorted(map(repr, [("load", ("deref", P(5)), 0), ("call", push[0][1], push[0][2], push[0][4])]))
               and sda and sda[0][2] == outb)
        adv = False
        if len(sni) == 1:
            v = sni[0][2]
            # the new *next_in is the old one from offset in_bytes to its end, however the slicing is spelled
            reg = slices.region(v, store=row.store)
            old_in = ("load", ("deref", P(2)), 0)
            adv = reg is not None and slices.strip(reg.root) in (old_in, ("deref", P(2))) and reg.off == slices.lin(inb) and \
                slices.ladd(reg.off, reg.length) == (0, {("len", reg.root): 1})
        if okc and adv:
            r7.ok(gn, "loop-accounting", "total_in += in_bytes; next_in = &next_in[in_bytes..]; dict_avail = out_bytes; total_out += pushed")
        else:
            r7.fail(gn, "loop-accounting", "inflate_loop accounting identities broken: total_in=%s total_out=%s next_in=%s dict_avail=%s"
                    % ([tstr(e[2]) for e in sti], [tstr(e[2]) for e in sto], [tstr(e[2]) for e in sni], [tstr(e[2]) for e in sda]))
        sv = vs(row, st_t)
        out = row.outcome[0]
        ret = row.ret
        fs = vs(row, flush)
        da_after = [t for t in latest_loads(row, "dict_avail") if t[2] != 0]
        empty = any(vs(row, t).single() == 0 for t in da_after)
        nonempty = any(not vs(row, t).contains(0) for t in da_after)
        if sv.single() == FCMP:
            if out == "return" and _err(ret, "Buf"):
                r5.ok(gn, "loop-map-FCMP", None)
            else:
                r5.fail(gn, "loop-map-FCMP", "FailedCannotMakeProgress must map to Err(Buf): %s" % row.describe())
            continue
        if sv.hi() is not None and sv.hi() < 0:
            if out == "return" and _err(ret, "Data"):
                r5.ok(gn, "loop-map-neg", None)
            else:
                r5.fail(gn, "loop-map-neg", "negative status must map to Err(Data): %s" % row.describe())
            continue
        if sv.lo() is None or sv.lo() < 0:
            r5.fail(gn, "loop-map-undecided", "iteration continues without classifying a negative status: %s" % row.describe())
            continue
        if out == "return" and _ok(ret, "StreamEnd"):
            if sv.single() == DONE and empty:
                r6.ok(gn, "loop-streamend", "StreamEnd under status==Done ∧ dict_avail==0")
            else:
                r6.fail(gn, "loop-streamend", "StreamEnd without (status==Done ∧ dict_avail==0): %s" % row.describe())
        elif out == "return" and sv.single() == DONE and empty:
            r6.fail(gn, "loop-done-not-end", "Done with empty window must be StreamEnd: %s" % row.describe())
        elif out == "backedge" and sv.single() == DONE:
            r6.fail(gn, "loop-done-continues", "loop continues after status Done: %s" % row.describe())
        elif out == "return" and sv.single() == DONE and fs.single() == FINISH and not _err(ret, "Buf"):
            r6.fail(gn, "loop-finish-done-pending", "Finish ∧ Done with pending window must be Err(Buf): %s" % row.describe())
        else:
            r6.ok(gn, "loop-row", None)
        # starved: NeedsMoreInput with no input offered → Err(Buf)
        orig = ("len", ("load", ("deref", ("load", ("deref", P(2)), 0)), 0))
        if sv.single() == NMI:
            lens = [t for t in row.facts.c if t[0] == "len"]
            z = [t for t in lens if vs(row, t).single() == 0 and paths.term_contains(t, lambda x: x == ("load", ("deref", P(2)), 0))
                 and not paths.term_contains(t, lambda x: x[0] == "call")]
            if z:
                if out == "return" and _err(ret, "Buf"):
                    r6.ok(gn, "loop-starved", "NeedsMoreInput ∧ orig_in_len==0 -> Err(Buf)")
                else:
                    r6.fail(gn, "loop-starved", "NeedsMoreInput with no input offered must be Err(Buf): %s" % row.describe())
        if out == "backedge":
            # continuing requires: status ok, not Done; with Finish: output not empty; otherwise both buffers non-empty and window empty
            if fs.single() != FINISH and not empty:
                r6.fail(gn, "loop-continue-window", "loop continues with bytes pending in the window: %s" % row.describe())
    if not rows:
        r4.fail(gn, "no-rows", "no paths")

    # push_dict_out: n = min(dict_avail, next_out.len()) bounds everything
    h = c.fn("inflate::stream::push_dict_out")
    ctx.touched(h)
    ev = paths.Evaluator(c, effects=ctx.effects(cfg))
    hrows = [r for r in ev.run(h) if r.outcome[0] == "return"]
    for row in hrows:
        n = row.ret
        okn = n and n[0] == "pure" and n[1] == "min" and any(paths.is_load_of(x, "dict_avail", "InflateState") for x in n[2]) \
            and any(x[0] == "len" for x in n[2])
        sda = store_to_field(row, "dict_avail", "InflateState")
        sdo = store_to_field(row, "dict_ofs", "InflateState")
        MASK = c.const_int("inflate::core::TINFL_LZ_DICT_SIZE") - 1
        okd = sda and sda[0][2][0] == "bin" and sda[0][2][1] == "Sub" and sda[0][2][3] == n
        oko = sdo and sdo[0][2][0] == "bin" and sdo[0][2][1] == "BitAnd" and const_val(sdo[0][2][3]) == MASK and \
            sorted(map(repr, sum_parts(sdo[0][2][2]))) == sorted(map(repr, [fld(c, P(1), "InflateState", "dict_ofs", 0), n]))
        if okn and okd and oko:
            r7.ok(h.name, "push-min", "n = min(dict_avail, next_out.len()); dict_avail -= n; dict_ofs = (dict_ofs+n) & (SIZE-1)")
        else:
            r7.fail(h.name, "push-min", "push_dict_out: n=%s dict_avail=%s dict_ofs=%s" % (
                tstr(n) if n else None, [tstr(e[2]) for e in sda], [tstr(e[2]) for e in sdo]))
    if not hrows:
        r7.fail(h.name, "push-min", "push_dict_out has no returning path")
