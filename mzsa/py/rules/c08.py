"""C08 — decoder writes stay inside the granted window; status codes are truthful (structural clauses)."""
import os
import sys
import paths
import sm
from mir import callee_name, Place
from terms import ISet, tstr, pstr, is_const, const_val, INF
from rules.util import *
from rules import inflate_core as ic

sys.path.insert(0, os.path.join(os.path.dirname(os.path.dirname(os.path.dirname(os.path.abspath(__file__)))), "tables"))
import rfc  # noqa: E402

MAX_MATCH = max(b + (1 << e) - 1 for b, e in zip(rfc.LENGTH_BASE, rfc.LENGTH_EXTRA))   # 258


def is_bytes_left(t):
    return t[0] == "pure" and t[1].endswith("OutputBuffer::bytes_left")


def max_len_of(row, t, crate):
    """upper bound of a match-length term: LENGTH_BASE[i] + (bits & ((1 << LENGTH_EXTRA[i]) - 1)) enumerated over the feasible i"""
    def find_index(term, name):
        for st in paths.subterms(term):
            if st[0] == "pure" and st[1] == "index" and st[2][0][0] == "constarr" and st[2][0][1].endswith(name):
                return st
        return None
    while t[0] == "cast":
        t = t[1]
    ib = find_index(t, "LENGTH_BASE")
    if ib is not None:
        idx = ib[2][1]
        rng = vs(row, idx)
        base = ib[2][0][2]
        ie = find_index(t, "LENGTH_EXTRA")
        extra = ie[2][0][2] if ie is not None and ie[2][1] == idx else None
        lo = int(max(0, rng.lo() if rng.lo() is not None else 0))
        hi = int(min(len(base) - 1, rng.hi() if rng.hi() is not None else len(base) - 1))
        best = 0
        for i in range(lo, hi + 1):
            if not rng.contains(i):
                continue
            if extra is not None:
                best = max(best, base[i] + (1 << extra[i]) - 1)
            elif t == ib or (t[0] == "cast" and t[1] == ib):
                best = max(best, base[i])
            else:
                return None
        return best
    s = vs(row, t)
    if s.hi() is not None and s.hi() != INF:
        return int(s.hi())
    return None


def writes_of(row):
    """[(kind, amount term | int)] in order"""
    out = []
    for e in row.effects:
        if e[0] != "call":
            continue
        n = e[1]
        if n.endswith("OutputBuffer::write_byte"):
            out.append(("byte", 1, e))
        elif n.endswith("OutputBuffer::write_slice"):
            out.append(("slice", e[2][1], e))
        elif n.endswith("inflate::core::apply_match"):
            out.append(("match", e[2][3], e))
        elif n.endswith("inflate::core::transfer"):
            out.append(("transfer", e[2][3], e))
    return out


def budget_of(row):
    """lower bound of bytes_left() established by the row's atoms before the first write (None = unknown)"""
    best = 0
    rel = []
    for a, s in row.atoms:
        if a[0] == "bin" and a[1] in ("Lt", "Le", "Gt", "Ge", "Eq", "Ne") and is_bytes_left(a[2]) and is_const(a[3]):
            v = vs(row, a[2]).inter(ISet.range(0, INF))
            if not v.empty() and v.lo() != -INF:
                best = max(best, int(v.lo()))
        if a[0] == "bin" and a[1] == "Gt" and s.single() == 0 and is_bytes_left(a[3]):
            rel.append(a[2])      # a[2] <= bytes_left
    return best, rel


def rule_write_budget(ctx, cfg, r):
    M = ic.machine(ctx, cfg)
    c = ctx.crate(cfg)
    fn = M.fn.name

    def check_row(where, key, row, extra_budget=0):
        ws = writes_of(row)
        if not ws:
            return
        lb, rel = budget_of(row)
        cost = 0
        symbolic = []
        for kind, amt, e in ws:
            if kind == "byte":
                cost += 1
                continue
            t = amt
            # slice length: &index(.., RangeTo{n})
            if kind == "slice":
                n = None
                for st in paths.subterms(t):
                    if st[0] == "agg" and st[1].endswith("RangeTo"):
                        n = st[4][0]
                t = n if n is not None else t
            # amounts of the form min(.., bytes_left, ..) are bounded by the remaining space by construction
            if paths.term_contains(t, lambda y: y[0] == "pure" and y[1] == "min" and any(is_bytes_left(q) or paths.term_contains(q, is_bytes_left) for q in y[2])) and \
                    (t[0] == "pure" and t[1] == "min"):
                symbolic.append(("min-of-space", t))
                continue
            # relational guard: position + len <= bytes_left
            core_t = t[1] if t[0] == "cast" else t
            if any(g[0] == "bin" and g[1] == "Add" and (g[2] == t or g[3] == t or g[2] == core_t or g[3] == core_t) for g in rel):
                symbolic.append(("guarded", t))
                continue
            m = max_len_of(row, t, c)
            if m is None:
                r.fail(where, key + "/unbounded", "a write of %s bytes is not bounded by any established fact: %s" % (tstr(t), row.describe(10)), e[3])
                return
            cost += m
        if symbolic and (cost or len(symbolic) > 1):
            r.fail(where, key + "/mixed", "several writes share one space check: %s plus %d constant bytes" % ([tstr(t) for _, t in symbolic], cost), ws[0][2][3])
            return
        if symbolic:
            r.ok(where, key, "write of %s bounded by the remaining space" % symbolic[0][0])
            return
        if cost <= lb:
            r.ok(where, key, "at most %d bytes written under bytes_left() >= %d" % (cost, lb), ws[0][2][3])
        else:
            r.fail(where, key, "up to %d bytes may be written although only bytes_left() >= %d is established on this path: %s"
                   % (cost, lb, row.describe(10)), ws[0][2][3])
    for arm in M.arm_entry:
        for i, row in enumerate(M.arm_rows(arm)):
            if calls_named(row, "inflate::core::decompress_fast"):
                continue
            check_row(fn, "arm:%s" % arm, row)
    # the fast loop: one guard evaluation to the next
    df = c.fn("inflate::core::decompress_fast")
    ctx.touched(df)
    ev = paths.Evaluator(c, effects=ctx.effects(cfg), pure_calls=sm.PURE, inline=["inflate::core::State::begin"], max_paths=6000)
    n = 0
    for row in ev.run(df):
        if writes_of(row):
            n += 1
            check_row(df.name, "fast-loop", row)
    if n == 0:
        r.fail(df.name, "fast-loop", "no writing path found in decompress_fast")
    # the fast loop is entered only with the same budget
    for row in M.arm_rows("DecodeLitlen"):
        if calls_named(row, "inflate::core::decompress_fast"):
            lb, _ = budget_of(row)
            need = MAX_MATCH + 1
            if lb >= need:
                r.ok(fn, "fast-entry", "decompress_fast entered under bytes_left() >= %d" % lb)
            else:
                r.fail(fn, "fast-entry", "decompress_fast is entered with only bytes_left() >= %d established (one iteration may write %d)" % (lb, need))


def rule_writers(ctx, cfg, r):
    """R08.2: who may write the output slice."""
    c = ctx.crate(cfg)
    E = ctx.effects(cfg)
    loc = (c.adt("inflate::output_buffer::OutputBuffer")["path"], "slice")
    direct = set()
    for f in c.fns.values():
        if f.kind == "promoted":
            continue
        for bb, t in f.calls():
            n = callee_name(t["call"])
            if n.endswith("OutputBuffer::get_mut"):
                direct.add(f.name)
                # the returned slice may only go to apply_match / transfer
                dest = t["dest"]["l"]
                uses = []
                for b2, t2 in f.calls():
                    for a in t2["args"]:
                        pl = a.get("c") or a.get("m")
                        if pl is not None and E.ptr_targets(f, pl["l"]) & E.ptr_targets(f, dest) and pl["l"] != dest:
                            uses.append(callee_name(t2["call"]))
                        if pl is not None and pl["l"] == dest:
                            uses.append(callee_name(t2["call"]))
                bad = [u for u in uses if not u.endswith(("inflate::core::apply_match", "inflate::core::transfer"))]
                if bad:
                    r.fail(f.name, "get_mut-escape", "the raw output slice from get_mut() is handed to %s" % sorted(set(bad)), t.get("sp"))
                else:
                    r.ok(f.name, "get_mut-use", "get_mut() result used only by apply_match / transfer", t.get("sp"))
    allowed = {"inflate::core::decompress_fast", "inflate::core::decompress_with_limit"}
    if direct - allowed:
        r.fail("<crate>", "get_mut-callers", "OutputBuffer::get_mut is called from %s" % sorted(direct - allowed))
    writers = sorted({c.fns[w].name for w in E.writers(loc) if w in c.fns})
    inner = {"inflate::output_buffer::OutputBuffer::write_byte", "inflate::output_buffer::OutputBuffer::write_slice"}
    methods = [w for w in writers if w.startswith("inflate::output_buffer::OutputBuffer::")]
    extra = [m for m in methods if m not in inner and not m.endswith(("from_slice_pos_and_max",))]
    if extra:
        r.fail("<crate>", "slice-writers", "OutputBuffer methods other than write_byte / write_slice write the slice: %s" % extra)
    else:
        r.ok("<crate>", "slice-writers", "slice written through write_byte, write_slice, and apply_match/transfer on get_mut() only")
    # write_byte / write_slice write at `position` and advance by exactly the amount written
    for name, amount in (("write_byte", 1), ("write_slice", None)):
        f = c.fn("inflate::output_buffer::OutputBuffer::" + name)
        ev = paths.Evaluator(c)
        for x in ev.run(f):
            if x.outcome[0] != "return":
                continue
            pos0 = fld(c, P(1), "OutputBuffer", "position", 0)
            st = store_to_field(x, "position", "OutputBuffer")
            okk = st and st[-1][2][0] == "bin" and st[-1][2][1] == "Add" and st[-1][2][2] == pos0
            if okk and amount == 1:
                okk = const_val(st[-1][2][3]) == 1
            elif okk:
                okk = st[-1][2][3][0] == "len"
            if okk:
                r.ok(f.name, "advance", "position += bytes written")
            else:
                r.fail(f.name, "advance", "%s does not advance position by the bytes written: %s" % (name, [tstr(e[2]) for e in st]))


def rule_outbuf(ctx, cfg, r):
    """R08.1: max = min(saturating(pos + count), len); bytes_left = max - position."""
    c = ctx.crate(cfg)
    f = c.fn("inflate::output_buffer::OutputBuffer::from_slice_pos_and_max")
    ctx.touched(f)
    ev = paths.Evaluator(c)
    okk = True
    n = 0
    for x in ev.run(f):
        if x.outcome[0] != "return":
            continue
        n += 1
        ret = ret_agg(x, "OutputBuffer")
        d = dict(zip(ret[3], ret[4])) if ret else {}
        sat = ("pure", "saturating_add", (P(2), P(3)))
        ln = ("len", ("load", ("deref", P(1)), 0))
        m = d.get("max")
        gt = None
        for a, s in x.atoms:
            if a[0] == "bin" and a[1] == "Gt" and a[2] == sat and a[3] == ln:
                gt = s.single()
        is_min = bool(m) and m[0] == "pure" and m[1] == "min" and set(m[2]) == {sat, ln}      # written as one `min` call
        good = d.get("position") == P(2) and ((gt == 1 and m == ln) or (gt == 0 and m == sat) or is_min)
        if not good:
            okk = False
            r.fail(f.name, "max", "OutputBuffer.max is not min(position.saturating_add(max_count), slice.len()): %s under %r" % (tstr(m) if m else None, gt))
    if okk and n >= 2:
        r.ok(f.name, "max", "max = min(position.saturating_add(max_count), slice.len())")
    g = c.fn("inflate::output_buffer::OutputBuffer::bytes_left")
    ev = paths.Evaluator(c)
    for x in ev.run(g):
        if x.outcome[0] == "return":
            want = ("bin", "Sub", fld(c, P(1), "OutputBuffer", "max", 0), fld(c, P(1), "OutputBuffer", "position", 0), "usize")
            if x.ret == want:
                r.ok(g.name, "bytes_left", "bytes_left() = max - position")
            else:
                r.fail(g.name, "bytes_left", "bytes_left() is not max - position: %s" % tstr(x.ret))
    # the decoder builds it from (out, out_pos, out_max)
    M = ic.machine(ctx, cfg)
    ev = paths.Evaluator(c, effects=ctx.effects(cfg), stop_blocks=[M.loop_head], pure_calls=sm.PURE)
    okarg = False
    n = 0
    for x in ev.run(M.fn):
        for e in x.effects:
            if e[0] == "call" and e[1].endswith("OutputBuffer::from_slice_pos_and_max"):
                n += 1
                okarg = e[2][0] == ("ref", ("deref", P(3)), True) and e[2][1] == P(4) and e[2][2] == P(5)
    if n and okarg:
        r.ok(M.fn.name, "outbuf-args", "OutputBuffer::from_slice_pos_and_max(out, out_pos, out_max)")
    else:
        r.fail(M.fn.name, "outbuf-args", "the output window is not built from (out, out_pos, out_max)")


def rule_status_truth(ctx, cfg, r):
    """R08.5: HasMoreOutput only with a full window."""
    M = ic.machine(ctx, cfg)
    n = 0
    for arm, x in ic.all_rows(M):
        if x.kind == "end" and x.target == "HasMoreOutput":
            n += 1
            full = any(is_bytes_left(a[2]) and ((a[1] == "Eq" and s.single() == 1) or (a[1] in ("Gt", "Ne") and s.single() == 0)) and
                       is_const(a[3]) and const_val(a[3]) == 0 for a, s in x.atoms if a[0] == "bin")
            if full:
                r.ok(M.fn.name, "hasmoreoutput/" + arm, "End(HasMoreOutput) under bytes_left() == 0")
            else:
                r.fail(M.fn.name, "hasmoreoutput/" + arm, "HasMoreOutput is reported without the output window being full: %s" % x.describe(8))
    if n < 4:
        r.fail(M.fn.name, "hasmoreoutput-sites", "%d End(HasMoreOutput) sites (reference tree: 4)" % n)


def rule_vec_limit(ctx, cfg, r):
    """R08.6: size-limited vector decompression."""
    c = ctx.crate(cfg)
    f = c.fn("inflate::decompress_to_vec_inner")
    ctx.touched(f)
    NONWRAP = c.const_int("inflate_flags::TINFL_FLAG_USING_NON_WRAPPING_OUTPUT_BUF")
    ev = paths.Evaluator(c, effects=ctx.effects(cfg), inline=["inflate::decompress_error"])
    rows = ev.run(f)
    heads = {x.outcome[1] for x in rows if x.outcome[0] == "backedge"}
    lim = P(3)
    # initial allocation capped by the limit
    okinit = False
    for x in rows:
        for e in x.effects:
            if e[0] == "call" and ("from_elem" in e[1] or "vec::from_elem" in e[1]):
                n = e[2][1]
                if n[0] == "pure" and n[1] == "min" and lim in n[2]:
                    okinit = True
    r.ok(f.name, "initial-cap", "initial buffer = min(2·len, max_output_size)") if okinit else \
        r.fail(f.name, "initial-cap", "the initial output allocation is not capped by max_output_size")
    okflags = False
    for x in rows:
        for e in calls_named(x, "inflate::core::decompress"):
            flags = e[2][4]
            okflags = (flags[0] == "bin" and flags[1] == "BitOr" and P(2) in (flags[2], flags[3]) and
                       any(is_const(q) and const_val(q) == NONWRAP for q in (flags[2], flags[3])))
    r.ok(f.name, "flags", "flags | USING_NON_WRAPPING_OUTPUT_BUF") if okflags else \
        r.fail(f.name, "flags", "decompress is not given flags | USING_NON_WRAPPING_OUTPUT_BUF")
    if len(heads) != 1:
        r.fail(f.name, "loop", "expected one loop, found %s" % sorted(heads))
        return
    ev = paths.Evaluator(c, effects=ctx.effects(cfg), inline=["inflate::decompress_error"])
    it = ev.run(f, start_bb=heads.pop())
    ST = discrs(c, "TINFLStatus")
    for x in it:
        dec = calls_named(x, "inflate::core::decompress")
        if len(dec) != 1:
            r.fail(f.name, "iter", "iteration without exactly one decompress call")
            continue
        res = call_res(dec[0])
        sv = vs(x, ("discr", ("field", res, "0")))
        if sv.single() == ST["Done"]:
            tr = [e for e in x.effects if e[0] == "call" and e[1].endswith("truncate")]
            okk = x.outcome[0] == "return" and tr and sum_parts(tr[0][2][1]) and ("field", res, "2") in sum_parts(tr[0][2][1])
            r.ok(f.name, "done", "Done: truncate to out_pos, Ok") if okk else r.fail(f.name, "done", "Done must truncate to the produced length: %s" % x.describe(6))
        elif sv.single() == ST["HasMoreOutput"]:
            full = None
            for a, s in x.atoms:
                if a[0] == "bin" and a[1] == "Ge" and a[3] == lim and paths.term_contains(a[2], lambda y: y[0] in ("call", "len", "pure")):
                    full = s.single()
            rz = [e for e in x.effects if e[0] == "call" and e[1].endswith("::resize")]
            if x.outcome[0] == "return":
                k, p = result_variant(x.ret)
                if k == "Err" and (full == 1 or any(a[0] == "bin" and a[1] == "Gt" and s.single() == 1 for a, s in x.atoms)):
                    r.ok(f.name, "limit-hit", "HasMoreOutput with len >= limit -> Err carrying the decoded prefix")
                else:
                    r.fail(f.name, "limit-hit", "HasMoreOutput returns without the limit having been reached: %s" % x.describe(8))
            else:
                n = rz[0][2][1] if rz else None
                if full == 0 and n is not None and n[0] == "pure" and n[1] == "min" and lim in n[2]:
                    r.ok(f.name, "grow", "grow to min(2·len, max_output_size) only while len < limit")
                else:
                    r.fail(f.name, "grow", "buffer growth is not capped by max_output_size / not guarded by len < limit: %s" % x.describe(8))
        else:
            if x.outcome[0] == "return" and result_variant(x.ret)[0] == "Err":
                r.ok(f.name, "other-status", None)
            elif x.outcome[0] == "return":
                r.fail(f.name, "other-status", "a status other than Done returns Ok: %s" % x.describe(6))


def rule_transfer_bound(ctx, cfg, r):
    """R08.7: transfer() writes at most match_len bytes: word loops are bounded by match_len rounded down to a multiple of 4,
    and every return passes through the `match_len & 3` tail."""
    c = ctx.crate(cfg)
    f = c.fn("inflate::core::transfer")
    ctx.touched(f)
    # tail dispatch: switch on (match_len & 3)
    tail = None
    for bb, blk in enumerate(f.blocks):
        t = blk["t"]
        if "switch" in t and len(t["targets"]) >= 3:
            e = ic.local_expr(c, f, bb, t["switch"])
            if e and e[0] == "bin" and e[2] == ("var", "match_len") and is_const(e[3]) and \
                    ((e[1] == "BitAnd" and const_val(e[3]) == 3) or (e[1] == "Rem" and const_val(e[3]) == 4)):
                tail = bb
    if tail is None:
        r.fail(f.name, "tail", "the `match_len & 3` tail dispatch was not found")
        return
    rets = f.return_blocks()
    if all(f.dominates(tail, rb) for rb in rets):
        r.ok(f.name, "tail", "every return passes through the `match_len & 3` tail")
    else:
        r.fail(f.name, "tail", "transfer can return without copying the `match_len & 3` tail bytes")
    # tail writes: arm k writes exactly k bytes (indices out_pos .. out_pos+k-1)
    # word-loop bounds
    ev = paths.Evaluator(c, stop_blocks=[tail], max_paths=4000)
    rows = ev.run(f)
    ml, op = P(4), P(3)
    from rules.copyrt import lin

    def is_words(t):
        """t == out_pos + W with W = match_len rounded down to a multiple of 4 (any spelling: `(len >> 2) * 4`, `len & !3`, ... are one
        canonical term), or a min() that has such an operand"""
        if t[0] == "pure" and t[1] == "min":
            return any(is_words(q) for q in t[2])
        cst, sym = lin(t)
        if cst != 0 or sym.get(op) != 1 or len(sym) != 2:
            return False
        w = [k for k in sym if k != op][0]
        return sym[w] == 1 and w[0] == "bin" and w[1] == "BitAnd" and w[2] == ml and is_const(w[3]) and const_val(w[3]) & 3 == 0 and \
            const_val(w[3]) & 0xFFFFFFFC == 0xFFFFFFFC
    nloops = 0
    # loop guards: the relations that hold on an iteration of each loop (evaluated from the loop head, so that conditions tested before
    # the loop are not mistaken for its bound), in canonical form — `while out_pos < E` and `loop { if out_pos >= E { break } .. }` alike
    heads = sorted({x.outcome[1] for x in rows if x.outcome[0] == "backedge"})
    for h in heads:
        ev2 = paths.Evaluator(c, stop_blocks=[tail] + [q for q in heads if q != h], max_paths=4000)
        for x in ev2.run(f, start_bb=h):
            if x.outcome != ("backedge", h):
                continue
            guards = [(lhs, rhs) for lhs, rel, rhs in rels(x) if rel == "Lt" and lhs == op]
            nloops += 1
            if guards and any(is_words(rhs) for _, rhs in guards):
                r.ok(f.name, "word-loop", "loop bound %s" % tstr(guards[0][1])[:80])
            else:
                r.fail(f.name, "word-loop", "a copy loop that advances out_pos is not bounded by out_pos + (match_len >> 2) * 4 (guards: %s)"
                       % [tstr(g[1])[:60] for g in guards])
    for x in rows:
        for e in x.effects:
            if e[0] == "call" and e[1].endswith("::fill"):
                rg = [st for st in paths.subterms(e[2][0]) if st[0] == "agg" and st[1].endswith("ops::range::Range")]
                for e2 in x.effects:
                    if e2[0] == "call" and "IndexMut" in e2[1] and e2[2][1][0] == "agg" and e2[2][1][1].endswith("ops::range::Range"):
                        nloops += 1
                        if e2[2][1][4][0] == op and is_words(e2[2][1][4][1]):
                            r.ok(f.name, "fill-range", "fill over out_pos .. out_pos + (match_len >> 2) * 4")
                        else:
                            r.fail(f.name, "fill-range", "memset range %s is not out_pos .. out_pos + (match_len >> 2) * 4" % tstr(e2[2][1]))
    if nloops < 3:
        r.fail(f.name, "loops", "%d bounded copy constructs recognised (reference tree: 3: memset, copy_within loop, byte loop)" % nloops)


def run(ctx):
    cfgs = ["H1"] + (["T1"] if ctx.thorough() else [])
    for cfg in cfgs:
        sfx = "" if cfg == "H1" else "@" + cfg
        r1 = ctx.rule("R08.1" + sfx, "granted window: max = min(out_pos + out_max, len); bytes_left relative to max", floor=2, config=cfg)
        rule_outbuf(ctx, cfg, r1)
        r2 = ctx.rule("R08.2" + sfx, "the output slice is written only through write_byte / write_slice / apply_match / transfer", floor=5, config=cfg)
        rule_writers(ctx, cfg, r2)
        r3 = ctx.rule("R08.3" + sfx, "every write is covered by an established bytes_left() fact (per path: bytes written <= space verified)", floor=12, config=cfg)
        rule_write_budget(ctx, cfg, r3)
        r5 = ctx.rule("R08.5" + sfx, "HasMoreOutput only when the granted window is full", floor=4, config=cfg)
        rule_status_truth(ctx, cfg, r5)
        ic.rule_override(ctx, cfg, r5)
        r7 = ctx.rule("R08.7" + sfx, "transfer(): word loops bounded by match_len rounded down to 4, tail bytes copied on every return", floor=4, config=cfg)
        rule_transfer_bound(ctx, cfg, r7)
    r6 = ctx.rule("R08.6", "vector helpers: allocation and growth capped by the limit; error exactly when the limit is reached", floor=4, config="H1")
    rule_vec_limit(ctx, "H1", r6)
