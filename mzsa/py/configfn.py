"""Decision tables of loop-free configuration functions, compiled for evaluation over finite domains (DESIGN §4.7 V1)."""
import paths
import termeval
from terms import tstr, is_const, const_val


class ConfigFn:
    def __init__(self, crate, name, argnames, inline=("*",), effects=None, ptr=64, leaf=None, select=None):
        self.crate = crate
        self.fn = crate.fn(name)
        self.argnames = list(argnames)
        ev = paths.Evaluator(crate, inline=inline, effects=effects, inline_depth=6, ptr=ptr)
        self.rows = [r for r in ev.run(self.fn) if r.outcome[0] in ("return", "diverge")]
        self.ptr = ptr
        self.extra_leaf = leaf
        self.compiled = []
        for r in self.rows:
            cond = termeval.make_fn(termeval.row_condition(r, self._leaf, ptr), self.argnames)
            if r.outcome[0] == "diverge":
                self.compiled.append((cond, None, r))
                continue
            comps = select(r.ret) if select else self._components(r.ret)
            fns = []
            for t in comps:
                try:
                    fns.append(termeval.make_fn(termeval.compile_term(t, self._leaf, ptr), self.argnames))
                except termeval.Unsupported:
                    if select:
                        raise
                    fns.append(None)
            self.compiled.append((cond, fns, r))

    def _leaf(self, t):
        if t[0] == "param":
            return self.argnames[t[1] - 1]
        if self.extra_leaf:
            e = self.extra_leaf(t)
            if e is not None:
                return e
        raise termeval.Unsupported("leaf %s in %s" % (tstr(t), self.fn.name))

    def _components(self, t):
        if t[0] in ("array", "tuple"):
            out = []
            for x in t[1]:
                out += self._components(x)
            return out
        if t[0] == "agg":
            out = [("int", {"None": 0, "Some": 1, "Ok": 0, "Err": 1}.get(t[2], 0))] if t[1].endswith(("Option", "Result")) else []
            for x in t[4]:
                out += self._components(x)
            return out
        if t[0] == "unit":
            return []
        return [t]

    def eval(self, *args):
        """-> ('ok', [values]) | ('panic', row) ; raises if no or several rows match"""
        hit = [(fns, r) for cond, fns, r in self.compiled if cond(*args)]
        if len(hit) != 1:
            raise ValueError("%d rows of %s match %r" % (len(hit), self.fn.name, args))
        fns, r = hit[0]
        if fns is None:
            return ("panic", r)
        return ("ok", [f(*args) if f is not None else None for f in fns])
