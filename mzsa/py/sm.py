"""State-machine extraction for inflate::core::decompress_with_limit (DESIGN §4.8)."""
import paths
from mir import Place
from terms import tstr, pstr, ISet, is_const, const_val

INLINE = ["inflate::core::read_byte", "inflate::core::pad_to_bytes", "inflate::core::end_of_input",
          "inflate::core::validate_zlib_header", "inflate::core::State::begin"]
SUMMARIES = ["inflate::core::read_bits", "inflate::core::decode_huffman_code", "inflate::core::init_tree",
             "inflate::core::decompress_fast"]


PURE = ["OutputBuffer::position", "OutputBuffer::bytes_left", "OutputBuffer::get_ref", "InputWrapper::bytes_left",
        "InputWrapper::as_slice"]


class Machine:
    def __init__(self, crate, effects, fn_name="inflate::core::decompress_with_limit"):
        self.crate = crate
        self.effects = effects
        self.fn = crate.fn(fn_name)
        f = self.fn
        self.state_local = None
        self.status_local = None
        for i, l in enumerate(f.locals):
            if l.get("name") == "state" and l["ty"].endswith("State"):
                self.state_local = i
            if l.get("name") == "status" and l["ty"].endswith("TINFLStatus") and self.status_local is None:
                self.status_local = i
        self.dispatch = None
        for bb, blk in enumerate(f.blocks):
            t = blk["t"]
            if "switch" in t and len(t["targets"]) >= 15:
                o = t["switch"]
                pl = o.get("c") or o.get("m")
                if pl is not None and not pl["p"]:
                    defs = f.defs().get(pl["l"], [])
                    for d in defs:
                        if d[1] != "t":
                            rv = f.blocks[d[0]]["s"][d[1]]["a"][1]
                            if "discr" in rv and rv["discr"]["l"] == self.state_local and not rv["discr"]["p"]:
                                self.dispatch = bb
                                self.dispatch_head = d[0]
        if self.dispatch is None or self.state_local is None:
            from facts import AnalysisError
            raise AnalysisError("state-machine dispatch of decompress_with_limit not found")
        pd = f.postdominators()
        cands = [b for b in pd.get(self.dispatch, set()) if b != self.dispatch and b < len(f.blocks)]
        self.exit = max(cands, key=lambda b: len(pd[b])) if cands else None
        adt = crate.adt("inflate::core::State")
        self.state_adt = adt
        self.names = {int(v["discr"]): v["name"] for v in adt["variants"]}
        self.arm_entry = {}
        t = f.blocks[self.dispatch]["t"]
        for v, bb in t["targets"]:
            self.arm_entry[self.names[int(v)]] = bb
        self.default_entry = t["otherwise"]
        self.explicit = set(self.arm_entry)
        self.default_states = [n for n in self.names.values() if n not in self.explicit]
        self._rows = {}
        self._sumcache = {}
        # loop head: the block the back edges of the state loop go to
        self.loop_head = self.dispatch_head

    def evaluator(self, **kw):
        return paths.Evaluator(self.crate, inline=INLINE, summaries=SUMMARIES, effects=self.effects, pure_calls=PURE,
                               stop_blocks=[self.loop_head, self.exit], sumcache=self._sumcache, inline_depth=4, **kw)

    def arm_rows(self, name):
        """rows of one arm; each row gets .kind in {'jump','end','none'} and .target"""
        if name in self._rows:
            return self._rows[name]
        entry = self.arm_entry.get(name, self.default_entry)
        ev = self.evaluator()
        st0 = {}
        if name in self.arm_entry:
            st0[("local", 0, self.state_local)] = ("enum", self.state_adt["path"], name,
                                                   [int(v["discr"]) for v in self.state_adt["variants"] if v["name"] == name][0])
        rows = ev.run(self.fn, start_bb=entry, init_store=st0)
        out = []
        for r in rows:
            kind, target = None, None
            if r.outcome[0] == "stop" and r.outcome[1] == self.loop_head:
                v = r.store.get(("local", 0, self.state_local))
                if v is not None and v[0] == "enum":
                    kind, target = "jump", v[2]
                else:
                    kind, target = "jump", ("?", v)
            elif r.outcome[0] == "stop" and r.outcome[1] == self.exit:
                v = r.store.get(("local", 0, self.status_local))
                if v is not None and v[0] == "enum":
                    kind, target = "end", v[2]
                else:
                    kind, target = "end", ("?", v)
            elif r.outcome[0] == "backedge":
                kind, target = "none", name
            else:
                kind, target = "other", r.outcome
            r.kind, r.target = kind, target
            out.append(r)
        self._rows[name] = out
        return out

    def transitions(self):
        g = {}
        for name in list(self.arm_entry) + ["<default>"]:
            rows = self.arm_rows(name if name != "<default>" else "<default>")
            g[name] = sorted({(r.kind, r.target if isinstance(r.target, str) else repr(r.target)) for r in rows})
        return g
