#!/usr/bin/env python3
"""Regenerates /verif/MANIFEST.json from the claims table below and the rule modules present."""
import json
import os

HERE = os.path.dirname(os.path.abspath(__file__))
VERIF = os.path.dirname(os.path.dirname(HERE))

TRUST = ("trusted: rustc nightly's MIR construction and constant evaluation at mir-opt-level=0, the mzfacts driver's "
         "serialisation, the Python analyses in mzsa/py, the RFC tables in mzsa/tables/rfc.py; entries of "
         "mzsa/tables/reviewed.json are reviewed assumptions (each with its reason, listed in the evidence when used); "
         "type-based field locations assume one instance of each state type per object graph")

CLAIMS = {
 "C01": ("tables / path tables / finite-domain abstract interpretation on MIR",
         "Decides structural clauses only: encoder and decoder symbol tables agree with RFC 1951 and with each other over all 256 length indices and 32768 distances; fixed-block code lengths written by both sides agree; the dictionary mirror copy is paired with every dictionary write under the right guard; the grow-and-retry loops of the vector helpers account exactly; level clamping (levels above 10 behave as 10); every flush_block result is checked; the internal LZ token buffer is written and read under one convention (per token one flag shift, a match sets the top bit and writes len-3 / low / high byte of dist-1, one consume_flag per token, N slots per flag byte with the reader's sentinel = 1 << N, partial flag bytes right-aligned by the unused slots, reader cursor advances 1 / 3). NOT decided: that LZ parsing, Huffman construction and bit packing reproduce the input for all data (round-trip equality), absence of panics on the compression path."),
 "C02": ("write-back dataflow, dominance and path tables on MIR",
         "Decides: every cached state variable of the three compress routines is written back before each return and before calls that read it; flush_block is never entered with output pending (result discipline, caller set, zero result means nothing pending); the sticky-Finish / error gate and the pending-output drain of compress_inner; gating of the final block; conservation of pending output bookkeeping (copied + pending = produced); bit-buffer carry between blocks; Done only when finished and drained. NOT decided: decodability of the concatenated output, absence of panics for every schedule."),
 "C04": ("state-machine extraction, guard atoms, finite-domain evaluation of the header predicate on MIR",
         "Decides: every format violation the decoder recognises (reserved block type, stored length check, table sizes 286/30, repeat without previous, code-size sum, over-subscribed / incomplete code sets, undefined length/distance symbols, distance before start) is guarded by the RFC 1951 constant, identically on the fast and slow paths; failure states are absorbing and equal is_failure(); Done has a single origin; NeedsMoreInput / FailedCannotMakeProgress originate only in end_of_input, reached only with the input exhausted; code-length entries are counted exactly (literal +1, repeat code + its whole run, nothing clamped) so every overshoot reaches the code-size-sum test; validate_zlib_header equals the RFC 1950 predicate on all 2^16 header pairs x buffer modes. NOT decided: correctness of the Kraft-sum arithmetic beyond the recognised guards, that produced bytes equal what the specification defines."),
 "C05": ("path tables on the prefix / epilogue of the decoder, state-machine extraction",
         "Decides: BadParam is returned exactly for a non power-of-two ring or out_pos > len, before any access to the decoder state and with counts (0,0); failure states are absorbing; the returned counts are (offered − left − undone, position − out_pos) on every exit. NOT decided here: absence of panics in general (see the panic census once registered), termination, slice-index panics inside transfer."),
 "C06": ("must-pass-through and value-DAG rules on the decoder epilogue",
         "Decides (narrow): every exit whose status is not a starvation status hands back the whole unread bytes of the bit buffer and subtracts them from the reported count; the final-block sequence pad → undo → rewind iterator → mask runs in that order; undo_bytes computes min(num_bits/8, max) and keeps the rest. NOT decided: that the count is right for every bit position at which a final block can end."),
 "C07": ("write-back / liveness over the state-machine loop",
         "Decides: all decoder registers are loaded from and stored back to the persistent state around every call (also in decompress_fast), no other local carries state across loop iterations, and HasMoreOutput overrides NeedsMoreInput exactly when the output window is full outside the trailer read; multi-byte fields are collected through a persisted counter; every path on which a state suspends (needs-more-input / has-more-output with the state unchanged) has modified nothing but the bit buffer and the input position, or only idempotently, so re-entering the state is harmless. NOT decided: equality of output across chunkings."),
 "C20": ("compiler verdicts per configuration, rustc_lexer token scan, compile-time witness crate",
         "Full claim: every buildable configuration (8 host feature sets, 2 thumbv7em build-std configurations, x86_64-unknown-none) compiles with an unconditional in-crate #![forbid(unsafe_code)] in force, so rustc itself rejects any unsafe code; a token scan of every source file (including code compiled out everywhere) finds no unsafe / linkage attribute / include; the core-only sysroot builds prove no_std + no allocator; a witness crate instantiates Send + Sync + Clone + 'static for the public state types (with compile_fail twins in the thorough tier)."),
 "C09": ("finite-domain evaluation of configuration tables, dominance and path tables on MIR",
         "Decides (substantial): every reachable compressor configuration (3 formats x 11 levels x 5 strategies x 16 window settings, plus clamps and CompressorOxide::new) yields an RFC 1950 valid header; the header is emitted only under the zlib flag at block_index 0 and block_index always advances; the trailer is the four bytes of params.adler32, most significant first, after byte alignment, and nothing follows; the running Adler-32 is updated with exactly the consumed input; the decoder's epilogue returns Done in zlib mode only if the trailer equals the freshly updated checksum (Adler32Mismatch otherwise) unless IGNORE_ADLER32; validate_zlib_header equals the RFC 1950 predicate on all 2^16 pairs. NOT decided: the numeric value of the checksum (delegated to adler2 / simd-adler32)."),
 "C18": ("field-effect summaries (may/must-write), liveness over the extracted decoder automaton",
         "Decides: every field the compression data path may write is must-written by CompressorOxide::reset (derived from the fact base, not hand-listed); each InflateState reset policy must-writes every field inflate() may write; after DecompressorOxide::init() no scalar decoder field is read before it is written on any path from State::Start; no mutable statics, hash-randomised containers, clocks, environment or pointer-to-integer casts; mz_deflateReset reaches CompressorOxide::reset; init_tree rebuilds the Huffman tables from scratch (whole fast table, whole overflow tree). NOT decided: byte-identical output after reset for all histories; the other prefix-written decoder arrays are outside the scalar liveness. Known finding KF-5 (MinReset leaves the window)."),
 "C03": ("table oracle (RFC 1951 written independently), extracted index expressions, inductive path evaluation on MIR",
         "Decides (tables / grammar / bit discipline only): decoder base/extra tables, code-length order, table-size bases and widths, repeat-code parameters and fixed-block lengths equal RFC 1951 as the code uses them; the stored-block header is collected through a persisted counter; repeat codes fill exactly [counter, counter+run) with the previous length (16) or zero (17/18) and advance the counter by the run; the slow-path Huffman walk never lets a bit beyond num_bits decide (base case + inductive step); init_tree overwrites the whole fast table and zeroes the whole overflow tree (litlen/dist) before inserting anything. Token reconstruction on both the fast path and the slow-path states: bits are consumed exactly as used (shift amounts = count reductions, every lookup at the cursor followed by its own code length, every extra-bits field `buffer & ((1<<n)-1)` followed by n), length = LENGTH_BASE[sym-257] + extra(LENGTH_EXTRA[sym-257]) with the index expression evaluated for all 29 symbols, distance = DIST_BASE[sym] + extra(num_extra_bits_for_distance_code(sym)), copy = apply_match(out, position, distance, length) then position += length, partial copies keep source/length/remainder consistent, literals written are the decoded literal symbols once and in order. NOT decided: canonical code assignment in init_tree, the tree walk result inside lookup / decode_huffman_code, apply_match/transfer copy semantics — i.e. conformance over the language of valid streams."),
 "C01": ("table oracle, path tables, finite-domain evaluation of configuration code on MIR",
         "Decides structural clauses only: the encoder's symbol/extra-bit computation (index expressions extracted from compress_lz_codes) agrees with RFC 1951 and with the decoder's tables for all 256 lengths and 32768 distances, and record_match counts the symbols that are emitted; fixed-block lengths agree; every dictionary writer mirrors positions < 257 past the window end; the grow-and-retry loops account exactly and panic only on an impossible status; levels above 10 behave as 10 with no out-of-range probe index; every flush_block result is checked; the stored-block source position advances by exactly the bytes a block encoded. NOT decided: that LZ parsing, Huffman construction and bit packing reproduce the input for all data; absence of panics on the compression path."),
 "C08": ("per-path write budget against established space facts, who-may-write, path tables on MIR",
         "Decides: the granted window is min(out_pos + out_max, len) and bytes_left is relative to it; the output slice is written only through write_byte / write_slice / apply_match / transfer; on every path of every state-machine arm and of the fast loop the bytes that may be written (maximum match length taken from the tables) do not exceed the space the path has verified; HasMoreOutput only with a full window; transfer()'s word loops are bounded by match_len rounded down to 4 and the tail is copied on every return; the vector helpers cap allocation/growth by the limit. NOT decided: that the copy loops of transfer stay below max for every (length, position) beyond those bounds; byte-exact preservation outside the window."),
 "C10": ("table oracle, finite-domain routing table, call-graph reachability, dominance on MIR",
         "Decides: encoder tables and fixed lengths equal RFC 1951; for all 3x11x5x16 configurations exactly one compress routine is reachable, level 0 / raw only reaches compress_stored (which reaches no match or literal recording), RLE and Filtered never reach compress_fast, the fixed strategy forces static blocks at every compress_block call, Huffman-only has a probe budget that makes find_match return at once, the run-length branch uses distance 1 without hash search, filtered mode never records a fresh match <= 5; matches never reach behind dict.size; code-length limits 15/15/7, dynamic header field widths, stored LEN/NLEN, BFINAL from flush == Finish; exactly one final block; length limiting (every exit of enforce_max_code_size with more than one symbol has merged all over-long codes into the limit bucket, the rebalancing step is symbol-count neutral and lowers the Kraft sum by one unit, optimize_table applies it with its own limit before any code size is assigned). NOT decided: completeness/optimality of generated codes beyond those structural conditions, match validity, compression ratio."),
 "C11": ("finite-domain evaluation of configuration code + value-bound of the distance admission terms on MIR",
         "Decides (substantial): for every zlib configuration of with_params (and for every flags class x window_bits_max that later level/format changes can install) the upper bound of the admitted match distance — the term the distance is compared against in compress_fast, the max_dist argument of find_match, 1 in the run-length branch, evaluated with the invariant dict.size <= 32768 derived from all its writers — does not exceed the window the header declares. Two genuine defects found by this check were repaired (KF-1, KF-2; see known_findings.json)."),
 "C16": ("call-shape rules, single-writer (field effects) and path tables on MIR, in the scalar and simd configurations",
         "Decides: update_adler32 is exactly from_checksum(seed) / write(data) / checksum|finish on the library hasher with seed and data passed through unchanged, in both the adler2 and simd-adler32 builds, and is the crate's only caller into those libraries; mz_crc32_oxide likewise on crc32fast; the compressor's running sum is updated with exactly in_buf[..src_pos] after a successful compress routine; the decoder's running sum has Start and the epilogue update over out[out_pos..position) as its only writers; mz_adler32 / mz_crc32 return the initial value for NULL and otherwise forward (value as u32, the (ptr,len) slice) and widen; stream.adler is refreshed after every stream call. NOT decided: the arithmetic inside adler2, simd-adler32, crc32fast (external crates)."),
 "C17": ("per-path null-fact discipline, path tables, finite-domain evaluation on the MIR of all exported extern \"C\" functions",
         "Decides: every use (dereference, from_raw_parts, ptr::add/write/copy, unwrap of as_mut) of a pointer parameter of the 37 exported extern \"C\" functions happens on a path that has established the pointer is non-null; no field-less Rust enum is taken by value from C (known finding KF-4: tdefl_flush); every mz_* stream function reaches the oxide layer only through StreamOxide::try_new inside catch_unwind, NULL stream -> MZ_STREAM_ERROR, try_new rejects the other stream kind and custom allocators without touching the stream; mz_deflateInit2 / mz_inflateInit2 parameter validation over the quantifier's finite domain; next_in/next_out/total_in/total_out/adler accounting identities and the into_mz_stream write-back; mz_deflate_oxide / mz_inflate_oxide refuse a call without forwarding it to the Rust function only for a missing stream part or an invalid flush value; status/flush enums keep their numeric values across the boundary. Genuine defect KF-3 (NULL dereferences in tinfl_*) was found by this check and repaired. NOT decided: byte-for-byte equality with the Rust API, guard-page behaviour, size arithmetic of the heap growth loops."),
 "C19": ("item/impl facts, compile-time witness crate, liveness over the extracted automaton, record/rebuild symmetry on MIR",
         "Decides: Clone on the decoder state types is #[derive]d over plain data (no pointers, cells, shared ownership); under serde, Serialize/Deserialize are derived, the derived serialize() writes every field, and no serde attribute other than the BigArray adapter occurs; witness crate bounds (Clone + Send + Sync + 'static, Serialize + DeserializeOwned); BlockBoundary has a single origin (non-final block under the flag), every block ends through BlockDone (the next block header is entered only from the stream prologue or BlockDone, and BlockDone never continues under the flag), the exit hands back unread bytes and re-enters at ReadBlockHeader, block_boundary_state / from_block_boundary_state are field-for-field symmetric, and every scalar register that is live at ReadBlockHeader is either in the record or provably equal at every boundary to the constant the rebuild assigns; all registers are written back on every exit. NOT decided: equality of the resumed run with the uninterrupted one."),
 "C12": ("path tables and must-write effects on MIR",
         "Decides: the bit sequence of every flush marker equals the RFC 1951 empty stored / empty fixed block, with the *Opt forms only when unaligned; Full flush clears hash chains and dictionary size after a successful block; every admitted match distance is at most dict.size (admission terms of compress_fast / find_match are min(dict.size, ..); the run-length branch looks back only under dict.size != 0), so nothing reaches across the cut; markers are emitted only with all input consumed, lookahead empty and nothing pending; flush conversions are total and value preserving; exits of the deflate() driver loop. NOT decided: prefix decodability and independence of the post-flush remainder for all inputs."),
 "C13": ("path-sensitive decision tables on MIR",
         "Decides the status protocol of inflate()/inflate_loop()/push_dict_out as decision tables over all paths: Full -> stream error without touching state, sticky data/buffer errors before any decode, has_flushed gating, every decoder status recorded, status -> error mapping agreement between the two decode paths, StreamEnd only with Done and an empty window, counts are exactly the sums returned by the layer below, buffer modes never mix. NOT decided: termination/progress of the driver loop as a numeric argument, prefix property of delivered bytes."),
 "C14": ("path-sensitive decision tables on MIR",
         "Decides the status protocol of deflate() and compress_inner as decision tables: empty output refused without effects, behaviour after Done, the per-iteration exit table (Finish keeps going until terminal status or output full; no-progress error only with flush None and nothing moved), counts are sums of compress() results, non-Finish after Finish -> BadParam, Done only from the drain routine under finished and nothing pending. NOT decided: termination of repeated Finish calls as a numeric progress argument."),
}

NA = {
 "C15": "worst-case compressed size over all inputs is a numeric bound on run-time behaviour of the match finder, Huffman coder and block-cut heuristics; the only structural clause (stored-block cut constant vs the divisor in mz_deflateBound) is too thin to stand for the property (printed as an auxiliary lint under C10)",
}


def main():
    have = sorted(f[:-3].upper() for f in os.listdir(os.path.join(HERE, "rules")) if f.startswith("c") and f[1:3].isdigit() and f.endswith(".py"))
    checks = []
    na = []
    props = [json.loads(l)["id"] for l in open(os.path.join(VERIF, "properties.jsonl"))]
    for p in props:
        if p in NA:
            na.append({"property_id": p, "reason": NA[p]})
            continue
        if p not in have or p not in CLAIMS:
            na.append({"property_id": p, "reason": "check not registered in this commit (under construction; see DESIGN.md §6 for the planned rules)"})
            continue
        tech, text = CLAIMS[p]
        level = "proof" if p == "C20" else "other"
        checks.append({
            "property_id": p,
            "quick_cmd": "./check %s --tier quick" % p,
            "thorough_cmd": "./check %s --tier thorough" % p,
            "evidence_file": "/verif/evidence/%s.json" % p,
            "replay_cmd_template": "./check %s --replay {path}" % p,
            "engine": "mzsa",
            "level_claimed": {"category": level, "text": text, "design_ref": "DESIGN.md §6 %s" % p},
            "level_note": TRUST,
            "technique": tech,
        })
    man = {
        "version": 1,
        "setup_cmd": "cd /verif/mzsa/driver && CARGO_NET_OFFLINE=true cargo +nightly build --release --offline",
        "hooks": {"guard": "miniz_oxide_verif",
                  "enable": "none used: static analysis reads the sources of /repo's working tree; no instrumentation is compiled in",
                  "baseline_off_cmd": "cd /repo && cargo test --workspace --no-fail-fast --offline",
                  "source_commits": [], "add_only": True},
        "engines": [
            {"name": "mzfacts", "path": "mzsa/driver", "serves_properties": [c["property_id"] for c in checks],
             "kind_free_text": "rustc_private driver (RUSTC_WORKSPACE_WRAPPER): serialises items, constants and MIR of the type-checked crates per configuration; rustc_lexer mode for compiled-out sources"},
            {"name": "mzsa", "path": "mzsa/py", "serves_properties": [c["property_id"] for c in checks],
             "kind_free_text": "Python static analyses over the facts: CFG/dominators, value terms, path-sensitive decision tables, field effects (may/must-write), write-back dataflow, state-machine extraction, table oracle"},
        ],
        "checks": checks,
        "not_applicable": na,
        "notes": "Static analysis only: every verdict is derived from the MIR / items / constants / token stream of /repo's current working tree; no library code is executed. Known findings live in /verif/known_findings.json.",
    }
    with open(os.path.join(VERIF, "MANIFEST.json"), "w") as fh:
        json.dump(man, fh, indent=1)
    print("MANIFEST: %d checks, %d not applicable" % (len(checks), len(na)))


if __name__ == "__main__":
    main()
