"""Compile value terms (terms.py) to Python expressions so that extracted guards / results can be
evaluated over a finite configuration domain (DESIGN §4.7 V1: exhaustive partial evaluation of
configuration code — the compiled library is never executed, only the analyser's own term DAGs)."""
from terms import ty_bits, is_const, const_val


class Unsupported(Exception):
    pass


def _wrap(expr, ty, ptr):
    b = ty_bits(ty, ptr) if ty else None
    if not b or ty == "bool":
        return expr
    if ty[0] == "u":
        return "((%s) & %d)" % (expr, (1 << b) - 1)
    return "_sx((%s) & %d, %d)" % (expr, (1 << b) - 1, b)


def _sx(v, b):
    return v - (1 << b) if v >= (1 << (b - 1)) else v


def compile_term(t, leaf, ptr=64):
    """-> python expression string; leaf(term) -> expression for non-operator leaves (or raises Unsupported)"""
    k = t[0]
    if k == "int":
        return str(t[1])
    if k == "enum":
        return str(t[3])
    if k == "bin":
        op, a, b, ty = t[1], compile_term(t[2], leaf, ptr), compile_term(t[3], leaf, ptr), (t[4] if len(t) > 4 else None)
        py = {"Add": "+", "Sub": "-", "Mul": "*", "BitAnd": "&", "BitOr": "|", "BitXor": "^",
              "Eq": "==", "Ne": "!=", "Lt": "<", "Le": "<=", "Gt": ">", "Ge": ">="}.get(op)
        if py in ("==", "!=", "<", "<=", ">", ">="):
            return "int((%s) %s (%s))" % (a, py, b)
        if py:
            return _wrap("(%s) %s (%s)" % (a, py, b), ty, ptr)
        if op == "Rem":
            return _wrap("_rem(%s, %s)" % (a, b), ty, ptr)
        if op == "Div":
            return _wrap("_div(%s, %s)" % (a, b), ty, ptr)
        if op == "Shl":
            bits = ty_bits(ty, ptr) or 64
            return _wrap("(%s) << ((%s) %% %d)" % (a, b, bits), ty, ptr)
        if op == "Shr":
            bits = ty_bits(ty, ptr) or 64
            return "((%s) >> ((%s) %% %d))" % (a, b, bits)
        raise Unsupported(op)
    if k == "un":
        a = compile_term(t[2], leaf, ptr)
        ty = t[3] if len(t) > 3 else None
        if t[1] == "Not":
            if ty == "bool":
                return "(1 - (%s))" % a
            return _wrap("~(%s)" % a, ty, ptr)
        if t[1] == "Neg":
            return _wrap("-(%s)" % a, ty, ptr)
        raise Unsupported(t[1])
    if k == "cast":
        a = compile_term(t[1], leaf, ptr)
        if t[3] in ("widen", "int"):
            return _wrap(a, t[2], ptr)
        raise Unsupported("cast " + str(t[3]))
    if k == "discr":
        return compile_term(t[1], leaf, ptr)
    if k == "pure":
        if t[1] in ("min", "max"):
            return "%s(%s, %s)" % (t[1], compile_term(t[2][0], leaf, ptr), compile_term(t[2][1], leaf, ptr))
        if t[1] == "index" and t[2][0][0] == "constarr":
            return "%r[%s]" % (tuple(t[2][0][2]), compile_term(t[2][1], leaf, ptr))
        if t[1] == "saturating_sub":
            return "max(0, (%s) - (%s))" % (compile_term(t[2][0], leaf, ptr), compile_term(t[2][1], leaf, ptr))
        if t[1] == "is_power_of_two":
            a = compile_term(t[2][0], leaf, ptr)
            return "int((%s) > 0 and ((%s) & ((%s) - 1)) == 0)" % (a, a, a)
        if t[1] == "wrapping_sub":
            return "(((%s) - (%s)) & %d)" % (compile_term(t[2][0], leaf, ptr), compile_term(t[2][1], leaf, ptr), (1 << ptr) - 1)
        if t[1] == "saturating_add":
            return "min(%d, (%s) + (%s))" % ((1 << ptr) - 1, compile_term(t[2][0], leaf, ptr), compile_term(t[2][1], leaf, ptr))
        if t[1] == "wrapping_add":
            return "(((%s) + (%s)) & %d)" % (compile_term(t[2][0], leaf, ptr), compile_term(t[2][1], leaf, ptr), (1 << ptr) - 1)
    return leaf(t)


def _rem(a, b):
    return abs(a) % abs(b) * (1 if a >= 0 else -1)


def _div(a, b):
    return abs(a) // abs(b) * (1 if (a >= 0) == (b >= 0) else -1)


def make_fn(expr, argnames):
    g = {"_sx": _sx, "_rem": _rem, "_div": _div, "min": min, "max": max, "int": int}
    return eval("lambda %s: %s" % (", ".join(argnames), expr), g)


def row_condition(row, leaf, ptr=64):
    """python expression: conjunction of the row's branch atoms (term ∈ set)"""
    parts = []
    for t, s in row.atoms:
        e = compile_term(t, leaf, ptr)
        alts = []
        for lo, hi in s.iv:
            if lo == hi:
                alts.append("(%s) == %d" % (e, lo))
            else:
                c = []
                if lo != float("-inf"):
                    c.append("(%s) >= %d" % (e, lo))
                if hi != float("inf"):
                    c.append("(%s) <= %d" % (e, hi))
                alts.append("(" + " and ".join(c or ["True"]) + ")")
        parts.append("(" + " or ".join(alts) + ")")
    return " and ".join(parts) or "True"
