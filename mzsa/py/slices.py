"""Slice regions: what part of which buffer a slice-valued term denotes, whatever it is spelled with.

`&b[a..c]`, `&b[a..][..n]`, `b.split_at(a).1`, `&b[..c][a..]` … all evaluate to nested Index / split_at call terms; `region(t)`
reduces any of them to (root, offset, length) with offset and length in linear normal form over the remaining symbols, so a rule can
ask "which buffer, from where, how many" instead of matching one spelling.

  root    the innermost term that is not itself a slicing operation (a field load, a parameter, a cast of a Box pointer …)
  off     (const, {symbol: coefficient})
  length  the same, or None when it is "the rest of the root" and the root's own length is not a term (then `rest` is True)
"""
from terms import is_const, const_val

INDEX_FNS = ("::index", "::index_mut")
PASS_THROUGH = ("::as_slice", "::as_mut_slice", "::deref", "::deref_mut", "::as_ref", "::as_mut", "::borrow", "::borrow_mut",
                "::iter", "::iter_mut")


def uncast(t):
    while isinstance(t, tuple) and t and t[0] == "cast":
        t = t[1]
    return t


def lin(t):
    """linear normal form: (const, {symbolic addend: coefficient})"""
    t = uncast(t)
    if is_const(t):
        return const_val(t), {}
    if t[0] == "bin" and t[1] in ("Add", "Sub"):
        c1, s1 = lin(t[2])
        c2, s2 = lin(t[3])
        sg = 1 if t[1] == "Add" else -1
        out = dict(s1)
        for k, v in s2.items():
            out[k] = out.get(k, 0) + sg * v
            if out[k] == 0:
                del out[k]
        return c1 + sg * c2, out
    return 0, {t: 1}


def ladd(a, b, sg=1):
    out = dict(a[1])
    for k, v in b[1].items():
        out[k] = out.get(k, 0) + sg * v
        if out[k] == 0:
            del out[k]
    return a[0] + sg * b[0], out


def lsub(a, b):
    return ladd(a, b, -1)


ZERO = (0, {})


def strip(t):
    """drop reference / dereference wrappers"""
    while isinstance(t, tuple) and t:
        if t[0] == "ref":
            t = t[1]
        elif t[0] == "deref":
            t = t[1]
        elif t[0] == "cast" and len(t) > 3 and "nsize" in str(t[3]):
            t = t[1]
        else:
            break
    return t


class Region:
    __slots__ = ("root", "off", "length")

    def __init__(self, root, off, length):
        self.root = root
        self.off = off
        self.length = length      # linear form; the symbol ('len', root) stands for the root's own length

    def end(self):
        return ladd(self.off, self.length)

    def __repr__(self):
        return "Region(%r, off=%r, len=%r)" % (self.root, self.off, self.length)


def _range_parts(rg):
    """(kind, start, end) of a range aggregate / constructor call"""
    if not isinstance(rg, tuple) or not rg:
        return None
    if rg[0] == "agg":
        n = rg[1]
        names = rg[3] if len(rg) > 3 else ()
        vals = rg[4] if len(rg) > 4 else ()
        d = dict(zip(names, vals))
        if n.endswith("ops::range::Range") or n.endswith("::Range"):
            return "range", d.get("start"), d.get("end")
        if n.endswith("RangeFrom"):
            return "from", d.get("start"), None
        if n.endswith("RangeToInclusive"):
            return "toinc", None, d.get("end")
        if n.endswith("RangeTo"):
            return "to", None, d.get("end")
        if n.endswith("RangeFull"):
            return "full", None, None
        if n.endswith("RangeInclusive"):
            return "inc", d.get("start"), d.get("end")
    if rg[0] == "call" and "RangeInclusive" in rg[1] and rg[1].endswith("::new") and len(rg[2]) == 2:
        return "inc", rg[2][0], rg[2][1]
    return None


def region(t, depth=0, store=None):
    """Region denoted by a slice-valued term, or None when `t` is an element access / not a slice expression.
    `store` (a row's final store) resolves temporaries that hold an intermediate slice / iterator value."""
    if depth > 24:
        return None
    t = strip(t)
    if not isinstance(t, tuple) or not t:
        return None
    if store is not None and t[0] == "local" and t in store and isinstance(store[t], tuple):
        return region(store[t], depth + 1, store)
    if t[0] == "call":
        name, args = t[1], t[2]
        if "Index" in name and name.endswith(INDEX_FNS) and len(args) == 2:
            parts = _range_parts(strip(args[1]) if args[1][0] == "ref" else args[1])
            if parts is None:
                return None
            base = region(args[0], depth + 1, store)
            if base is None:
                return None
            kind, a, b = parts
            if kind == "range":
                return Region(base.root, ladd(base.off, lin(a)), lsub(lin(b), lin(a)))
            if kind == "inc":
                return Region(base.root, ladd(base.off, lin(a)), ladd(lsub(lin(b), lin(a)), (1, {})))
            if kind == "from":
                return Region(base.root, ladd(base.off, lin(a)), lsub(base.length, lin(a)))
            if kind == "to":
                return Region(base.root, base.off, lin(b))
            if kind == "toinc":
                return Region(base.root, base.off, ladd(lin(b), (1, {})))
            return base
        if name.endswith(PASS_THROUGH) and args:
            return region(args[0], depth + 1, store)
    if t[0] == "field" and isinstance(t[1], tuple) and t[1] and t[1][0] == "call" and \
            t[1][1].endswith(("::split_at", "::split_at_mut", "::split_at_unchecked", "::split_at_mut_unchecked")) and len(t[1][2]) == 2:
        base = region(t[1][2][0], depth + 1, store)
        if base is None:
            return None
        n = lin(t[1][2][1])
        if str(t[2]) == "0":
            return Region(base.root, base.off, n)
        if str(t[2]) == "1":
            return Region(base.root, ladd(base.off, n), lsub(base.length, n))
        return None
    return Region(t, ZERO, (0, {("len", t): 1}))


def sub_regions(t):
    """regions of every slicing sub-term of `t` (outermost first)"""
    out = []

    def walk(x):
        if not isinstance(x, tuple) or not x:
            return
        if isinstance(x[0], str):
            s = strip(x)
            if isinstance(s, tuple) and s and ((s[0] == "call" and "Index" in s[1] and s[1].endswith(INDEX_FNS)) or
                                                (s[0] == "field" and isinstance(s[1], tuple) and s[1] and s[1][0] == "call" and "split_at" in s[1][1])):
                r = region(s)
                if r is not None:
                    out.append(r)
        for y in x:
            if isinstance(y, tuple):
                walk(y)
    walk(t)
    return out
