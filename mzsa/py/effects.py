"""Field effects: may-read / may-write / must-write summaries over type-based locations.

A location is (ADT path, field name).  Safe Rust guarantees a unique live `&mut` per object and each of
the repo's state types occurs once per object graph, so naming a field by its containing type is exact
enough for the rules that use these summaries (DESIGN §4.5).

Per function:
  W     may-write locations (whole-field or element granularity)
  Wel   subset of W written only at element granularity in this function itself
  WP    parameter indices whose direct pointee (not reached through a named field) may be written
  MW    must-write locations: assigned as a whole on every path to Return
  MWP   parameters whose whole pointee is must-written
  R, RP may-read counterparts
  ret   what a returned reference may point to: set of ('loc', of, field) | ('param', i) | ('unknown',)
  unknown  list of constructs the resolver could not attribute (fail-closed hooks for rules)
Summaries compose bottom-up through resolved calls; closures are attributed to the call that receives them.
"""
from collections import defaultdict

from mir import Place, callee_name, callee_id


def _is_ptr_ty(tk):
    return tk and tk.get("k") in ("ref", "rawptr")


class Target:
    """Abstract pointee: base + projection list (mir projection tuples)."""
    __slots__ = ("base", "proj")

    def __init__(self, base, proj=()):
        self.base = base          # ('param', i) | ('local', l) | ('upvar', k) | ('unknown', why) | ('static', path)
        self.proj = tuple(proj)

    def extend(self, proj):
        return Target(self.base, self.proj + tuple(proj))

    def key(self):
        return (self.base, self.proj)

    def __repr__(self):
        return "T(%s %s)" % (self.base, self.proj)


def field_chain(proj):
    """[(of, name, idx_in_proj)] for field projections on named ADTs; drops Box/Unique/NonNull internals."""
    out = []
    for i, p in enumerate(proj):
        if p[0] == "f" and p[3] and not _is_std_internal(p[3]):
            out.append((p[3], p[2], i))
    return out


def _is_std_internal(of):
    return of.startswith(("alloc::boxed::Box", "core::ptr::", "core::option::", "core::result::", "core::ops::", "alloc::"))


class Effects:
    def __init__(self, crate, extra_crates=()):
        self.crate = crate
        self.crates = [crate] + list(extra_crates)
        self.sum = {}
        self._ptr = {}
        self._typefields = {}
        self.compute()

    # ------------------------------------------------------------------ type graph
    def adt_by_name(self, tyname):
        """resolve a type string (as printed by rustc, e.g. `deflate::core::LZOxide`) to an ADT dict."""
        if not tyname:
            return None
        t = tyname.strip()
        for pre in ("alloc::boxed::Box<", "Box<"):
            if t.startswith(pre) and t.endswith(">"):
                t = t[len(pre):-1]
        if t.startswith("[") and ";" in t:
            t = t[1:t.rindex(";")].strip()
        t = t.split("<")[0]
        for c in self.crates:
            for p, a in c.adts.items():
                if p == t or p.endswith("::" + t):
                    return a
        return None

    def fields_of_type(self, tyname, seen=None):
        """all locations nested (by value or Box) inside a value of type `tyname`."""
        if tyname in self._typefields:
            return self._typefields[tyname]
        seen = seen or set()
        a = self.adt_by_name(tyname)
        out = set()
        if a and a["path"] not in seen and a["kind"] == "struct":
            seen = seen | {a["path"]}
            for v in a["variants"]:
                for f in v["fields"]:
                    out.add((a["path"], f["name"]))
                    out |= self.fields_of_type(f["ty"], seen)
        self._typefields[tyname] = out
        return out

    def field_type(self, of, name):
        for c in self.crates:
            a = c.adts.get(of)
            if a:
                for v in a["variants"]:
                    for f in v["fields"]:
                        if f["name"] == name:
                            return f["ty"]
        return None

    def nested(self, loc):
        """loc plus everything stored inside it."""
        t = self.field_type(loc[0], loc[1])
        return {loc} | (self.fields_of_type(t) if t else set())

    # ------------------------------------------------------------------ pointer targets
    def ptr_targets(self, fn, local, depth=0, stack=()):
        """set of Targets a pointer-typed local may point to (flow-insensitive over its definitions)."""
        key = (fn.id, local)
        if key in self._ptr:
            return self._ptr[key]
        if depth > 40 or key in stack:
            return {Target(("unknown", "cycle"))}
        stack = stack + (key,)
        out = set()
        tk = fn.locals[local]["tk"]
        if 1 <= local <= fn.argc:
            if fn.kind == "closure" and local == 1:
                out.add(Target(("closure_env",)))
            else:
                out.add(Target(("param", local)))
        for (bb, i) in fn.defs().get(local, []):
            if i == "t":
                t = fn.blocks[bb]["t"]
                out |= self._call_ret_targets(fn, t, depth, stack)
                continue
            rv = fn.blocks[bb]["s"][i]["a"][1]
            out |= self._rv_targets(fn, rv, depth, stack)
        res = {t.key(): t for t in out}
        vals = set(res.values())
        self._ptr[key] = vals
        return vals

    def _rv_targets(self, fn, rv, depth, stack):
        if "ref" in rv or "ptr" in rv:
            pl = Place(rv.get("ref") or rv.get("ptr"))
            return self.place_targets(fn, pl, depth + 1, stack)
        if "use" in rv:
            return self._operand_targets(fn, rv["use"], depth, stack)
        if "cast" in rv:
            return self._operand_targets(fn, rv["cast"][1], depth, stack, box_deref=True)
        if "agg" in rv:
            return {Target(("unknown", "agg"))}
        return {Target(("unknown", "rv"))}

    def _operand_targets(self, fn, o, depth, stack, box_deref=False):
        pl = o.get("c") or o.get("m")
        if pl is None:
            return {Target(("unknown", "const"))}
        pl = Place(pl)
        if pl.is_local():
            return self.ptr_targets(fn, pl.local, depth + 1, stack)
        # `_8.0.pointer` where _8 is (a copy of) a Box: pointer to the box's content
        proj = list(pl.proj)
        if len(proj) >= 2 and proj[-1][0] == "f" and proj[-1][2] == "pointer" and proj[-2][0] == "f" and \
                proj[-2][3].startswith("alloc::boxed::Box"):
            boxplace = (pl.local, tuple(proj[:-2]))
            outs = set()
            for t in self.value_sources(fn, boxplace[0], boxplace[1], depth + 1, stack):
                outs.add(t.extend([("deref",)]))
            return outs
        # a pointer stored in a field (closure upvar, struct holding references)
        outs = set()
        for t in self.place_targets(fn, pl, depth + 1, stack):
            outs.add(Target(("ptr_in", t.key())))
        return outs

    def value_sources(self, fn, local, proj, depth, stack):
        """Targets naming where the *value* `local.proj` lives: for a local that is a by-value copy of a
        place (`_8 = copy (*_1).huff`) the original place, else the local itself."""
        defs = fn.defs().get(local, [])
        if len(defs) == 1 and defs[0][1] != "t" and not (1 <= local <= fn.argc):
            rv = fn.blocks[defs[0][0]]["s"][defs[0][1]]["a"][1]
            if "use" in rv and ("c" in rv["use"] or "m" in rv["use"]):
                src = Place(rv["use"].get("c") or rv["use"].get("m"))
                if fn.locals[local]["ty"].startswith("alloc::boxed::Box") or "Box<" in fn.locals[local]["ty"]:
                    return {t.extend(proj) for t in self.place_targets(fn, src, depth + 1, stack)}
        return {Target(("local", local), proj)}

    def place_targets(self, fn, pl, depth=0, stack=()):
        """Targets denoted by an lvalue place: resolves leading derefs of pointer locals."""
        proj = list(pl.proj)
        if proj and proj[0][0] == "deref":
            outs = set()
            for t in self.ptr_targets(fn, pl.local, depth + 1, stack):
                if t.base[0] == "ptr_in":
                    # deref of a pointer loaded from a place: closure upvar or reference-holding field
                    inner_base, inner_proj = t.base[1]
                    outs |= self._deref_ptr_in(fn, inner_base, inner_proj, proj[1:])
                else:
                    outs.add(t.extend(proj[1:]))
            return outs
        # deref in the middle (e.g. (*((*_1).0)) for closure upvars, or Box fields)
        for i, p in enumerate(proj):
            if p[0] == "deref" and i > 0:
                head = Place({"l": pl.local, "p": []})
                head.proj = tuple(proj[:i])
                outs = set()
                for t in self.place_targets(fn, head, depth + 1, stack):
                    outs |= self._deref_ptr_in(fn, t.base, t.proj, proj[i + 1:])
                return outs
        return {Target(("local", pl.local), proj)}

    def _deref_ptr_in(self, fn, base, proj, rest):
        """pointee of the pointer stored at base.proj, extended by `rest`."""
        # closure environment field k -> upvar k
        if base == ("closure_env",) or (base[0] == "param" and fn.kind == "closure" and base[1] == 1):
            flds = [p for p in proj if p[0] == "f"]
            if flds:
                return {Target(("upvar", flds[0][1]), rest)}
        # Box field: the content is owned by the field → same location, marked by a deref projection
        last = proj[-1] if proj else None
        if last and last[0] == "f":
            fty = self.field_type(last[3], last[2]) or ""
            if fty.startswith("alloc::boxed::Box") or fty.startswith("Box<"):
                return {Target(base, tuple(proj) + (("deref",),) + tuple(rest))}
        if field_chain(proj):
            # a reference held in a named field: writes through it are attributed to that field, element-wise
            return {Target(base, tuple(proj) + (("deref",), ("elem",)) + tuple(rest))}
        if base[0] == "param" and not field_chain(proj):
            # `**p` for p: &mut &mut T — the caller's referent
            return {Target(base, tuple(proj) + (("deref",), ("elem",)) + tuple(rest))}
        return {Target(("unknown", "ptr-in-place"), rest)}

    def _call_ret_targets(self, fn, t, depth, stack):
        cid = callee_id(t["call"])
        s = self.sum.get(cid)
        outs = set()
        if s is not None:
            for r in s["ret"]:
                if r[0] == "param":
                    a = t["args"][r[1] - 1] if r[1] - 1 < len(t["args"]) else None
                    if a is not None:
                        for tt in self._operand_targets(fn, a, depth + 1, stack):
                            outs.add(tt.extend(r[2]))
                elif r[0] == "loc":
                    outs.add(Target(("typed", r[1], r[2])))
                else:
                    outs.add(Target(("unknown", "ret-of " + callee_name(t["call"]))))
            if not s["ret"]:
                outs.add(Target(("unknown", "ret-of " + callee_name(t["call"]))))
            return outs
        name = callee_name(t["call"])
        # std helpers returning a reference derived from their first argument
        if t["args"] and any(name.endswith(x) for x in (
                "::index", "::index_mut", "::deref", "::deref_mut", "::as_mut", "::as_ref", "::as_slice",
                "::as_mut_slice", "::get_mut", "::borrow_mut", "::borrow", "mem::take", "::split_at_mut", "::iter_mut",
                "::iter", "::unwrap", "::expect", "::get", "::into_iter", "::next", "::first", "::last")):
            for tt in self._operand_targets(fn, t["args"][0], depth + 1, stack):
                outs.add(tt.extend([("elem",)]))
            return outs
        return {Target(("unknown", "ret-of " + name))}

    # ------------------------------------------------------------------ classification of an access
    def classify(self, fn, pl, targets=None):
        """-> list of ('loc', of, field, whole: bool) | ('param', i, whole) | ('upvar', k, whole) | ('local',) |
        ('unknown', why) for an access to place `pl`."""
        out = []
        for t in (targets if targets is not None else self.place_targets(fn, pl)):
            ch = field_chain(t.proj)
            if t.base[0] == "typed":
                if ch:
                    of, name, idx = ch[-1]
                    out.append(("loc", of, name, self._whole_after(t.proj, idx)))
                else:
                    out.append(("loc", t.base[1], t.base[2], not t.proj))
                continue
            if ch:
                of, name, idx = ch[-1]
                out.append(("loc", of, name, self._whole_after(t.proj, idx), tuple((a, b) for a, b, _ in ch[:-1])))
                continue
            whole = not any(p[0] in ("i", "ci", "sub", "elem") for p in t.proj)
            if t.base[0] == "param":
                out.append(("param", t.base[1], whole))
            elif t.base[0] == "upvar":
                out.append(("upvar", t.base[1], whole))
            elif t.base[0] == "local":
                out.append(("local", t.base[1]))
            elif t.base[0] == "closure_env":
                out.append(("local", 1))
            else:
                out.append(("unknown", str(t.base)))
        return out

    @staticmethod
    def _whole_after(proj, idx):
        return not any(p[0] in ("i", "ci", "sub", "elem") for p in proj[idx + 1:])

    # ------------------------------------------------------------------ summaries
    def compute(self):
        fns = [f for f in self.crate.fns.values() if f.kind != "promoted"]
        for f in fns:
            self.sum[f.id] = self._empty()
        for c in self.crates[1:]:
            for f in c.fns.values():
                if f.kind != "promoted":
                    self.sum.setdefault(f.id, self._empty())
        changed = True
        rounds = 0
        allf = [f for c in self.crates for f in c.fns.values() if f.kind != "promoted"]
        while changed and rounds < 12:
            changed = False
            rounds += 1
            self._ptr = {}
            for f in allf:
                s = self._summarise(f)
                if s != self.sum[f.id]:
                    self.sum[f.id] = s
                    changed = True

    @staticmethod
    def _empty():
        return {"W": frozenset(), "Wel": frozenset(), "WP": frozenset(), "MW": frozenset(), "MWP": frozenset(),
                "R": frozenset(), "RP": frozenset(), "ret": frozenset(), "unknown": (), "WU": frozenset(),
                "calls": frozenset()}

    def lookup(self, cid):
        return self.sum.get(cid)

    def _summarise(self, fn):
        W, Wel, WP, R, RP, WU = set(), set(), set(), set(), set(), set()
        RET = set()
        unknown = []
        calls = set()

        Wwhole = set()

        def add_write(cls, sp, elem_only=False, from_callee=False):
            for c in cls:
                if c[0] == "loc":
                    loc = (c[1], c[2])
                    if c[3] and not elem_only:
                        if from_callee:
                            W.add(loc)
                            Wwhole.add(loc)
                        else:
                            n = self.nested(loc)
                            W.update(n)
                            Wwhole.update(n)
                    else:
                        W.add(loc)
                        Wel.add(loc)
                    if len(c) > 4:
                        for anc in c[4]:
                            W.add(anc)
                            Wel.add(anc)
                elif c[0] == "param":
                    WP.add(c[1])
                elif c[0] == "upvar":
                    WU.add(c[1])
                elif c[0] == "unknown":
                    unknown.append(("write", c[1], sp))

        def add_read(cls):
            for c in cls:
                if c[0] == "loc":
                    R.add((c[1], c[2]))
                elif c[0] == "param":
                    RP.add(c[1])

        def read_operand(o):
            pl = o.get("c") or o.get("m")
            if pl is not None and pl["p"]:
                add_read(self.classify(fn, Place(pl)))

        for bb, blk in enumerate(fn.blocks):
            for s in blk["s"]:
                if "a" not in s:
                    continue
                pl = Place(s["a"][0])
                rv = s["a"][1]
                if pl.proj:
                    add_write(self.classify(fn, pl), s.get("sp"))
                for key in ("use",):
                    if key in rv:
                        read_operand(rv[key])
                if "bin" in rv:
                    read_operand(rv["bin"][1])
                    read_operand(rv["bin"][2])
                if "un" in rv:
                    read_operand(rv["un"][1])
                if "cast" in rv:
                    read_operand(rv["cast"][1])
                if "agg" in rv:
                    for o in rv["agg"]["ops"]:
                        read_operand(o)
                        ac = self._arg_classes(fn, o)
                        if ac and ac[1].get("mut"):
                            for cc in ac[0]:
                                if cc[0] == "param":
                                    RET.add(cc[1])
                if "discr" in rv:
                    add_read(self.classify(fn, Place(rv["discr"])))
                if "repeat" in rv:
                    read_operand(rv["repeat"][0])
            t = blk["t"]
            if "switch" in t:
                read_operand(t["switch"])
            if "assert" in t:
                read_operand(t["assert"])
            if "call" in t:
                self._call_effects(fn, t, add_write, add_read, unknown, read_operand, calls)
                if t["dest"]["p"]:
                    add_write(self.classify(fn, Place(t["dest"])), t.get("sp"))
        MW, MWP = self._must_writes(fn)
        ret = set()
        if _is_ptr_ty(fn.locals[0]["tk"]):
            for tt in self.ptr_targets(fn, 0):
                ch = field_chain(tt.proj)
                if ch:
                    ret.add(("loc", ch[-1][0], ch[-1][1]))
                elif tt.base[0] == "param":
                    ret.add(("param", tt.base[1], tt.proj))
                elif tt.base[0] == "typed":
                    ret.add(("loc", tt.base[1], tt.base[2]))
                else:
                    ret.add(("unknown",))
        # a &mut parameter retained in a returned / constructed value may be written later through that value
        WP |= RET
        return {"W": frozenset(W), "Wel": frozenset(Wel - Wwhole), "WP": frozenset(WP),
                "MW": frozenset(MW), "MWP": frozenset(MWP), "R": frozenset(R), "RP": frozenset(RP),
                "ret": frozenset(ret), "unknown": tuple(sorted(set(map(str, unknown))))[:20], "WU": frozenset(WU),
                "calls": frozenset(calls)}

    def _arg_classes(self, fn, o):
        """classification of the pointee of a pointer-valued argument operand."""
        pl = o.get("c") or o.get("m")
        if pl is None:
            return None
        pl = Place(pl)
        tk = None
        if pl.is_local():
            tk = fn.locals[pl.local]["tk"]
            if not _is_ptr_ty(tk):
                return None
            tg = self.ptr_targets(fn, pl.local)
            return self.classify(fn, None, tg), tk
        return None

    def _call_effects(self, fn, t, add_write, add_read, unknown, read_operand, calls):
        c = t["call"]
        cid = callee_id(c)
        name = callee_name(c)
        calls.add(cid or name)
        s = self.sum.get(cid) if cid else None
        for o in t["args"]:
            read_operand(o)
        if s is not None:
            # crate-local callee: type-based sets carry over; parameter pointees map through arguments
            add_write([("loc", of, f, (of, f) not in s["Wel"]) for (of, f) in s["W"]], t.get("sp"), from_callee=True)
            add_read([("loc", of, f, False) for (of, f) in s["R"]])
            for j in s["WP"]:
                if j - 1 < len(t["args"]):
                    ac = self._arg_classes(fn, t["args"][j - 1])
                    if ac:
                        add_write(ac[0], t.get("sp"), elem_only=(j not in s["MWP"]))
            for j in s["RP"]:
                if j - 1 < len(t["args"]):
                    ac = self._arg_classes(fn, t["args"][j - 1])
                    if ac:
                        add_read(ac[0])
            # closures handed to the callee (or called here): attribute their effects to this call
            for cl in c.get("closures", []):
                self._closure_effects(fn, t, cl, add_write, add_read)
            return
        # direct call of a closure value: <F as FnOnce>::call_once etc. resolved to the closure body
        if cid and cid in self.sum:
            return
        # external callee
        for cl in c.get("closures", []):
            self._closure_effects(fn, t, cl, add_write, add_read)
        pure_readers = ("::len", "::is_empty", "::eq", "::ne", "::clone", "::cmp", "::partial_cmp", "::min", "::max")
        for j, o in enumerate(t["args"]):
            ac = self._arg_classes(fn, o)
            if not ac:
                continue
            cls, tk = ac
            add_read(cls)
            if tk.get("mut"):
                whole = any(name.endswith(x) for x in ("::fill", "::copy_from_slice", "::clone_from_slice", "mem::replace",
                                                        "mem::swap", "mem::take", "ptr::write"))
                if any(name.endswith(x) for x in pure_readers):
                    continue
                add_write([(k[0],) + tuple(k[1:3]) + (whole and k[3],) if k[0] == "loc" else k for k in cls],
                          t.get("sp"), elem_only=not whole)

    def _closure_effects(self, fn, t, cl, add_write, add_read):
        s = self.sum.get(cl)
        if s is None:
            return
        add_write([("loc", of, f, (of, f) not in s["Wel"]) for (of, f) in s["W"]], t.get("sp"), from_callee=True)
        add_read([("loc", of, f, False) for (of, f) in s["R"]])
        # upvars written through: find the closure aggregate in this function
        if s["WU"]:
            for bb, blk in enumerate(fn.blocks):
                for st in blk["s"]:
                    if "a" in st and "agg" in st["a"][1] and st["a"][1]["agg"].get("kind") == "closure" and \
                            st["a"][1]["agg"]["def"] == cl:
                        ops = st["a"][1]["agg"]["ops"]
                        for k in s["WU"]:
                            if k < len(ops):
                                ac = self._arg_classes(fn, ops[k])
                                if ac:
                                    add_write(ac[0], t.get("sp"), elem_only=True)

    # ------------------------------------------------------------------ must-write dataflow
    def _must_writes(self, fn):
        n = len(fn.blocks)
        gen = [set() for _ in range(n)]
        genp = [set() for _ in range(n)]
        for bb, blk in enumerate(fn.blocks):
            for s in blk["s"]:
                if "a" not in s:
                    continue
                pl = Place(s["a"][0])
                if pl.proj:
                    cls = self.classify(fn, pl)
                    if len(cls) == 1:
                        c = cls[0]
                        if c[0] == "loc" and c[3]:
                            gen[bb] |= self.nested((c[1], c[2]))
                        elif c[0] == "param" and c[2]:
                            genp[bb].add(c[1])
            t = blk["t"]
            if "call" in t:
                cid = callee_id(t["call"])
                name = callee_name(t["call"])
                s = self.sum.get(cid) if cid else None
                if s is not None:
                    gen[bb] |= set(s["MW"])
                    for j in s["MWP"]:
                        if j - 1 < len(t["args"]):
                            ac = self._arg_classes(fn, t["args"][j - 1])
                            if ac and len(ac[0]) == 1:
                                c = ac[0][0]
                                if c[0] == "loc" and c[3]:
                                    gen[bb] |= self.nested((c[1], c[2]))
                                elif c[0] == "param" and c[2]:
                                    genp[bb].add(c[1])
                elif name.endswith("::for_each") and "Iterator" in name and t["args"] and t["call"].get("closures"):
                    # `place.iter_mut().for_each(|x| *x = v)`: every element is assigned when the closure must-writes its argument
                    cl = t["call"]["closures"][0]
                    cs = self.sum.get(cl)
                    o0 = t["args"][0]
                    pl0 = (o0.get("m") or o0.get("c")) if isinstance(o0, dict) else None
                    if cs is not None and cs["MWP"] and pl0 is not None and not pl0["p"]:
                        ds = fn.defs().get(pl0["l"], [])
                        if len(ds) == 1 and ds[0][1] == "t":
                            t2 = fn.blocks[ds[0][0]]["t"]
                            if "call" in t2 and callee_name(t2["call"]).endswith("::iter_mut") and t2["args"]:
                                ac = self._arg_classes(fn, t2["args"][0])
                                if ac and len(ac[0]) == 1:
                                    c = ac[0][0]
                                    if c[0] == "loc" and c[3]:
                                        gen[bb] |= self.nested((c[1], c[2]))
                                    elif c[0] == "param" and c[2]:
                                        genp[bb].add(c[1])
                elif any(name.endswith(x) for x in ("::fill", "mem::replace", "ptr::write")):
                    if t["args"]:
                        ac = self._arg_classes(fn, t["args"][0])
                        if ac and len(ac[0]) == 1:
                            c = ac[0][0]
                            if c[0] == "loc" and c[3]:
                                gen[bb] |= self.nested((c[1], c[2]))
                            elif c[0] == "param" and c[2]:
                                genp[bb].add(c[1])
                if t["dest"]["p"]:
                    cls = self.classify(fn, Place(t["dest"]))
                    if len(cls) == 1 and cls[0][0] == "loc" and cls[0][3]:
                        gen[bb] |= self.nested((cls[0][1], cls[0][2]))
        # complete-traversal loops: credited on the edge that leaves the loop normally (traversal.py)
        import traversal
        edge_gen = {}
        for (u, v), keys in traversal.LoopMW(self, fn).run().items():
            a, ap = set(), set()
            for k in keys:
                if k[0] == "loc":
                    a |= self.nested((k[1], k[2]))
                elif k[0] == "param":
                    ap.add(k[1])
            if a or ap:
                edge_gen[(u, v)] = (frozenset(a), frozenset(ap))
        # forward must analysis: IN[b] = ∩ OUT[p]
        TOP = None
        inn = [TOP] * n
        out = [TOP] * n
        inn[0] = (frozenset(), frozenset())
        work = [0]
        reach = fn.reachable(0)
        changed = True
        order = sorted(reach)
        while changed:
            changed = False
            for b in order:
                if b != 0:
                    ps = [out[p] if (p, b) not in edge_gen else (out[p][0] | edge_gen[(p, b)][0], out[p][1] | edge_gen[(p, b)][1])
                          for p in fn.preds(b) if p in reach and out[p] is not TOP]
                    if not ps:
                        continue
                    a = frozenset.intersection(*[p[0] for p in ps])
                    ap = frozenset.intersection(*[p[1] for p in ps])
                    new_in = (a, ap)
                else:
                    new_in = inn[0]
                new_out = (frozenset(new_in[0] | gen[b]), frozenset(new_in[1] | genp[b]))
                if new_in != inn[b] or new_out != out[b]:
                    inn[b] = new_in
                    out[b] = new_out
                    changed = True
        rets = [b for b in fn.return_blocks() if b in reach and out[b] is not TOP]
        if not rets:
            return set(), set()
        mw = frozenset.intersection(*[out[b][0] for b in rets])
        mwp = frozenset.intersection(*[out[b][1] for b in rets])
        return set(mw), set(mwp)

    # ------------------------------------------------------------------ queries
    def writers(self, loc, direct_only=False):
        """functions that may write `loc`"""
        return sorted(f for f, s in self.sum.items() if loc in s["W"])

    def may_write(self, cid, of, field):
        s = self.sum.get(cid)
        if s is None:
            return True
        return (of, field) in s["W"]
