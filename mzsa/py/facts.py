"""Fact extraction orchestration and loading.

Every extraction analyses /repo's *current working tree* (cache key = hash of every source /
manifest / lock file under /repo plus the driver binary) with the `mzfacts` rustc_private driver as
RUSTC_WORKSPACE_WRAPPER, in a fresh CARGO_TARGET_DIR that is removed afterwards.
"""
import hashlib
import json
import os
import shutil
import subprocess
import sys
import tempfile
import threading
import time

VERIF = os.path.dirname(os.path.dirname(os.path.dirname(os.path.abspath(__file__))))
REPO = os.environ.get("MZSA_REPO", "/repo")
DRIVER_DIR = os.path.join(VERIF, "mzsa", "driver")
DRIVER = os.path.join(DRIVER_DIR, "target", "release", "mzfacts")
CACHE = os.path.join(VERIF, ".cache", hashlib.sha256(os.path.abspath(REPO).encode()).hexdigest()[:8])

RELEASE_FLAGS = "-Zmir-opt-level=0 -Awarnings -Cdebug-assertions=off -Coverflow-checks=off"
DEBUG_FLAGS = "-Zmir-opt-level=0 -Awarnings -Cdebug-assertions=on -Coverflow-checks=on"

# name -> (subdir of /repo, cargo args, rustflags, crate whose facts are the config's subject)
CONFIGS = {
    "H0": ("miniz_oxide", ["--no-default-features"], RELEASE_FLAGS, "miniz_oxide"),
    "H1": ("miniz_oxide", [], RELEASE_FLAGS, "miniz_oxide"),
    "H2": ("miniz_oxide", ["--features", "std"], RELEASE_FLAGS, "miniz_oxide"),
    "H3": ("miniz_oxide", ["--features", "serde"], RELEASE_FLAGS, "miniz_oxide"),
    "H4": ("miniz_oxide", ["--features", "block-boundary"], RELEASE_FLAGS, "miniz_oxide"),
    "H5": ("miniz_oxide", ["--features", "simd"], RELEASE_FLAGS, "miniz_oxide"),
    "H6": ("miniz_oxide", ["--features", "std,serde,block-boundary,simd"], RELEASE_FLAGS, "miniz_oxide"),
    "H7": ("miniz_oxide", ["--no-default-features", "--features", "serde,block-boundary,simd"],
           RELEASE_FLAGS, "miniz_oxide"),
    "H1d": ("miniz_oxide", [], DEBUG_FLAGS, "miniz_oxide"),
    "CAPI": (".", ["-p", "miniz_oxide_c_api"], RELEASE_FLAGS, "miniz_oxide_c_api"),
    "T0": ("miniz_oxide", ["--no-default-features", "-Zbuild-std=core", "--target", "thumbv7em-none-eabi"],
           RELEASE_FLAGS, "miniz_oxide"),
    "T1": ("miniz_oxide", ["-Zbuild-std=core,alloc", "--target", "thumbv7em-none-eabi"],
           RELEASE_FLAGS, "miniz_oxide"),
    "T1d": ("miniz_oxide", ["-Zbuild-std=core,alloc", "--target", "thumbv7em-none-eabi"],
            DEBUG_FLAGS, "miniz_oxide"),
    "N0": ("miniz_oxide", ["--no-default-features", "-Zbuild-std=core", "--target", "x86_64-unknown-none"],
           RELEASE_FLAGS, "miniz_oxide"),
    # optional dependencies must not drag std (or, for N5, alloc) in: sysroots without them
    "N5": ("miniz_oxide", ["--no-default-features", "--features", "simd", "-Zbuild-std=core", "--target", "x86_64-unknown-none"],
           RELEASE_FLAGS, "miniz_oxide"),
    "N7": ("miniz_oxide", ["--no-default-features", "--features", "with-alloc,serde,block-boundary,simd", "-Zbuild-std=core,alloc",
                           "--target", "x86_64-unknown-none"], RELEASE_FLAGS, "miniz_oxide"),
}


class AnalysisError(Exception):
    pass


_sysroot = None


def nightly_sysroot():
    global _sysroot
    if _sysroot is None:
        _sysroot = subprocess.check_output(["rustc", "+nightly", "--print", "sysroot"], text=True).strip()
    return _sysroot


def ensure_driver():
    """(Re)build the driver when missing or older than its sources."""
    srcs = [os.path.join(DRIVER_DIR, "src", "main.rs"), os.path.join(DRIVER_DIR, "Cargo.toml")]
    need = not os.path.exists(DRIVER)
    if not need:
        m = os.path.getmtime(DRIVER)
        need = any(os.path.getmtime(s) > m for s in srcs)
    if need:
        env = dict(os.environ, CARGO_NET_OFFLINE="true")
        r = subprocess.run(["cargo", "+nightly", "build", "--release", "--offline"], cwd=DRIVER_DIR,
                           env=env, stdout=subprocess.PIPE, stderr=subprocess.STDOUT, text=True)
        if r.returncode != 0 or not os.path.exists(DRIVER):
            raise AnalysisError("cannot build mzfacts driver:\n" + r.stdout[-4000:])


def _iter_repo_files():
    skip_dirs = {".git", "target", "miniz", "benches", "fuzz", "examples", "tests"}
    for root, dirs, files in os.walk(REPO):
        rel = os.path.relpath(root, REPO)
        top = rel.split(os.sep)[0]
        if rel == ".":
            dirs[:] = sorted(d for d in dirs if d not in skip_dirs)
        else:
            dirs[:] = sorted(d for d in dirs if d not in {".git", "target"})
        for f in sorted(files):
            if f.endswith((".rs", ".toml", ".lock")):
                yield os.path.join(root, f)


_tree_key = None


def tree_key():
    global _tree_key
    if _tree_key is None:
        h = hashlib.sha256()
        for p in _iter_repo_files():
            h.update(os.path.relpath(p, REPO).encode())
            h.update(b"\0")
            with open(p, "rb") as fh:
                h.update(fh.read())
            h.update(b"\0")
        # tests/ and benches are not part of any `cargo check` lib build, but include tests of the
        # workspace members' manifests through the walk above.
        with open(DRIVER, "rb") as fh:
            h.update(hashlib.sha256(fh.read()).digest())
        _tree_key = h.hexdigest()[:24]
    return _tree_key


def cache_dir():
    d = os.path.join(CACHE, tree_key())
    if not os.path.isdir(d):
        os.makedirs(d, exist_ok=True)
        # keep the few most recently used keys (the unchanged tree stays cached while a modified tree is analysed in between)
        if not os.environ.get("MZSA_KEEP_CACHE"):
            others = [o for o in os.listdir(CACHE) if o != tree_key()]
            others.sort(key=lambda o: os.path.getmtime(os.path.join(CACHE, o)), reverse=True)
            for other in others[3:]:
                shutil.rmtree(os.path.join(CACHE, other), ignore_errors=True)
    else:
        try:
            os.utime(d, None)
        except OSError:
            pass
    return d


_locks = {}
_locks_guard = threading.Lock()


def extract(config):
    """Make sure facts for `config` exist in the cache; returns the directory holding <crate>.json.
    Raises AnalysisError (with the compiler output) when the configuration does not build."""
    ensure_driver()
    sub, cargo_args, rustflags, subject = CONFIGS[config]
    out = os.path.join(cache_dir(), config)
    okfile = os.path.join(out, "OK")
    failfile = os.path.join(out, "FAILED")
    with _locks_guard:
        lk = _locks.setdefault(config, threading.Lock())
    with lk:
        if os.path.exists(okfile):
            return out
        if os.path.exists(failfile):
            raise AnalysisError("configuration %s does not build:\n%s" % (config, open(failfile).read()))
        os.makedirs(out, exist_ok=True)
        # several checks started at the same time need the same configuration: only one process extracts it, the others wait
        import fcntl
        lockfh = open(os.path.join(out, ".lock"), "w")
        fcntl.flock(lockfh, fcntl.LOCK_EX)
        if os.path.exists(okfile):
            lockfh.close()
            return out
        if os.path.exists(failfile):
            lockfh.close()
            raise AnalysisError("configuration %s does not build:\n%s" % (config, open(failfile).read()))
        tmp = tempfile.mkdtemp(prefix="mzsa-tgt-")
        try:
            env = dict(os.environ)
            env.update({
                "CARGO_NET_OFFLINE": "true",
                "LD_LIBRARY_PATH": os.path.join(nightly_sysroot(), "lib") + ":" + env.get("LD_LIBRARY_PATH", ""),
                "RUSTFLAGS": rustflags,
                "RUSTC_WORKSPACE_WRAPPER": DRIVER,
                "MZFACTS_OUT": out,
                "CARGO_TARGET_DIR": os.path.join(tmp, "tgt"),
                "CARGO_INCREMENTAL": "0",
            })
            env.pop("RUSTC_WRAPPER", None)
            cmd = ["cargo", "+nightly", "check", "--offline", "--lib"] + cargo_args
            t0 = time.time()
            r = subprocess.run(cmd, cwd=os.path.join(REPO, sub), env=env, stdout=subprocess.PIPE,
                               stderr=subprocess.STDOUT, text=True)
            dt = time.time() - t0
            if r.returncode != 0:
                msg = "\n".join(l for l in r.stdout.splitlines() if not l.startswith("process didn't"))[-6000:]
                with open(failfile, "w") as fh:
                    fh.write(msg)
                raise AnalysisError("configuration %s does not build:\n%s" % (config, msg))
            if not os.path.exists(os.path.join(out, subject + ".json")):
                raise AnalysisError("driver produced no facts for %s in %s (cargo freshness cache?)\n%s"
                                    % (subject, config, r.stdout[-2000:]))
            with open(okfile, "w") as fh:
                fh.write("%.1f\n" % dt)
        finally:
            shutil.rmtree(tmp, ignore_errors=True)
            lockfh.close()
    return out


def extract_many(configs):
    """Extract several configurations in parallel; returns {config: dir | AnalysisError}."""
    res = {}

    def work(c):
        try:
            res[c] = extract(c)
        except AnalysisError as e:
            res[c] = e

    ths = [threading.Thread(target=work, args=(c,)) for c in configs]
    for t in ths:
        t.start()
    for t in ths:
        t.join()
    return res


_loaded = {}


def load(config, crate=None):
    """Load the fact document of `crate` (default: the config's subject crate) in `config`."""
    sub, cargo_args, rustflags, subject = CONFIGS[config]
    crate = crate or subject
    k = (config, crate)
    if k not in _loaded:
        d = extract(config)
        p = os.path.join(d, crate + ".json")
        if not os.path.exists(p):
            raise AnalysisError("no facts for crate %s in configuration %s" % (crate, config))
        with open(p) as fh:
            _loaded[k] = json.load(fh)
    return _loaded[k]


def lex(files):
    ensure_driver()
    env = dict(os.environ)
    env["LD_LIBRARY_PATH"] = os.path.join(nightly_sysroot(), "lib") + ":" + env.get("LD_LIBRARY_PATH", "")
    r = subprocess.run([DRIVER, "--lex"] + list(files), env=env, stdout=subprocess.PIPE,
                       stderr=subprocess.PIPE, text=True)
    if r.returncode != 0:
        raise AnalysisError("lexer failed: " + r.stderr[-2000:])
    return json.loads(r.stdout)


if __name__ == "__main__":
    cfgs = sys.argv[1:] or ["H1"]
    t0 = time.time()
    r = extract_many(cfgs)
    for c, v in r.items():
        print(c, v if not isinstance(v, Exception) else "ERROR " + str(v)[:2000])
    print("%.1fs" % (time.time() - t0))
