// mzfacts — fact extractor for the miniz_oxide static verification harness.
//
// Modes:
//   mzfacts <rustc> <rustc args…>      RUSTC_WORKSPACE_WRAPPER mode: compile as rustc would, and when
//                                      the crate is one we care about and $MZFACTS_OUT is set, serialise
//                                      the type-checked crate (items, constants, MIR) to one JSON file.
//   mzfacts --lex <file…>              tokenise files with rustc's own lexer; one JSON object on stdout.
//
// No library code of the analysed crate is executed; everything comes from the compiler's tables.
#![feature(rustc_private)]
#![feature(box_patterns)]

extern crate rustc_abi;
extern crate rustc_ast;
extern crate rustc_driver;
extern crate rustc_hir;
extern crate rustc_interface;
extern crate rustc_lexer;
extern crate rustc_lint;
extern crate rustc_middle;
extern crate rustc_session;
extern crate rustc_span;

use rustc_driver::{Callbacks, Compilation};
use rustc_hir::def::DefKind;
use rustc_hir::def_id::{DefId, LocalDefId, LOCAL_CRATE};
use rustc_interface::interface::Compiler;
use rustc_middle::mir::{
    self, AggregateKind, BinOp, Body, CastKind, Operand, Place, ProjectionElem, Rvalue,
    StatementKind, TerminatorKind, UnOp,
};
use rustc_middle::ty::{self, Ty, TyCtxt};
use std::fmt::Write as _;

// ------------------------------------------------------------------------------------------
// tiny JSON writer
// ------------------------------------------------------------------------------------------
fn jstr(s: &str) -> String {
    let mut o = String::with_capacity(s.len() + 2);
    o.push('"');
    for c in s.chars() {
        match c {
            '"' => o.push_str("\\\""),
            '\\' => o.push_str("\\\\"),
            '\n' => o.push_str("\\n"),
            '\r' => o.push_str("\\r"),
            '\t' => o.push_str("\\t"),
            c if (c as u32) < 0x20 => {
                let _ = write!(o, "\\u{:04x}", c as u32);
            }
            c => o.push(c),
        }
    }
    o.push('"');
    o
}
fn jarr(v: &[String]) -> String {
    let mut o = String::from("[");
    for (i, x) in v.iter().enumerate() {
        if i > 0 {
            o.push(',');
        }
        o.push_str(x);
    }
    o.push(']');
    o
}
fn jobj(v: &[(&str, String)]) -> String {
    let mut o = String::from("{");
    for (i, (k, x)) in v.iter().enumerate() {
        if i > 0 {
            o.push(',');
        }
        o.push_str(&jstr(k));
        o.push(':');
        o.push_str(x);
    }
    o.push('}');
    o
}
fn jbool(b: bool) -> String {
    if b { "true".into() } else { "false".into() }
}
fn jnull() -> String {
    "null".into()
}

// ------------------------------------------------------------------------------------------
// lexer mode
// ------------------------------------------------------------------------------------------
fn lex_mode(files: &[String]) -> i32 {
    let mut out = Vec::new();
    for f in files {
        let src = match std::fs::read_to_string(f) {
            Ok(s) => s,
            Err(e) => {
                eprintln!("mzfacts --lex: cannot read {f}: {e}");
                return 2;
            }
        };
        let mut toks = Vec::new();
        let mut pos = 0usize;
        let mut line = 1usize;
        for t in rustc_lexer::tokenize(&src, rustc_lexer::FrontmatterAllowed::No) {
            let len = t.len as usize;
            let text = &src[pos..pos + len];
            use rustc_lexer::TokenKind as K;
            let kind = match t.kind {
                K::Ident => Some("ident"),
                K::RawIdent => Some("rawident"),
                K::Lifetime { .. } => None,
                K::Literal { .. } => Some("lit"),
                K::LineComment { .. } | K::BlockComment { .. } | K::Whitespace => None,
                K::Pound => Some("#"),
                K::Bang => Some("!"),
                K::OpenBracket => Some("["),
                K::CloseBracket => Some("]"),
                K::OpenParen => Some("("),
                K::CloseParen => Some(")"),
                K::OpenBrace => Some("{"),
                K::CloseBrace => Some("}"),
                K::Eq => Some("="),
                K::Comma => Some(","),
                K::Semi => Some(";"),
                K::Colon => Some(":"),
                _ => Some("p"),
            };
            if let Some(k) = kind {
                let txt = if k == "lit" && text.len() > 200 { &text[..200] } else { text };
                toks.push(jarr(&[jstr(k), jstr(txt), line.to_string()]));
            }
            line += text.bytes().filter(|b| *b == b'\n').count();
            pos += len;
        }
        out.push(jobj(&[("file", jstr(f)), ("bytes", src.len().to_string()), ("tokens", jarr(&toks))]));
    }
    println!("{}", jarr(&out));
    0
}

// ------------------------------------------------------------------------------------------
// fact extraction
// ------------------------------------------------------------------------------------------
struct Ex<'tcx> {
    tcx: TyCtxt<'tcx>,
    feats: Vec<String>,
}

impl<'tcx> Ex<'tcx> {
    fn path(&self, did: DefId) -> String {
        let tcx = self.tcx;
        let krate = tcx.crate_name(did.krate).to_string();
        let p = tcx.def_path(did).to_string_no_crate_verbose();
        format!("{krate}{p}")
    }
    fn span(&self, sp: rustc_span::Span) -> String {
        self.tcx.sess.source_map().span_to_diagnostic_string(sp)
    }

    fn tykind(&self, t: Ty<'tcx>) -> String {
        match t.kind() {
            ty::Bool => jobj(&[("k", jstr("bool"))]),
            ty::Char => jobj(&[("k", jstr("char"))]),
            ty::Int(i) => jobj(&[
                ("k", jstr("int")),
                ("bits", i.bit_width().unwrap_or(self.tcx.sess.target.pointer_width as u64).to_string()),
                ("signed", jbool(true)),
            ]),
            ty::Uint(u) => jobj(&[
                ("k", jstr("int")),
                ("bits", u.bit_width().unwrap_or(self.tcx.sess.target.pointer_width as u64).to_string()),
                ("signed", jbool(false)),
            ]),
            ty::Ref(_, inner, m) => jobj(&[
                ("k", jstr("ref")),
                ("mut", jbool(m.is_mut())),
                ("to", jstr(&format!("{inner}"))),
                ("tok", self.tykind_shallow(*inner)),
            ]),
            ty::RawPtr(inner, m) => jobj(&[
                ("k", jstr("rawptr")),
                ("mut", jbool(m.is_mut())),
                ("to", jstr(&format!("{inner}"))),
                ("tok", self.tykind_shallow(*inner)),
            ]),
            _ => self.tykind_shallow(t),
        }
    }
    fn tykind_shallow(&self, t: Ty<'tcx>) -> String {
        match t.kind() {
            ty::Bool => jobj(&[("k", jstr("bool"))]),
            ty::Int(i) => jobj(&[
                ("k", jstr("int")),
                ("bits", i.bit_width().unwrap_or(self.tcx.sess.target.pointer_width as u64).to_string()),
                ("signed", jbool(true)),
            ]),
            ty::Uint(u) => jobj(&[
                ("k", jstr("int")),
                ("bits", u.bit_width().unwrap_or(self.tcx.sess.target.pointer_width as u64).to_string()),
                ("signed", jbool(false)),
            ]),
            ty::Adt(adt, args) => {
                let a: Vec<String> = args.iter().map(|g| jstr(&format!("{g}"))).collect();
                jobj(&[("k", jstr("adt")), ("path", jstr(&self.path(adt.did()))), ("args", jarr(&a))])
            }
            ty::Array(elem, len) => {
                let n = len
                    .try_to_target_usize(self.tcx)
                    .map(|n| n.to_string())
                    .unwrap_or_else(jnull);
                jobj(&[("k", jstr("array")), ("len", n), ("elem", jstr(&format!("{elem}")))])
            }
            ty::Slice(elem) => jobj(&[("k", jstr("slice")), ("elem", jstr(&format!("{elem}")))]),
            ty::Tuple(ts) => {
                let a: Vec<String> = ts.iter().map(|g| jstr(&format!("{g}"))).collect();
                jobj(&[("k", jstr("tuple")), ("elems", jarr(&a))])
            }
            ty::Closure(did, _) => jobj(&[("k", jstr("closure")), ("def", jstr(&self.path(*did)))]),
            ty::FnDef(did, _) => jobj(&[("k", jstr("fndef")), ("def", jstr(&self.path(*did)))]),
            ty::FnPtr(..) => jobj(&[("k", jstr("fnptr"))]),
            ty::Param(p) => jobj(&[("k", jstr("param")), ("name", jstr(p.name.as_str()))]),
            ty::Ref(_, inner, m) => jobj(&[
                ("k", jstr("ref")),
                ("mut", jbool(m.is_mut())),
                ("to", jstr(&format!("{inner}"))),
            ]),
            ty::RawPtr(inner, m) => jobj(&[
                ("k", jstr("rawptr")),
                ("mut", jbool(m.is_mut())),
                ("to", jstr(&format!("{inner}"))),
            ]),
            ty::Str => jobj(&[("k", jstr("str"))]),
            ty::Never => jobj(&[("k", jstr("never"))]),
            _ => jobj(&[("k", jstr("other"))]),
        }
    }

    fn place(&self, body: &Body<'tcx>, p: &Place<'tcx>) -> String {
        let mut projs = Vec::new();
        let mut cur_ty = mir::PlaceTy::from_ty(body.local_decls[p.local].ty);
        for elem in p.projection.iter() {
            let s = match elem {
                ProjectionElem::Deref => jstr("deref"),
                ProjectionElem::Field(f, _) => {
                    // field name when the base is an ADT
                    let mut name = String::new();
                    let mut of = String::new();
                    if let ty::Adt(adt, _) = cur_ty.ty.kind() {
                        of = self.path(adt.did());
                        let vidx = cur_ty.variant_index.unwrap_or(rustc_abi::FIRST_VARIANT);
                        if adt.is_enum() || adt.is_struct() || adt.is_union() {
                            if let Some(v) = adt.variants().get(vidx) {
                                if let Some(fd) = v.fields.get(f) {
                                    name = fd.name.to_string();
                                }
                            }
                        }
                    }
                    if let ty::Closure(cd, _) = cur_ty.ty.kind() {
                        of = self.path(*cd);
                    }
                    jobj(&[("f", f.index().to_string()), ("n", jstr(&name)), ("of", jstr(&of))])
                }
                ProjectionElem::Index(l) => jobj(&[("i", l.index().to_string())]),
                ProjectionElem::ConstantIndex { offset, min_length, from_end } => jobj(&[
                    ("ci", offset.to_string()),
                    ("min", min_length.to_string()),
                    ("end", jbool(from_end)),
                ]),
                ProjectionElem::Subslice { from, to, from_end } => {
                    jobj(&[("sub", jarr(&[from.to_string(), to.to_string(), jbool(from_end)]))])
                }
                ProjectionElem::Downcast(name, vi) => jobj(&[
                    ("dc", vi.index().to_string()),
                    ("n", jstr(&name.map(|s| s.to_string()).unwrap_or_default())),
                ]),
                ProjectionElem::OpaqueCast(_) => jstr("opaque"),
                ProjectionElem::UnwrapUnsafeBinder(_) => jstr("unwrap_binder"),
            };
            projs.push(s);
            cur_ty = cur_ty.projection_ty(self.tcx, elem);
        }
        jobj(&[("l", p.local.index().to_string()), ("p", jarr(&projs))])
    }

    fn scalar_json(&self, t: Ty<'tcx>, si: ty::ScalarInt) -> Vec<(&'static str, String)> {
        let bits = si.size().bits();
        let raw: u128 = si.to_bits(si.size());
        let mut v = vec![("bits", bits.to_string())];
        let signed = matches!(t.kind(), ty::Int(_));
        let val = if signed {
            let shift = 128 - bits as u32;
            let sv = if bits == 0 { 0 } else { ((raw << shift) as i128) >> shift };
            sv.to_string()
        } else {
            raw.to_string()
        };
        v.push(("int", jstr(&val)));
        v.push(("signed", jbool(signed)));
        // enum variant name for field-less enums
        if let ty::Adt(adt, _) = t.kind() {
            if adt.is_enum() {
                for (vi, vd) in adt.variants().iter_enumerated() {
                    let d = adt.discriminant_for_variant(self.tcx, vi).val;
                    let mask = if bits >= 128 { u128::MAX } else { (1u128 << bits) - 1 };
                    if (d & mask) == raw {
                        v.push(("variant", jstr(vd.name.as_str())));
                        break;
                    }
                }
            }
        }
        v
    }

    fn constant(&self, owner: DefId, c: &mir::ConstOperand<'tcx>) -> String {
        let tcx = self.tcx;
        let t = c.const_.ty();
        let mut f: Vec<(&str, String)> = vec![("ty", jstr(&format!("{t}")))];
        match t.kind() {
            ty::FnDef(callee, args) => {
                let a: Vec<String> = args.iter().map(|g| jstr(&format!("{g}"))).collect();
                f.push(("fn", jstr(&self.path(*callee))));
                f.push(("fname", jstr(&tcx.def_path_str(*callee))));
                f.push(("args", jarr(&a)));
                return jobj(&[("k", jobj(&f))]);
            }
            _ => {}
        }
        if let mir::Const::Unevaluated(u, _) = c.const_ {
            if let Some(p) = u.promoted {
                f.push(("promoted", jstr(&format!("{}::{{promoted#{}}}", self.path(u.def), p.index()))));
            } else {
                f.push(("item", jstr(&self.path(u.def))));
            }
        }
        let env = ty::TypingEnv::post_analysis(tcx, owner);
        if let Some(si) = c.const_.try_eval_scalar_int(tcx, env) {
            for kv in self.scalar_json(t, si) {
                f.push(kv);
            }
        } else if t.is_unit() || matches!(t.kind(), ty::Closure(..)) {
            f.push(("zst", jbool(true)));
        } else {
            f.push(("dbg", jstr(&format!("{:?}", c.const_))));
        }
        jobj(&[("k", jobj(&f))])
    }

    fn operand(&self, owner: DefId, body: &Body<'tcx>, o: &Operand<'tcx>) -> String {
        match o {
            Operand::Copy(p) => jobj(&[("c", self.place(body, p))]),
            Operand::Move(p) => jobj(&[("m", self.place(body, p))]),
            Operand::Constant(c) => self.constant(owner, c),
            #[allow(unreachable_patterns)]
            _ => jobj(&[("other", jstr(&format!("{o:?}")))]),
        }
    }

    fn binop(op: BinOp) -> &'static str {
        match op {
            BinOp::Add | BinOp::AddUnchecked => "Add",
            BinOp::AddWithOverflow => "AddO",
            BinOp::Sub | BinOp::SubUnchecked => "Sub",
            BinOp::SubWithOverflow => "SubO",
            BinOp::Mul | BinOp::MulUnchecked => "Mul",
            BinOp::MulWithOverflow => "MulO",
            BinOp::Div => "Div",
            BinOp::Rem => "Rem",
            BinOp::BitXor => "BitXor",
            BinOp::BitAnd => "BitAnd",
            BinOp::BitOr => "BitOr",
            BinOp::Shl | BinOp::ShlUnchecked => "Shl",
            BinOp::Shr | BinOp::ShrUnchecked => "Shr",
            BinOp::Eq => "Eq",
            BinOp::Lt => "Lt",
            BinOp::Le => "Le",
            BinOp::Ne => "Ne",
            BinOp::Ge => "Ge",
            BinOp::Gt => "Gt",
            BinOp::Cmp => "Cmp",
            BinOp::Offset => "Offset",
        }
    }

    fn rvalue(&self, owner: DefId, body: &Body<'tcx>, rv: &Rvalue<'tcx>) -> String {
        match rv {
            Rvalue::Use(op, _) => jobj(&[("use", self.operand(owner, body, op))]),
            Rvalue::Ref(_, bk, p) => jobj(&[
                ("ref", self.place(body, p)),
                ("mut", jbool(matches!(bk, mir::BorrowKind::Mut { .. }))),
            ]),
            Rvalue::RawPtr(k, p) => jobj(&[
                ("ptr", self.place(body, p)),
                ("mut", jbool(format!("{k:?}").contains("Mut"))),
            ]),
            Rvalue::BinaryOp(op, box (a, b)) => jobj(&[(
                "bin",
                jarr(&[jstr(Self::binop(*op)), self.operand(owner, body, a), self.operand(owner, body, b)]),
            )]),
            Rvalue::UnaryOp(op, a) => {
                let n = match op {
                    UnOp::Not => "Not",
                    UnOp::Neg => "Neg",
                    UnOp::PtrMetadata => "PtrMetadata",
                };
                jobj(&[("un", jarr(&[jstr(n), self.operand(owner, body, a)]))])
            }
            Rvalue::Cast(kind, op, t) => {
                let k = match kind {
                    CastKind::IntToInt => "IntToInt".to_string(),
                    CastKind::Transmute => "Transmute".to_string(),
                    CastKind::PtrToPtr => "PtrToPtr".to_string(),
                    other => format!("{other:?}"),
                };
                jobj(&[
                    ("cast", jarr(&[jstr(&k), self.operand(owner, body, op), jstr(&format!("{t}"))])),
                    ("tok", self.tykind(*t)),
                ])
            }
            Rvalue::Aggregate(box kind, ops) => {
                let o: Vec<String> = ops.iter().map(|x| self.operand(owner, body, x)).collect();
                let mut f: Vec<(&str, String)> = Vec::new();
                match kind {
                    AggregateKind::Adt(did, vi, _, _, active) => {
                        let adt = self.tcx.adt_def(*did);
                        f.push(("kind", jstr("adt")));
                        f.push(("def", jstr(&self.path(*did))));
                        f.push(("variant", jstr(adt.variant(*vi).name.as_str())));
                        f.push(("vidx", vi.index().to_string()));
                        let names: Vec<String> = if let Some(a) = active {
                            vec![jstr(adt.variant(*vi).fields[*a].name.as_str())]
                        } else {
                            adt.variant(*vi).fields.iter().map(|fd| jstr(fd.name.as_str())).collect()
                        };
                        f.push(("fields", jarr(&names)));
                    }
                    AggregateKind::Tuple => f.push(("kind", jstr("tuple"))),
                    AggregateKind::Array(_) => f.push(("kind", jstr("array"))),
                    AggregateKind::Closure(did, _) => {
                        f.push(("kind", jstr("closure")));
                        f.push(("def", jstr(&self.path(*did))));
                    }
                    other => {
                        f.push(("kind", jstr("other")));
                        f.push(("dbg", jstr(&format!("{other:?}"))));
                    }
                }
                f.push(("ops", jarr(&o)));
                jobj(&[("agg", jobj(&f))])
            }
            Rvalue::Discriminant(p) => {
                let pty = p.ty(&body.local_decls, self.tcx).ty;
                let adt = match pty.kind() {
                    ty::Adt(a, _) => jstr(&self.path(a.did())),
                    _ => jnull(),
                };
                jobj(&[("discr", self.place(body, p)), ("adt", adt)])
            }
            Rvalue::Repeat(op, n) => {
                let nn = n
                    .try_to_target_usize(self.tcx)
                    .map(|n| n.to_string())
                    .unwrap_or_else(jnull);
                jobj(&[("repeat", jarr(&[self.operand(owner, body, op), nn]))])
            }
            Rvalue::CopyForDeref(p) => jobj(&[("use", jobj(&[("c", self.place(body, p))]))]),
            other => jobj(&[("other", jstr(&format!("{other:?}")))]),
        }
    }

    fn body(&self, owner: DefId, body: &Body<'tcx>) -> (String, String, String) {
        let tcx = self.tcx;
        // locals
        let mut names: Vec<Option<String>> = vec![None; body.local_decls.len()];
        let mut dbg = Vec::new();
        for vdi in &body.var_debug_info {
            if let mir::VarDebugInfoContents::Place(p) = &vdi.value {
                if p.projection.is_empty() {
                    names[p.local.index()] = Some(vdi.name.to_string());
                }
                dbg.push(jobj(&[("name", jstr(vdi.name.as_str())), ("place", self.place(body, p))]));
            }
        }
        let mut locals = Vec::new();
        for (l, d) in body.local_decls.iter_enumerated() {
            let idx = l.index();
            locals.push(jobj(&[
                ("ty", jstr(&format!("{}", d.ty))),
                ("tk", self.tykind(d.ty)),
                ("name", names[idx].as_ref().map(|s| jstr(s)).unwrap_or_else(jnull)),
                ("arg", jbool(idx >= 1 && idx <= body.arg_count)),
            ]));
        }
        // blocks
        let mut blocks = Vec::new();
        for (_bb, data) in body.basic_blocks.iter_enumerated() {
            let mut stmts = Vec::new();
            for st in &data.statements {
                match &st.kind {
                    StatementKind::Assign(box (place, rv)) => {
                        stmts.push(jobj(&[
                            ("a", jarr(&[self.place(body, place), self.rvalue(owner, body, rv)])),
                            ("sp", jstr(&self.span(st.source_info.span))),
                            ("exp", jbool(st.source_info.span.from_expansion())),
                        ]));
                    }
                    StatementKind::SetDiscriminant { place, variant_index } => {
                        stmts.push(jobj(&[
                            ("setdiscr", jarr(&[self.place(body, place), variant_index.index().to_string()])),
                            ("sp", jstr(&self.span(st.source_info.span))),
                        ]));
                    }
                    StatementKind::StorageLive(_)
                    | StatementKind::StorageDead(_)
                    | StatementKind::Nop
                    | StatementKind::FakeRead(..)
                    | StatementKind::PlaceMention(..)
                    | StatementKind::AscribeUserType(..)
                    | StatementKind::Coverage(..)
                    | StatementKind::ConstEvalCounter
                    | StatementKind::BackwardIncompatibleDropHint { .. } => {}
                    other => {
                        stmts.push(jobj(&[
                            ("other", jstr(&format!("{other:?}"))),
                            ("sp", jstr(&self.span(st.source_info.span))),
                        ]));
                    }
                }
            }
            let term = data.terminator();
            let sp = jstr(&self.span(term.source_info.span));
            let exp = jbool(term.source_info.span.from_expansion());
            let t = match &term.kind {
                TerminatorKind::Goto { target } => jobj(&[("goto", target.index().to_string())]),
                TerminatorKind::SwitchInt { discr, targets } => {
                    let mut ts = Vec::new();
                    for (v, bb) in targets.iter() {
                        ts.push(jarr(&[jstr(&v.to_string()), bb.index().to_string()]));
                    }
                    jobj(&[
                        ("switch", self.operand(owner, body, discr)),
                        ("targets", jarr(&ts)),
                        ("otherwise", targets.otherwise().index().to_string()),
                        ("sp", sp),
                        ("exp", exp),
                    ])
                }
                TerminatorKind::Return => jobj(&[("return", jbool(true)), ("sp", sp)]),
                TerminatorKind::Unreachable => jobj(&[("unreachable", jbool(true))]),
                TerminatorKind::Drop { place, target, .. } => jobj(&[
                    ("drop", self.place(body, place)),
                    ("target", target.index().to_string()),
                ]),
                TerminatorKind::Call { func, args, destination, target, .. } => {
                    let a: Vec<String> =
                        args.iter().map(|x| self.operand(owner, body, &x.node)).collect();
                    let mut callee: Vec<(&str, String)> = Vec::new();
                    let fty = func.ty(&body.local_decls, tcx);
                    if let ty::FnDef(cdid, cargs) = fty.kind() {
                        callee.push(("def", jstr(&self.path(*cdid))));
                        callee.push(("name", jstr(&tcx.def_path_str(*cdid))));
                        let ga: Vec<String> = cargs.iter().map(|g| jstr(&format!("{g}"))).collect();
                        callee.push(("generic_args", jarr(&ga)));
                        // closure def ids named in generic args
                        let mut cl = Vec::new();
                        for g in cargs.iter() {
                            if let Some(t) = g.as_type() {
                                if let ty::Closure(cd, _) = t.kind() {
                                    cl.push(jstr(&self.path(*cd)));
                                }
                            }
                        }
                        callee.push(("closures", jarr(&cl)));
                        let env = ty::TypingEnv::post_analysis(tcx, owner);
                        let mut resolved = jnull();
                        let mut type_param = jnull();
                        if let Some(first) = cargs.iter().next() {
                            if let Some(t) = first.as_type() {
                                if let ty::Param(p) = t.kind() {
                                    type_param = jstr(p.name.as_str());
                                }
                            }
                        }
                        if let Ok(Some(inst)) = ty::Instance::try_resolve(tcx, env, *cdid, cargs) {
                            resolved = jstr(&self.path(inst.def_id()));
                            callee.push(("rname", jstr(&tcx.def_path_str(inst.def_id()))));
                        }
                        callee.push(("resolved", resolved));
                        callee.push(("type_param", type_param));
                        callee.push(("local", jbool(cdid.is_local())));
                    } else {
                        callee.push(("indirect", self.operand(owner, body, func)));
                        callee.push(("fty", jstr(&format!("{fty}"))));
                    }
                    jobj(&[
                        ("call", jobj(&callee)),
                        ("args", jarr(&a)),
                        ("dest", self.place(body, destination)),
                        ("target", target.map(|t| t.index().to_string()).unwrap_or_else(jnull)),
                        ("sp", sp),
                        ("exp", exp),
                    ])
                }
                TerminatorKind::Assert { cond, expected, msg, target, .. } => {
                    let kind = format!("{:?}", msg);
                    let short = kind.split('(').next().unwrap_or("").to_string();
                    let mut f = vec![
                        ("assert", self.operand(owner, body, cond)),
                        ("expected", jbool(*expected)),
                        ("kind", jstr(&short)),
                        ("target", target.index().to_string()),
                        ("sp", sp),
                        ("exp", exp),
                    ];
                    if let mir::AssertKind::BoundsCheck { len, index } = &**msg {
                        f.push(("len", self.operand(owner, body, len)));
                        f.push(("index", self.operand(owner, body, index)));
                    }
                    jobj(&f)
                }
                TerminatorKind::UnwindResume => jobj(&[("resume", jbool(true))]),
                TerminatorKind::UnwindTerminate(_) => jobj(&[("abort", jbool(true))]),
                other => jobj(&[("otherterm", jstr(&format!("{other:?}")))]),
            };
            blocks.push(jobj(&[
                ("s", jarr(&stmts)),
                ("t", t),
                ("cleanup", jbool(data.is_cleanup)),
            ]));
        }
        (jarr(&locals), jarr(&blocks), jarr(&dbg))
    }

    fn attrs_of(&self, did: DefId) -> Vec<String> {
        let mut v = Vec::new();
        for a in self.tcx.get_all_attrs(did) {
            v.push(jstr(&format!("{a:?}").chars().take(400).collect::<String>()));
        }
        v
    }

    fn func(&self, ldid: LocalDefId, out: &mut Vec<String>) {
        let tcx = self.tcx;
        let did = ldid.to_def_id();
        let dk = tcx.def_kind(did);
        let kind = match dk {
            DefKind::Fn => "fn",
            DefKind::AssocFn => "assoc",
            DefKind::Closure => "closure",
            DefKind::Ctor(..) => "ctor",
            DefKind::Const { .. } | DefKind::AssocConst { .. } => "const",
            DefKind::Static { .. } => "static",
            DefKind::AnonConst | DefKind::InlineConst => "anonconst",
            _ => "other",
        };
        if !matches!(kind, "fn" | "assoc" | "closure") {
            return;
        }
        let body = tcx.optimized_mir(did);
        let (locals, blocks, dbg) = self.body(did, body);
        let mut f: Vec<(&str, String)> = vec![
            ("id", jstr(&self.path(did))),
            ("name", jstr(&tcx.def_path_str(did))),
            ("kind", jstr(kind)),
            ("span", jstr(&self.span(tcx.def_span(did)))),
            ("argc", body.arg_count.to_string()),
        ];
        let parent = tcx.opt_parent(did).map(|p| jstr(&self.path(p))).unwrap_or_else(jnull);
        f.push(("parent", parent));
        if matches!(dk, DefKind::Fn | DefKind::AssocFn) {
            let sig = tcx.fn_sig(did).skip_binder().skip_binder();
            f.push(("abi", jstr(&format!("{:?}", sig.abi()))));
            f.push(("unsafe", jbool(sig.safety().is_unsafe())));
            let ins: Vec<String> = sig.inputs().iter().map(|t| jstr(&format!("{t}"))).collect();
            let intk: Vec<String> = sig.inputs().iter().map(|t| self.tykind(*t)).collect();
            f.push(("inputs", jarr(&ins)));
            f.push(("inputs_tk", jarr(&intk)));
            f.push(("output", jstr(&format!("{}", sig.output()))));
            f.push(("output_tk", self.tykind(sig.output())));
            f.push(("vis", jstr(&format!("{:?}", tcx.visibility(did)))));
            let reach = tcx.effective_visibilities(()).is_reachable(ldid);
            f.push(("exported", jbool(reach)));
            let cattrs = tcx.codegen_fn_attrs(did);
            f.push(("no_mangle", jbool(cattrs.flags.contains(rustc_middle::middle::codegen_fn_attrs::CodegenFnAttrFlags::NO_MANGLE))));
            f.push(("symbol", cattrs.symbol_name.map(|s| jstr(s.as_str())).unwrap_or_else(jnull)));
            f.push(("attrs", jarr(&self.attrs_of(did))));
            let g = tcx.generics_of(did);
            let gs: Vec<String> = g.own_params.iter().map(|p| jstr(p.name.as_str())).collect();
            f.push(("generics", jarr(&gs)));
        }
        f.push(("locals", locals));
        f.push(("blocks", blocks));
        f.push(("dbg", dbg));
        out.push(jobj(&f));
        // promoted bodies
        for (pi, pb) in tcx.promoted_mir(did).iter_enumerated() {
            let (locals, blocks, dbg) = self.body(did, pb);
            out.push(jobj(&[
                ("id", jstr(&format!("{}::{{promoted#{}}}", self.path(did), pi.index()))),
                ("kind", jstr("promoted")),
                ("parent", jstr(&self.path(did))),
                ("argc", "0".to_string()),
                ("span", jstr(&self.span(pb.span))),
                ("locals", locals),
                ("blocks", blocks),
                ("dbg", dbg),
            ]));
        }
    }

    fn const_item(&self, ldid: LocalDefId, out: &mut Vec<String>) {
        let tcx = self.tcx;
        let did = ldid.to_def_id();
        let t = tcx.type_of(did).skip_binder();
        let mut f: Vec<(&str, String)> = vec![
            ("path", jstr(&self.path(did))),
            ("ty", jstr(&format!("{t}"))),
            ("tk", self.tykind(t)),
            ("span", jstr(&self.span(tcx.def_span(did)))),
        ];
        if tcx.generics_of(did).count() != 0 {
            out.push(jobj(&f));
            return;
        }
        let val = if matches!(tcx.def_kind(did), DefKind::Static { .. }) {
            tcx.eval_static_initializer(did).ok().map(|alloc| {
                let a = alloc.inner();
                let bytes = a.inspect_with_uninit_and_ptr_outside_interpreter(0..a.len()).to_vec();
                bytes
            })
        } else {
            match tcx.const_eval_poly(did) {
                Ok(mir::ConstValue::Scalar(mir::interpret::Scalar::Int(si))) => {
                    for kv in self.scalar_json(t, si) {
                        f.push(kv);
                    }
                    None
                }
                Ok(mir::ConstValue::Indirect { alloc_id, offset }) => {
                    let alloc = tcx.global_alloc(alloc_id).unwrap_memory();
                    let a = alloc.inner();
                    let start = offset.bytes() as usize;
                    let size = tcx
                        .layout_of(ty::TypingEnv::fully_monomorphized().as_query_input(t))
                        .map(|l| l.size.bytes() as usize)
                        .unwrap_or(a.len() - start);
                    let bytes = a
                        .inspect_with_uninit_and_ptr_outside_interpreter(start..start + size)
                        .to_vec();
                    Some(bytes)
                }
                _ => None,
            }
        };
        if let Some(bytes) = val {
            // decode arrays of integers / struct-free scalars
            let (elem_bits, signed, n): (usize, bool, usize) = match t.kind() {
                ty::Array(e, len) => {
                    let n = len.try_to_target_usize(tcx).unwrap_or(0) as usize;
                    match e.kind() {
                        ty::Uint(u) => (u.bit_width().unwrap_or(64) as usize, false, n),
                        ty::Int(i) => (i.bit_width().unwrap_or(64) as usize, true, n),
                        ty::Bool => (8, false, n),
                        ty::Array(e2, len2) => {
                            let n2 = len2.try_to_target_usize(tcx).unwrap_or(0) as usize;
                            match e2.kind() {
                                ty::Uint(u) => (u.bit_width().unwrap_or(64) as usize, false, n * n2),
                                ty::Int(i) => (i.bit_width().unwrap_or(64) as usize, true, n * n2),
                                _ => (0, false, 0),
                            }
                        }
                        _ => (0, false, 0),
                    }
                }
                ty::Uint(u) => (u.bit_width().unwrap_or(64) as usize, false, 1),
                ty::Int(i) => (i.bit_width().unwrap_or(64) as usize, true, 1),
                _ => (0, false, 0),
            };
            if elem_bits > 0 && n * elem_bits / 8 == bytes.len() {
                let w = elem_bits / 8;
                let mut ints = Vec::with_capacity(n);
                for i in 0..n {
                    let mut raw: u128 = 0;
                    for (k, b) in bytes[i * w..(i + 1) * w].iter().enumerate() {
                        raw |= (*b as u128) << (8 * k);
                    }
                    if signed {
                        let shift = 128 - elem_bits as u32;
                        ints.push((((raw << shift) as i128) >> shift).to_string());
                    } else {
                        ints.push(raw.to_string());
                    }
                }
                f.push(("ints", jarr(&ints)));
                f.push(("elem_bits", elem_bits.to_string()));
            } else {
                let hex: String = bytes.iter().take(4096).map(|b| format!("{b:02x}")).collect();
                f.push(("bytes", jstr(&hex)));
            }
        }
        out.push(jobj(&f));
    }

    fn adt(&self, ldid: LocalDefId, out: &mut Vec<String>) {
        let tcx = self.tcx;
        let did = ldid.to_def_id();
        let adt = tcx.adt_def(did);
        let kind = if adt.is_enum() {
            "enum"
        } else if adt.is_union() {
            "union"
        } else {
            "struct"
        };
        let mut variants = Vec::new();
        for (vi, v) in adt.variants().iter_enumerated() {
            let mut fields = Vec::new();
            for fd in v.fields.iter() {
                let ft = tcx.type_of(fd.did).skip_binder();
                fields.push(jobj(&[
                    ("name", jstr(fd.name.as_str())),
                    ("ty", jstr(&format!("{ft}"))),
                    ("tk", self.tykind(ft)),
                    ("vis", jstr(&format!("{:?}", fd.vis))),
                    ("attrs", jarr(&self.attrs_of(fd.did))),
                ]));
            }
            let discr = if adt.is_enum() {
                let d = adt.discriminant_for_variant(tcx, vi);
                // interpret according to the discriminant type
                let bits = match d.ty.kind() {
                    ty::Int(i) => i.bit_width().unwrap_or(64),
                    ty::Uint(u) => u.bit_width().unwrap_or(64),
                    _ => 128,
                } as u32;
                if matches!(d.ty.kind(), ty::Int(_)) && bits < 128 {
                    let shift = 128 - bits;
                    jstr(&((((d.val << shift) as i128) >> shift).to_string()))
                } else {
                    jstr(&d.val.to_string())
                }
            } else {
                jnull()
            };
            variants.push(jobj(&[
                ("name", jstr(v.name.as_str())),
                ("discr", discr),
                ("fields", jarr(&fields)),
            ]));
        }
        out.push(jobj(&[
            ("path", jstr(&self.path(did))),
            ("kind", jstr(kind)),
            ("repr", jstr(&format!("{:?}", adt.repr()))),
            ("repr_c", jbool(adt.repr().c())),
            ("repr_int", jstr(&format!("{:?}", adt.repr().int))),
            ("attrs", jarr(&self.attrs_of(did))),
            ("span", jstr(&self.span(tcx.def_span(did)))),
            ("vis", jstr(&format!("{:?}", tcx.visibility(did)))),
            ("exported", jbool(tcx.effective_visibilities(()).is_reachable(ldid))),
            ("variants", jarr(&variants)),
        ]));
    }

    fn run(&self, crate_name: &str) -> String {
        let tcx = self.tcx;
        let mut fns = Vec::new();
        let mut keys: Vec<LocalDefId> = tcx.mir_keys(()).iter().copied().collect();
        keys.sort_by_key(|k| self.path(k.to_def_id()));
        for k in &keys {
            self.func(*k, &mut fns);
        }
        let mut adts = Vec::new();
        let mut consts = Vec::new();
        let mut impls = Vec::new();
        let mut statics = Vec::new();
        let mut uses_extern = Vec::new();
        for ldid in tcx.hir_crate_items(()).definitions() {
            let did = ldid.to_def_id();
            match tcx.def_kind(did) {
                DefKind::Struct | DefKind::Enum | DefKind::Union => self.adt(ldid, &mut adts),
                DefKind::Const { .. } | DefKind::AssocConst { .. } => {
                    // skip trait-associated consts without a body
                    if tcx.is_mir_available(did) || tcx.hir_maybe_body_owned_by(ldid).is_some() {
                        self.const_item(ldid, &mut consts)
                    }
                }
                DefKind::Static { mutability, .. } => {
                    let t = tcx.type_of(did).skip_binder();
                    let freeze = t.is_freeze(tcx, ty::TypingEnv::post_analysis(tcx, did));
                    statics.push(jobj(&[
                        ("path", jstr(&self.path(did))),
                        ("ty", jstr(&format!("{t}"))),
                        ("mut", jbool(mutability.is_mut())),
                        ("freeze", jbool(freeze)),
                        ("span", jstr(&self.span(tcx.def_span(did)))),
                    ]));
                    self.const_item(ldid, &mut consts);
                }
                DefKind::Impl { of_trait } => {
                    let self_ty = tcx.type_of(did).skip_binder();
                    let tr = if of_trait {
                        let r = tcx.impl_trait_ref(did).skip_binder();
                        jstr(&self.path(r.def_id))
                    } else {
                        jnull()
                    };
                    let mut fnames = Vec::new();
                    for it in tcx.associated_items(did).in_definition_order() {
                        fnames.push(jstr(it.name().as_str()));
                    }
                    let self_path = match self_ty.kind() {
                        ty::Adt(a, _) => jstr(&self.path(a.did())),
                        _ => jnull(),
                    };
                    impls.push(jobj(&[
                        ("path", jstr(&self.path(did))),
                        ("name", jstr(&tcx.def_path_str(did))),
                        ("trait", tr),
                        ("self_ty", jstr(&format!("{self_ty}"))),
                        ("self_path", self_path),
                        ("derived", jbool(tcx.is_automatically_derived(did))),
                        ("items", jarr(&fnames)),
                        ("span", jstr(&self.span(tcx.def_span(did)))),
                        ("unsafe", jbool(of_trait && tcx.impl_trait_header(did).safety.is_unsafe())),
                    ]));
                }
                DefKind::ExternCrate => {
                    uses_extern.push(jstr(&self.path(did)));
                }
                _ => {}
            }
        }
        // crate-level info
        let mut cattrs = Vec::new();
        for a in tcx.hir_krate_attrs() {
            cattrs.push(jstr(&format!("{a:?}").chars().take(600).collect::<String>()));
        }
        let mut deps = Vec::new();
        for c in tcx.crates(()) {
            deps.push(jstr(tcx.crate_name(*c).as_str()));
        }
        let (lint_level, lint_src) = {
            let store = rustc_lint::unerased_lint_store(tcx.sess);
            let mut r = ("unknown".to_string(), "unknown".to_string());
            for l in store.get_lints() {
                if l.name_lower() == "unsafe_code" {
                    let lv = tcx.lint_level_at_node(l, rustc_hir::CRATE_HIR_ID);
                    r = (format!("{:?}", lv.level), format!("{:?}", lv.src));
                    if let rustc_middle::lint::LintLevelSource::Node { span, .. } = lv.src {
                        r.1 = format!("Node@{}", self.span(span));
                    }
                }
            }
            r
        };
        let mut exports = Vec::new();
        let ev = tcx.effective_visibilities(());
        for ldid in tcx.hir_crate_items(()).definitions() {
            let dk = tcx.def_kind(ldid.to_def_id());
            if matches!(
                dk,
                DefKind::Fn
                    | DefKind::AssocFn
                    | DefKind::Struct
                    | DefKind::Enum
                    | DefKind::Const { .. }
                    | DefKind::AssocConst { .. }
                    | DefKind::Trait
                    | DefKind::Mod
                    | DefKind::TyAlias
                    | DefKind::Static { .. }
            ) && ev.is_reachable(ldid)
            {
                exports.push(jobj(&[
                    ("path", jstr(&self.path(ldid.to_def_id()))),
                    ("kind", jstr(&format!("{dk:?}").split(|c| c == ' ' || c == '{').next().unwrap_or("").to_string())),
                ]));
            }
        }
        let sess = tcx.sess;
        let feats: Vec<String> = self.feats.iter().map(|c| jstr(c)).collect();
        let meta = jobj(&[
            ("crate", jstr(crate_name)),
            ("target", jstr(&sess.opts.target_triple.to_string())),
            ("cfg", jarr(&feats)),
            ("pointer_width", sess.target.pointer_width.to_string()),
            ("panic", jstr(&format!("{:?}", sess.panic_strategy()))),
            ("debug_assertions", jbool(sess.opts.debug_assertions)),
            ("overflow_checks", jbool(sess.overflow_checks())),
            ("rustc", jstr(option_env!("CFG_VERSION").unwrap_or("nightly"))),
        ]);
        let krate = jobj(&[
            ("attrs", jarr(&cattrs)),
            ("deps", jarr(&deps)),
            ("unsafe_code_level", jstr(&lint_level)),
            ("unsafe_code_src", jstr(&lint_src)),
            ("exports", jarr(&exports)),
            ("extern_crates", jarr(&uses_extern)),
        ]);
        jobj(&[
            ("meta", meta),
            ("crate", krate),
            ("adts", jarr(&adts)),
            ("impls", jarr(&impls)),
            ("consts", jarr(&consts)),
            ("statics", jarr(&statics)),
            ("fns", jarr(&fns)),
        ])
    }
}

struct Cb {
    crate_name: String,
    out: String,
    feats: Vec<String>,
}

impl Callbacks for Cb {
    fn after_analysis<'tcx>(&mut self, _c: &Compiler, tcx: TyCtxt<'tcx>) -> Compilation {
        if tcx.dcx().has_errors().is_some() {
            return Compilation::Continue;
        }
        let _ = LOCAL_CRATE;
        let ex = Ex { tcx, feats: self.feats.clone() };
        let doc = ex.run(&self.crate_name);
        let path = format!("{}/{}.json", self.out, self.crate_name);
        let tmp = format!("{path}.tmp{}", std::process::id());
        std::fs::write(&tmp, doc).expect("mzfacts: cannot write fact file");
        std::fs::rename(&tmp, &path).expect("mzfacts: cannot rename fact file");
        Compilation::Continue
    }
}

struct NoCb;
impl Callbacks for NoCb {}

fn main() {
    let mut args: Vec<String> = std::env::args().collect();
    if args.len() >= 2 && args[1] == "--lex" {
        std::process::exit(lex_mode(&args[2..]));
    }
    // wrapper mode: argv[1] is the real rustc; drop it.
    if args.len() >= 2 && (args[1].ends_with("rustc") || args[1].contains("rustc")) {
        args.remove(1);
    }
    let mut crate_name = String::new();
    let mut feats: Vec<String> = Vec::new();
    let mut i = 0;
    while i < args.len() {
        if args[i] == "--crate-name" && i + 1 < args.len() {
            crate_name = args[i + 1].clone();
        }
        if args[i] == "--cfg" && i + 1 < args.len() {
            feats.push(args[i + 1].clone());
        }
        i += 1;
    }
    let want: Vec<String> = std::env::var("MZFACTS_CRATES")
        .unwrap_or_else(|_| "miniz_oxide,miniz_oxide_c_api,miniz_oxide_test".to_string())
        .split(',')
        .map(|s| s.to_string())
        .collect();
    let out = std::env::var("MZFACTS_OUT").ok();
    // `cargo check` for a lib target passes --emit=…metadata; test harness builds pass --test.
    let is_test = args.iter().any(|a| a == "--test");
    let is_probe = args.iter().any(|a| a == "-vV" || a.starts_with("--print"));
    if let (Some(out), false, false) = (out, is_test, is_probe) {
        if want.iter().any(|w| *w == crate_name) {
            let mut cb = Cb { crate_name, out, feats };
            rustc_driver::run_compiler(&args, &mut cb);
            return;
        }
    }
    rustc_driver::run_compiler(&args, &mut NoCb);
}
