//! Compile-time witnesses for C20 / C19: the public state types of `miniz_oxide` stay
//! `Send + Sync + Clone + 'static` (and serialisable under `serde`).  A violating library does not
//! build against this crate; nothing in it is ever executed.
//!
//! The twins below prove the witnesses are armed: a wrapper holding an `Rc` fails the same bound
//! with E0277, and differs from its compiling twin only by that field.
//!
//! ```compile_fail,E0277
//! fn need<T: Send + Sync + Clone + 'static>() {}
//! #[derive(Clone)]
//! struct Wrapper { inner: miniz_oxide::inflate::stream::InflateState, rc: std::rc::Rc<u8> }
//! need::<Wrapper>();
//! ```
//!
//! ```
//! fn need<T: Send + Sync + Clone + 'static>() {}
//! #[derive(Clone)]
//! struct Wrapper { inner: miniz_oxide::inflate::stream::InflateState, rc: u8 }
//! need::<Wrapper>();
//! ```
#![allow(dead_code)]

fn need<T: Send + Sync + Clone + 'static>() {}

pub fn witnesses() {
    need::<miniz_oxide::inflate::core::DecompressorOxide>();
    need::<miniz_oxide::inflate::stream::InflateState>();
    need::<miniz_oxide::inflate::TINFLStatus>();
    need::<miniz_oxide::DataFormat>();
    need::<miniz_oxide::MZFlush>();
    need::<miniz_oxide::StreamResult>();
    #[cfg(feature = "with-alloc")]
    {
        need::<miniz_oxide::deflate::core::CompressorOxide>();
        need::<miniz_oxide::deflate::core::TDEFLStatus>();
        need::<miniz_oxide::deflate::core::TDEFLFlush>();
        need::<miniz_oxide::deflate::CompressionLevel>();
    }
    #[cfg(feature = "block-boundary")]
    need::<miniz_oxide::inflate::core::BlockBoundaryState>();
}

#[cfg(feature = "serde")]
pub mod serde_witness {
    fn need<T: serde::Serialize + serde::de::DeserializeOwned>() {}
    pub fn witnesses() {
        need::<miniz_oxide::inflate::core::DecompressorOxide>();
        #[cfg(feature = "block-boundary")]
        need::<miniz_oxide::inflate::core::BlockBoundaryState>();
    }
}
