// KF-3 demonstration (C17): NULL pointers passed to the tinfl_* exports.  Asserts the CORRECT behaviour (error codes);
// on the tree before the fix every test aborts the process (expect()/unwrap() on a null pointer, null dereference).
// Run from a scratch worktree:  cp kf3_demo.rs <worktree>/tests/ && cargo test --offline --test kf3_demo
extern crate miniz_oxide_c_api;
use std::os::raw::{c_int, c_void};
use std::ptr;

// the exports are #[no_mangle] extern "C" symbols of the shim (the modules themselves are private)
#[repr(C)]
pub struct tinfl_decompressor {
    _private: [u8; 0],
}
extern "C" {
    fn tinfl_decompress(
        r: *mut tinfl_decompressor,
        in_buf: *const u8,
        in_buf_size: *mut usize,
        out_buf_start: *mut u8,
        out_buf_next: *mut u8,
        out_buf_size: *mut usize,
        flags: u32,
    ) -> i32;
    fn tinfl_decompress_mem_to_mem(out: *mut c_void, out_len: usize, src: *const c_void, src_len: usize, flags: c_int) -> usize;
    fn tinfl_decompress_mem_to_heap(src: *const c_void, src_len: usize, out_len: *mut usize, flags: c_int) -> *mut c_void;
    fn tinfl_decompressor_alloc() -> *mut tinfl_decompressor;
    fn tinfl_decompressor_free(c: *mut tinfl_decompressor);
    fn tinfl_init(c: *mut tinfl_decompressor);
    fn tinfl_get_adler32(c: *mut tinfl_decompressor) -> c_int;
}
#[allow(unused_imports)]
use miniz_oxide_c_api::mz_adler32 as _link_the_shim;

#[test]
fn tinfl_decompress_null_decompressor() {
    let mut in_size = 0usize;
    let mut out_size = 16usize;
    let mut out = [0u8; 16];
    let st = unsafe {
        tinfl_decompress(ptr::null_mut(), ptr::null(), &mut in_size, out.as_mut_ptr(), out.as_mut_ptr(), &mut out_size, 0)
    };
    assert_eq!(st, -3, "TINFL_STATUS_BAD_PARAM expected");
}

#[test]
fn tinfl_decompress_null_sizes() {
    let d = unsafe { tinfl_decompressor_alloc() };
    let mut out = [0u8; 16];
    let st = unsafe { tinfl_decompress(d, ptr::null(), ptr::null_mut(), out.as_mut_ptr(), out.as_mut_ptr(), ptr::null_mut(), 0) };
    assert_eq!(st, -3);
    unsafe { tinfl_decompressor_free(d) };
}

#[test]
fn mem_to_heap_null_out_len() {
    let src = [0x03u8, 0x00];
    let p = unsafe { tinfl_decompress_mem_to_heap(src.as_ptr() as *const _, src.len(), ptr::null_mut(), 0) };
    assert!(p.is_null());
}

#[test]
fn init_and_adler_null() {
    unsafe { tinfl_init(ptr::null_mut()) };
    assert_eq!(unsafe { tinfl_get_adler32(ptr::null_mut()) }, 0);
}

#[test]
fn mem_to_mem_null_src_with_len() {
    let mut out = [0u8; 8];
    let n = unsafe { tinfl_decompress_mem_to_mem(out.as_mut_ptr() as *mut _, out.len(), ptr::null(), 4, 0) };
    assert_eq!(n, usize::MAX, "TINFL_DECOMPRESS_MEM_TO_MEM_FAILED expected");
}
