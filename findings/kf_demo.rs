// Demonstrations of the known findings against the real code (run from a scratch worktree:
//   cp /verif/findings/kf_demo.rs <worktree>/miniz_oxide/tests/ && cargo test -p miniz_oxide --test kf_demo --offline -- --nocapture)
// kf1_* and kf2_* assert the CORRECT behaviour: they FAIL on the tree before the `fix:` commits (a62f587) and pass after them.
// kf5_* documents an open finding: it passes while the defect is present.
use miniz_oxide::deflate::core::{compress, CompressionStrategy, CompressorOxide, TDEFLFlush, TDEFLStatus};
use miniz_oxide::inflate::core::{decompress, inflate_flags, DecompressorOxide};
use miniz_oxide::inflate::stream::{inflate, InflateState, MinReset, ZeroReset};
use miniz_oxide::inflate::TINFLStatus;
use miniz_oxide::{DataFormat, MZFlush};

fn lcg(seed: &mut u32) -> u8 {
    *seed = seed.wrapping_mul(1664525).wrapping_add(1013904223);
    (*seed >> 24) as u8
}

fn compress_all(c: &mut CompressorOxide, data: &[u8]) -> Vec<u8> {
    let mut out = vec![0u8; data.len() * 2 + 1024];
    let (st, _i, o) = compress(c, data, &mut out, TDEFLFlush::Finish);
    assert_eq!(st, TDEFLStatus::Done);
    out.truncate(o);
    out
}

/// Decode a zlib stream with a ring buffer of exactly `window` bytes (what a decoder trusting the header allocates).
fn decode_with_ring(stream: &[u8], window: usize) -> Result<Vec<u8>, TINFLStatus> {
    let mut r = DecompressorOxide::new();
    let mut ring = vec![0u8; window];
    let mut out = Vec::new();
    let mut in_pos = 0;
    let mut ofs = 0;
    loop {
        let (st, i, o) = decompress(&mut r, &stream[in_pos..], &mut ring, ofs, inflate_flags::TINFL_FLAG_PARSE_ZLIB_HEADER);
        in_pos += i;
        out.extend_from_slice(&ring[ofs..ofs + o]);
        ofs = (ofs + o) & (window - 1);
        match st {
            TINFLStatus::Done => return Ok(out),
            TINFLStatus::HasMoreOutput => continue,
            e => return Err(e),
        }
    }
}

/// KF-1: RLE strategy (and every window_bits < 12, which maps to level 1 + RLE) is routed to compress_fast, which emits
/// ordinary long-distance matches; the header declares a 512-byte window (window_bits 9).
#[test]
fn kf1_rle_routed_to_fast_path_emits_long_distances() {
    let mut seed = 1;
    let block: Vec<u8> = (0..3000).map(|_| lcg(&mut seed)).collect();
    let mut data = block.clone();
    data.extend_from_slice(&block);
    data.extend_from_slice(&block);
    let mut c = CompressorOxide::with_params(DataFormat::Zlib, 6, CompressionStrategy::Default, 9);
    let z = compress_all(&mut c, &data);
    let declared = 1usize << ((z[0] >> 4) + 8);
    assert_eq!(declared, 512, "header declares a 512 byte window");
    // the full 32 KiB window decodes it, the declared window does not: the stream contains distance 3000 > 512
    assert_eq!(miniz_oxide::inflate::decompress_to_vec_zlib(&z).unwrap(), data);
    assert_eq!(decode_with_ring(&z, declared).ok(), Some(data.clone()), "stream must decode with the declared 512-byte window");
}

/// KF-2: window_bits 12..=14 cap the level to 1 but distances up to 32 KiB are emitted; header declares 4..16 KiB.
#[test]
fn kf2_window_bits_12_to_14_exceed_declared_window() {
    let mut seed = 7;
    let block: Vec<u8> = (0..20000).map(|_| lcg(&mut seed)).collect();
    let mut data = block.clone();
    data.extend_from_slice(&block);
    for wb in 12..=14u8 {
        let mut c = CompressorOxide::with_params(DataFormat::Zlib, 6, CompressionStrategy::Default, wb);
        let z = compress_all(&mut c, &data);
        let declared = 1usize << ((z[0] >> 4) + 8);
        assert_eq!(declared, 1usize << wb);
        assert_eq!(miniz_oxide::inflate::decompress_to_vec_zlib(&z).unwrap(), data);
        assert_eq!(decode_with_ring(&z, declared).ok(), Some(data.clone()), "window_bits {}: must decode with the declared window", wb);
    }
}

/// KF-5: MinReset leaves the 32 KiB window of InflateState untouched; a following stream whose first match reaches before
/// its own start (accepted in ring mode) reads the previous stream's bytes.  Fresh / ZeroReset give zeros.
#[test]
fn kf5_minreset_leaks_previous_window() {
    // raw stream: fixed block, one match length 3 distance 1, end of block:  03 02 00
    let evil = [0x03u8, 0x02, 0x00];
    let run = |st: &mut InflateState| {
        let mut out = [0x55u8; 8];
        let r = inflate(st, &evil, &mut out, MZFlush::None);
        (r.status, out[..r.bytes_written].to_vec())
    };
    let mut fresh = InflateState::new_boxed(DataFormat::Raw);
    let (_s, fresh_out) = run(&mut fresh);
    assert_eq!(fresh_out, vec![0, 0, 0]);
    // history: a long 0xAB stream
    let prior = miniz_oxide::deflate::compress_to_vec(&vec![0xABu8; 40000], 6);
    let mut st = InflateState::new_boxed(DataFormat::Raw);
    let mut sink = vec![0u8; 50000];
    let mut ip = 0;
    loop {
        let r = inflate(&mut st, &prior[ip..], &mut sink, MZFlush::None);
        ip += r.bytes_consumed;
        if r.status == Ok(miniz_oxide::MZStatus::StreamEnd) { break; }
        assert!(r.status.is_ok());
    }
    st.reset_as(MinReset);
    let (_s, after_min) = run(&mut st);
    assert_eq!(after_min, vec![0xAB, 0xAB, 0xAB], "MinReset: output depends on the previous stream (defect present)");
    st.reset_as(ZeroReset);
    let (_s, after_zero) = run(&mut st);
    assert_eq!(after_zero, vec![0, 0, 0]);
}
